// ---- the invariants of the reload protocol -------------------------------------------------------------------------------------------------------
/// a reload task runs among the text-sync handlers; the in-flight handler (if any) is the last writer of the store
pub open spec fn base(s: St) -> bool { !s.quiet && s.pend_wf() }
/// `(v, f)` is a snapshot of the store: the store's version counter has not gone back, and while it is still `v` the store is what `f` lists
pub open spec fn pre(s: St, v: u64, f: Seq<(Uri, String)>) -> bool {
    base(s) && s.wm.ver() >= v && (s.wm.ver() == v ==> files_ok(s.wm, f))
}
/// snapshot `(v, f)` has been APPLIED to the analysis: while the version counter is still `v` every open workspace file has its editor text;
/// every closed workspace file that `f` does not list reflects the disk
pub open spec fn inv(s: St, v: u64, f: Seq<(Uri, String)>) -> bool {
    pre(s, v, f) && (s.wm.ver() == v ==> open_ok(s)) && closed_ok(s, f)
}
/// THE PROPERTY, as a state predicate
pub open spec fn done(s: St) -> bool { base(s) && !s.window && open_ok(s) && closed_ok(s, Seq::<(Uri, String)>::empty()) }

pub proof fn lemma_rely_pre(a: St, b: St, v: u64, f: Seq<(Uri, String)>)
    requires pre(a, v, f), rely(a, b)
    ensures pre(b, v, f)
{ }

#[verifier::spinoff_prover]
pub proof fn lemma_rely_closed(a: St, b: St, f: Seq<(Uri, String)>)
    requires base(a), closed_ok(a, f), rely(a, b)
    ensures closed_ok(b, f)
{
    assert forall|u: Uri| #![trigger b.store().contains_key(u)] managed(u) && b.wm.ws(u) && !b.store().contains_key(u) && !listed(f, u) && b.pclose() != Some(u)
        implies disk_like(b.analysis, u) by {
        if !disk_like(b.analysis, u) {
            assert(!a.store().contains_key(u) && a.pclose() != Some(u) && opt_at(b.analysis, u) == opt_at(a.analysis, u));
            assert(a.wm.ws(u));
            assert(disk_like(a.analysis, u));
        }
    }
}
#[verifier::spinoff_prover]
pub proof fn lemma_rely_open_same_ver(a: St, b: St)
    requires base(a), open_ok(a), rely(a, b), b.wm.ver() == a.wm.ver()
    ensures open_ok(b)
{
    assert forall|u: Uri| #![trigger b.store().contains_key(u)] b.store().contains_key(u) && b.wm.ws(u)
        implies b.settled().contains_key(u) && b.settled()[u] == b.store()[u]@ by {
        assert(a.store().contains_key(u));
        assert(a.pclose() != Some(u));
        assert(b.settled().contains_key(u) || !b.settled().contains_key(u));
        assert(opt_at(b.settled(), u) == opt_at(a.settled(), u));
    }
}
pub proof fn lemma_rely_inv(a: St, b: St, v: u64, f: Seq<(Uri, String)>)
    requires inv(a, v, f), rely(a, b)
    ensures inv(b, v, f)
{
    lemma_rely_pre(a, b, v, f);
    lemma_rely_closed(a, b, f);
    if b.wm.ver() == v { lemma_rely_open_same_ver(a, b); }
}
pub proof fn lemma_rely_done(a: St, b: St)
    requires done(a), rely(a, b)
    ensures done(b)
{
    lemma_rely_closed(a, b, Seq::<(Uri, String)>::empty());
}
/// environment step, packaged for the exec proofs
pub proof fn lemma_env_pre(a: St, b: St, v: u64, f: Seq<(Uri, String)>)
    requires pre(a, v, f), env(a, b)
    ensures pre(b, v, f), b.wm.same_matcher(a.wm), b.window == a.window, b.epoch >= a.epoch
{ lemma_env(a, b); lemma_rely_pre(a, b, v, f); }
pub proof fn lemma_env_inv(a: St, b: St, v: u64, f: Seq<(Uri, String)>)
    requires inv(a, v, f), env(a, b)
    ensures inv(b, v, f), b.wm.same_matcher(a.wm), b.window == a.window, b.epoch >= a.epoch
{ lemma_env(a, b); lemma_rely_inv(a, b, v, f); }
pub proof fn lemma_env_done(a: St, b: St)
    requires done(a), env(a, b)
    ensures done(b)
{ lemma_env(a, b); lemma_rely_done(a, b); }
pub proof fn lemma_env_base(a: St, b: St)
    requires base(a), env(a, b)
    ensures base(b), b.wm.same_matcher(a.wm), b.window == a.window, b.epoch >= a.epoch, b.wm.ver() >= a.wm.ver()
{ lemma_env(a, b); }

// ---- a batch of updates, as `update_files_by_uri` applies it (in order: Vfs::set_file_content per entry) -----------------------------------------
pub open spec fn apply_updates(m: Map<Uri, Text>, s: Seq<(Uri, Option<String>)>) -> Map<Uri, Text>
    decreases s.len()
{
    if s.len() == 0 { m } else {
        let p = apply_updates(m, s.drop_last());
        match s.last().1 { Some(t) => p.insert(s.last().0, t@), None => p.remove(s.last().0) }
    }
}
pub open spec fn upd_listed(s: Seq<(Uri, Option<String>)>, u: Uri) -> bool { exists|i: int| 0 <= i < s.len() && (#[trigger] s[i]).0 == u }
pub proof fn lemma_apply_updates(m: Map<Uri, Text>, s: Seq<(Uri, Option<String>)>, u: Uri)
    ensures
        !upd_listed(s, u) ==> opt_at(apply_updates(m, s), u) == opt_at(m, u),
        forall|t: Text| upd_listed(s, u) && (forall|i: int| 0 <= i < s.len() && (#[trigger] s[i]).0 == u ==> opt_view(s[i].1) == Some(t))
            ==> opt_at(apply_updates(m, s), u) == Some(t),
    decreases s.len()
{
    if s.len() > 0 {
        let d = s.drop_last();
        lemma_apply_updates(m, d, u);
        assert forall|i: int| 0 <= i < d.len() implies #[trigger] d[i] == s[i] by { }
        if !upd_listed(s, u) {
            assert(s[s.len() - 1].0 != u);
            if upd_listed(d, u) { let i = choose|i: int| 0 <= i < d.len() && (#[trigger] d[i]).0 == u; assert(s[i].0 == u); }
        }
        assert forall|t: Text| upd_listed(s, u) && (forall|i: int| 0 <= i < s.len() && (#[trigger] s[i]).0 == u ==> opt_view(s[i].1) == Some(t))
            implies opt_at(apply_updates(m, s), u) == Some(t) by {
            if s.last().0 == u {
                assert(s[s.len() - 1].0 == u);
            } else {
                let i = choose|i: int| 0 <= i < s.len() && (#[trigger] s[i]).0 == u;
                assert(d[i].0 == u);
                assert forall|j: int| 0 <= j < d.len() && (#[trigger] d[j]).0 == u implies opt_view(d[j].1) == Some(t) by { assert(s[j].0 == u); }
            }
        }
    }
}

// ---- shims: tokio RwLock (access + the interleaving model at the suspension point), the analysis, the managers ------------------------------------
/// tokio::sync::RwLock. `.read().await` / `.write().await` SUSPEND the task until the lock is granted: the rest of the server runs (`env`), then the
/// caller has access. No fairness / deadlock modelling (C28) — except the FIFO fact behind `window`, see `trusted`.
#[verifier::external_body]
#[verifier::reject_recursive_types(T)]
pub struct RwLock<T> { _p: core::marker::PhantomData<T> }
impl RwLock<WorkspaceManager> {
    /// the guard derefs to the value behind the lock (`*r` = the value when the lock is granted); what the holder leaves there when the guard is
    /// dropped (`*final(r)`) is what every later reader sees. Nothing else of the ghost state changes while the guard is held (the code under proof
    /// has no suspension point inside a workspace-manager lock scope: rule `c29-no-await-under-wm-guard`).
    #[verifier::external_body]
    pub fn write<'a>(&'a self, st: &mut Shared) -> (r: &'a mut WorkspaceManager)
        ensures
            env(old(st).g@, St { wm: *r, window: old(st).g@.window, ..final(st).g@ }),
            final(st).g@.wm == *final(r),
            final(st).g@.window,
    { unimplemented!() }
    #[verifier::external_body]
    pub fn read<'a>(&'a self, st: &mut Shared) -> (r: &'a WorkspaceManager)
        ensures
            env(old(st).g@, St { window: old(st).g@.window, ..final(st).g@ }),
            *r == final(st).g@.wm,
            !final(st).g@.window,
    { unimplemented!() }
}
/// emmylua_code_analysis::EmmyLuaAnalysis behind the read guard
pub struct EmmyLuaAnalysis { pub compilation: LuaCompilation }
/// RwLockWriteGuard<EmmyLuaAnalysis>: the `&mut self` methods of the analysis are called through it
#[verifier::external_body]
pub struct AnalysisWriteGuard { _p: () }
impl RwLock<EmmyLuaAnalysis> {
    #[verifier::external_body]
    pub fn write(&self, st: &mut Shared) -> (r: AnalysisWriteGuard)
        ensures env(old(st).g@, final(st).g@),
    { unimplemented!() }
    #[verifier::external_body]
    pub fn read(&self, st: &mut Shared) -> (r: &EmmyLuaAnalysis)
        ensures env(old(st).g@, final(st).g@),
    { unimplemented!() }
}
/// std::mem::drop (prelude): releases a guard; no effect on the ghost state
pub fn drop<T>(_x: T) { }
/// rule `c29-drop-wm-guard`: std::mem::drop of the workspace-manager WRITE guard (here: the reference the lock shim hands out) releases the lock; the
/// value behind the lock is as the holder left it
pub fn vx_drop_wm_guard(g: &mut WorkspaceManager) ensures *final(g) == *old(g) { }

#[verifier::external_body] pub struct ModuleInfo { _p: () }
#[verifier::external_body] pub struct LuaModuleIndex { _p: () }
impl LuaModuleIndex {
    #[verifier::external_body]
    pub fn get_module(&self, file_id: FileId) -> (r: Option<&ModuleInfo>) ensures r is Some <==> sp_is_module_file(file_id.sp_uri()) { unimplemented!() }
}
#[verifier::external_body] pub struct DbIndex { _p: () }
impl DbIndex {
    #[verifier::external_body]
    pub fn get_module_index(&self) -> &LuaModuleIndex { unimplemented!() }
}
#[verifier::external_body] pub struct LuaCompilation { _p: () }
impl LuaCompilation {
    #[verifier::external_body]
    pub fn get_db(&self) -> &DbIndex { unimplemented!() }
}
impl EmmyLuaAnalysis {
    #[verifier::external_body]
    pub fn get_file_id(&self, uri: &Uri, st: &mut Shared) -> (r: Option<FileId>)
        ensures final(st).g@ == old(st).g@, r is Some <==> old(st).g@.analysis.contains_key(*uri), r matches Some(f) ==> f.sp_uri() == *uri,
    { unimplemented!() }
    #[verifier::external_body]
    pub fn get_emmyrc(&self) -> Arc<Emmyrc> { unimplemented!() }
}

/// one entry of the file list the loader collected from the disk
#[verifier::external_body] pub struct LuaFileInfo { _p: () }
impl LuaFileInfo {
    pub uninterp spec fn sp_tuple(self) -> (PathBuf, Option<String>);
    #[verifier::external_body]
    pub fn into_tuple(self) -> (r: (PathBuf, Option<String>)) ensures r == self.sp_tuple() { unimplemented!() }
}
/// `collect_workspace_files` walks the workspace folders and libraries and READS every matching file: each text it returns is a disk reading
#[verifier::external_body]
pub fn collect_workspace_files(workspaces: &Vec<WorkspaceFolder>, emmyrc: &Emmyrc, extra_include: Option<Vec<String>>, extra_exclude: Option<Vec<String>>, st: &mut Shared) -> (r: Vec<LuaFileInfo>)
    ensures
        final(st).g@ == old(st).g@,
        forall|i: int| 0 <= i < r@.len() ==> ((#[trigger] r@[i]).sp_tuple().1 matches Some(t) ==> sp_read(r@[i].sp_tuple().0, old(st).g@.epoch) == Some(t@)),
{ unimplemented!() }
#[verifier::external_body]
pub fn build_workspace_folders(workspace_folders: &Vec<WorkspaceFolder>, emmyrc: &Emmyrc) -> Vec<WorkspaceFolder> { unimplemented!() }

/// `reload_workspace_files(files, open_files)` (emmylua_code_analysis/src/lib.rs), read off its text at the uri level (uris are canonical:
/// `file_path_to_uri(uri_to_file_path(u)) == u`, see `trusted`): an OPEN document gets its editor text; any other managed document gets the
/// text the loader read for its path, or is removed (stale: not collected); everything else (std library, remote documents) is left alone
pub open spec fn load_post(a0: Map<Uri, Text>, a1: Map<Uri, Text>, files: Seq<(PathBuf, Option<String>)>, open: Seq<(Uri, String)>) -> bool {
    forall|u: Uri| #![trigger a1.contains_key(u)]
        if listed(open, u) {
            a1.contains_key(u) && exists|i: int| 0 <= i < open.len() && (#[trigger] open[i]).0 == u && a1[u] == open[i].1@
        } else if managed(u) {
            (exists|i: int| 0 <= i < files.len() && (#[trigger] files[i]).0 == sp_path(u)->0 && opt_at(a1, u) == opt_view(files[i].1))
            || ((forall|i: int| 0 <= i < files.len() ==> (#[trigger] files[i]).0 != sp_path(u)->0) && !a1.contains_key(u))
        } else {
            opt_at(a1, u) == opt_at(a0, u)
        }
}
impl AnalysisWriteGuard {
    /// rule `write-guard-deref`: `Deref::deref` of the guard — the analysis behind the lock, read-only
    #[verifier::external_body]
    pub fn vx_deref(&self) -> &EmmyLuaAnalysis { unimplemented!() }
    #[verifier::external_body]
    pub fn clear_non_std_workspaces(&mut self) { }
    #[verifier::external_body]
    pub fn update_config(&mut self, config: Arc<Emmyrc>) { }
    #[verifier::external_body]
    pub fn add_library_workspace(&mut self, workspace: &WorkspaceFolder) { }
    #[verifier::external_body]
    pub fn add_main_workspace(&mut self, root: PathBuf) { }
    #[verifier::external_body]
    pub fn get_emmyrc(&self) -> Arc<Emmyrc> { unimplemented!() }
    /// THE disk load
    #[verifier::external_body]
    pub fn reload_workspace_files(&mut self, files: Vec<(PathBuf, Option<String>)>, open_files: Vec<(Uri, String)>, st: &mut Shared) -> (r: Vec<Uri>)
        ensures
            final(st).g@ == (St { analysis: final(st).g@.analysis, ..old(st).g@ }),
            load_post(old(st).g@.analysis, final(st).g@.analysis, files@, open_files@),
    { unimplemented!() }
    /// Vfs::remove_file + index removal (a no-op on an unknown uri)
    #[verifier::external_body]
    pub fn remove_file_by_uri(&mut self, uri: &Uri, st: &mut Shared) -> (r: Option<FileId>)
        ensures final(st).g@ == (St { analysis: old(st).g@.analysis.remove(*uri), ..old(st).g@ }),
    { unimplemented!() }
    /// Vfs::set_file_content per entry, in order, then the index update
    #[verifier::external_body]
    pub fn update_files_by_uri(&mut self, files: Vec<(Uri, Option<String>)>, st: &mut Shared) -> (r: Vec<FileId>)
        ensures final(st).g@ == (St { analysis: apply_updates(old(st).g@.analysis, files@), ..old(st).g@ }),
    { unimplemented!() }
    /// `cleanup_nonexistent_files` (emmylua_code_analysis/src/lib.rs), read off its text at the uri level: every non-std local document whose file does
    /// not exist (Path::exists, now) is removed — whether or not it is open in the editor
    #[verifier::external_body]
    pub fn cleanup_nonexistent_files(&mut self, st: &mut Shared)
        ensures
            final(st).g@ == (St { analysis: final(st).g@.analysis, ..old(st).g@ }),
            forall|u: Uri| #![trigger final(st).g@.analysis.contains_key(u)] opt_at(final(st).g@.analysis, u)
                == (if managed(u) && !sp_exists(sp_path(u)->0, old(st).g@.epoch) { None::<Text> } else { opt_at(old(st).g@.analysis, u) }),
    { unimplemented!() }
    /// `reindex`: clears the index and rebuilds it from the Vfs texts (`get_all_file_ids`, `clear_index`, `update_index`): no text changes — it takes no
    /// ghost state, so it cannot change any
    #[verifier::external_body]
    pub fn reindex(&mut self) { }
    /// the call of the text-sync handlers. STORE FIRST: a handler must have written the store before it touches the analysis (otherwise a reload
    /// could take its last snapshot in between and leave the analysis on the disk text) — checked here as far as a sequential reading can: an open
    /// document's text in the store is the text handed to the analysis
    #[verifier::external_body]
    pub fn update_file_by_uri(&mut self, uri: &Uri, text: Option<String>, st: &mut Shared) -> (r: Option<FileId>)
        requires text matches Some(t) ==> (old(st).g@.store().contains_key(*uri) ==> old(st).g@.store()[*uri]@ == t@),
        ensures final(st).g@ == (St { analysis: match text { Some(t) => old(st).g@.analysis.insert(*uri, t@), None => old(st).g@.analysis.remove(*uri) }, ..old(st).g@ }),
    { unimplemented!() }
}

/// context::StatusBar (opaque): progress notifications to the client
#[verifier::external_body] pub struct StatusBar { _p: () }
#[derive(Clone, Copy)]
pub enum ProgressTask { LoadWorkspace, DiagnoseWorkspace, RefreshIndex }
impl StatusBar {
    /// async: a suspension point (while the analysis write lock is held: the model lets the rest of the server run all the same — more
    /// interleavings than the lock admits, never fewer)
    #[verifier::external_body]
    pub fn create_progress_task(&self, task: ProgressTask, st: &mut Shared) ensures env(old(st).g@, final(st).g@) { }
    #[verifier::external_body]
    pub fn update_progress_task(&self, task: ProgressTask, percentage: Option<u32>, message: Option<String>) { }
    #[verifier::external_body]
    pub fn finish_progress_task(&self, task: ProgressTask, message: Option<String>) { }
}
/// context::FileDiagnostic (opaque): diagnostics are scheduled separately (C30)
#[verifier::external_body] pub struct FileDiagnostic { _p: () }
impl FileDiagnostic {
    #[verifier::external_body]
    pub fn clear_push_file_diagnostics(&self, uri: Uri) { }
    #[verifier::external_body]
    pub fn add_workspace_diagnostic_task(&self, interval: u64, silent: bool, st: &mut Shared) ensures env(old(st).g@, final(st).g@) { }
    #[verifier::external_body]
    pub fn add_diagnostic_task(&self, file_id: FileId, interval: u64, st: &mut Shared) ensures env(old(st).g@, final(st).g@) { }
}
#[verifier::external_body] pub struct LspFeatures { _p: () }
impl LspFeatures {
    #[verifier::external_body]
    pub fn supports_pull_diagnostic(&self) -> bool { unimplemented!() }
    #[verifier::external_body]
    pub fn supports_workspace_diagnostic(&self) -> bool { unimplemented!() }
}
/// context::ServerContextSnapshot: a handle on the shared server state (accessors as in context/snapshot.rs)
#[verifier::external_body] pub struct ServerContextSnapshot { _p: () }
impl ServerContextSnapshot {
    #[verifier::external_body] pub fn analysis(&self) -> &RwLock<EmmyLuaAnalysis> { unimplemented!() }
    #[verifier::external_body] pub fn workspace_manager(&self) -> &RwLock<WorkspaceManager> { unimplemented!() }
    #[verifier::external_body] pub fn status_bar(&self) -> &StatusBar { unimplemented!() }
    #[verifier::external_body] pub fn file_diagnostic(&self) -> &FileDiagnostic { unimplemented!() }
    #[verifier::external_body] pub fn lsp_features(&self) -> &LspFeatures { unimplemented!() }
}
impl Clone for ServerContextSnapshot { #[verifier::external_body] fn clone(&self) -> ServerContextSnapshot { unimplemented!() } }
/// handlers::text_document::register_files_watch (async, opaque): re-registers the file watchers; takes the workspace-manager lock to store the
/// watcher, touches neither the store nor the analysis; the rest of the server runs at its suspension points
#[verifier::external_body]
pub fn register_files_watch(context: ServerContextSnapshot, st: &mut Shared) ensures env(old(st).g@, final(st).g@) { }
pub mod serde_json {
    /// serde_json::to_string_pretty (only logged)
    #[verifier::external_body]
    pub fn to_string_pretty(value: &super::Emmyrc) -> Result<String, ()> { unimplemented!() }
}
pub mod lsp_types { pub use super::Uri; }
/// lsp_types parameter types of didClose, transcribed as data (emmy_lsp_types 0.1.0, all fields pub)
pub struct TextDocumentIdentifier { pub uri: Uri }
pub struct DidCloseTextDocumentParams { pub text_document: TextDocumentIdentifier }
#[verifier::external_body] pub struct Range { _p: () }
pub struct TextDocumentItem { pub uri: Uri, pub language_id: String, pub version: i32, pub text: String }
pub struct DidOpenTextDocumentParams { pub text_document: TextDocumentItem }
pub struct VersionedTextDocumentIdentifier { pub uri: Uri, pub version: i32 }
pub struct TextDocumentContentChangeEvent { pub range: Option<Range>, pub range_length: Option<u32>, pub text: String }
pub struct DidChangeTextDocumentParams { pub text_document: VersionedTextDocumentIdentifier, pub content_changes: Vec<TextDocumentContentChangeEvent> }
impl WorkspaceManager {
    /// pushes the pending reindex further into the future (DebounceToken: C30); no effect on the store or the matcher (`&self`)
    #[verifier::external_body]
    pub fn extend_reindex_delay(&self) { }
}

// ---- helpers introduced by the unit-local rewrite rules --------------------------------------------------------------------------------------------
/// rule `c29-clone-files`: `<Vec<(Uri, String)> as Clone>::clone` — element-wise clone; lsp_types::Uri and String clone to equal values
#[verifier::external_body]
pub fn vx_clone_files(v: &Vec<(Uri, String)>) -> (r: Vec<(Uri, String)>) ensures r@ == v@ { unimplemented!() }
/// rule `c29-format-count`: `format!("Indexing {} files", n)` — message text only
#[verifier::external_body]
pub fn vx_format_count(n: usize) -> String { unimplemented!() }

// ---- the action list of one turn of the version loop ----------------------------------------------------------------------------------------------
pub open spec fn act_uri(a: OpenFileSyncAction) -> Uri { match a { OpenFileSyncAction::RestoreFromDisk(u, _) => u, OpenFileSyncAction::Remove(u) => u } }
pub open spec fn acted(acts: Seq<OpenFileSyncAction>, u: Uri) -> bool { exists|k: int| 0 <= k < acts.len() && act_uri(#[trigger] acts[k]) == u }
/// what an action asks for, at disk time `e`: the text read from the document's file, or nothing
pub open spec fn act_result(a: OpenFileSyncAction, e: nat) -> Option<Text> {
    match a { OpenFileSyncAction::RestoreFromDisk(_, p) => sp_read(p, e), OpenFileSyncAction::Remove(_) => None }
}
pub open spec fn acts_wf(acts: Seq<OpenFileSyncAction>, cur: Seq<(Uri, String)>) -> bool {
    &&& forall|k: int| 0 <= k < acts.len() ==> !listed(cur, act_uri(#[trigger] acts[k]))
    &&& forall|k: int| 0 <= k < acts.len() ==> ((#[trigger] acts[k]) matches OpenFileSyncAction::RestoreFromDisk(u, p) ==> sp_path(u) == Some(p))
    &&& forall|j: int, k: int| 0 <= j < acts.len() && 0 <= k < acts.len() && act_uri(#[trigger] acts[j]) == act_uri(#[trigger] acts[k]) ==> acts[j] == acts[k]
}
/// entries of the same document carry the same text
pub open spec fn cur_wf(cur: Seq<(Uri, String)>) -> bool {
    forall|i: int, j: int| 0 <= i < cur.len() && 0 <= j < cur.len() && (#[trigger] cur[i]).0 == (#[trigger] cur[j]).0 ==> cur[i].1@ == cur[j].1@
}
/// ONE application of the open-file overlay to the analysis (atomic: under the analysis write lock, at disk time `e`)
pub open spec fn sync_applied(a0: Map<Uri, Text>, a1: Map<Uri, Text>, cur: Seq<(Uri, String)>, acts: Seq<OpenFileSyncAction>, e: nat) -> bool {
    forall|u: Uri| #![trigger a1.contains_key(u)]
        if listed(cur, u) {
            a1.contains_key(u) && exists|i: int| 0 <= i < cur.len() && (#[trigger] cur[i]).0 == u && a1[u] == cur[i].1@
        } else if acted(acts, u) {
            exists|k: int| 0 <= k < acts.len() && act_uri(#[trigger] acts[k]) == u && opt_at(a1, u) == act_result(acts[k], e)
        } else {
            opt_at(a1, u) == opt_at(a0, u)
        }
}

// ---- the bookkeeping of `apply_open_file_sync` (removals first, then ONE batch of updates) ------------------------------------------------------------
/// an action before position `k` asked for removal (Remove, or RestoreFromDisk whose read failed) of `u`
pub open spec fn removed_before(acts: Seq<OpenFileSyncAction>, k: int, e: nat, u: Uri) -> bool {
    exists|j: int| 0 <= j < k && act_uri(#[trigger] acts[j]) == u && act_result(acts[j], e) is None
}
pub open spec fn removals_done(an0: Map<Uri, Text>, an: Map<Uri, Text>, acts: Seq<OpenFileSyncAction>, k: int, e: nat) -> bool {
    forall|u: Uri| #![trigger an.contains_key(u)] opt_at(an, u) == (if removed_before(acts, k, e, u) { None::<Text> } else { opt_at(an0, u) })
}
/// the batch: the open documents first, then one entry per restored document among the first `k` actions
pub open spec fn updates_ok(upd: Seq<(Uri, Option<String>)>, cur: Seq<(Uri, String)>, acts: Seq<OpenFileSyncAction>, k: int, e: nat) -> bool {
    &&& upd.len() >= cur.len()
    &&& forall|i: int| 0 <= i < cur.len() ==> (#[trigger] upd[i]).0 == cur[i].0 && opt_view(upd[i].1) == Some(cur[i].1@)
    &&& forall|i: int| cur.len() <= i < upd.len() ==> exists|j: int| 0 <= j < k && act_uri(#[trigger] acts[j]) == (#[trigger] upd[i]).0
            && act_result(acts[j], e) is Some && opt_view(upd[i].1) == act_result(acts[j], e)
    &&& forall|j: int| 0 <= j < k && act_result(#[trigger] acts[j], e) is Some ==> upd_listed(upd, act_uri(acts[j]))
}
#[verifier::spinoff_prover]
pub proof fn lemma_sync_step(an0: Map<Uri, Text>, an: Map<Uri, Text>, upd: Seq<(Uri, Option<String>)>, cur: Seq<(Uri, String)>, acts: Seq<OpenFileSyncAction>, k: int, e: nat)
    requires 0 <= k < acts.len(), removals_done(an0, an, acts, k, e), updates_ok(upd, cur, acts, k, e)
    ensures
        act_result(acts[k], e) is None ==> removals_done(an0, an.remove(act_uri(acts[k])), acts, k + 1, e) && updates_ok(upd, cur, acts, k + 1, e),
        forall|t: String| #![trigger upd.push((act_uri(acts[k]), Some(t)))] Some(t@) == act_result(acts[k], e)
            ==> removals_done(an0, an, acts, k + 1, e) && updates_ok(upd.push((act_uri(acts[k]), Some(t))), cur, acts, k + 1, e),
{
    let uk = act_uri(acts[k]);
    if act_result(acts[k], e) is None {
        let an2 = an.remove(uk);
        assert forall|u: Uri| #![trigger an2.contains_key(u)] opt_at(an2, u) == (if removed_before(acts, k + 1, e, u) { None::<Text> } else { opt_at(an0, u) }) by {
            assert(an.contains_key(u) || !an.contains_key(u));
            if removed_before(acts, k, e, u) {
                let j = choose|j: int| 0 <= j < k && act_uri(#[trigger] acts[j]) == u && act_result(acts[j], e) is None;
                assert(0 <= j < k + 1);
            }
            if u == uk { assert(act_uri(acts[k]) == u); }
            if removed_before(acts, k + 1, e, u) && u != uk {
                let j = choose|j: int| 0 <= j < k + 1 && act_uri(#[trigger] acts[j]) == u && act_result(acts[j], e) is None;
                assert(j < k);
            }
        }
        assert forall|i: int| cur.len() <= i < upd.len() implies exists|j: int| 0 <= j < k + 1 && act_uri(#[trigger] acts[j]) == (#[trigger] upd[i]).0
            && act_result(acts[j], e) is Some && opt_view(upd[i].1) == act_result(acts[j], e) by {
            let j = choose|j: int| 0 <= j < k && act_uri(#[trigger] acts[j]) == upd[i].0 && act_result(acts[j], e) is Some && opt_view(upd[i].1) == act_result(acts[j], e);
            assert(0 <= j < k + 1);
        }
    }
    assert forall|t: String| #![trigger upd.push((act_uri(acts[k]), Some(t)))] Some(t@) == act_result(acts[k], e)
        implies removals_done(an0, an, acts, k + 1, e) && updates_ok(upd.push((act_uri(acts[k]), Some(t))), cur, acts, k + 1, e) by {
        let upd2 = upd.push((uk, Some(t)));
        assert forall|u: Uri| #![trigger an.contains_key(u)] opt_at(an, u) == (if removed_before(acts, k + 1, e, u) { None::<Text> } else { opt_at(an0, u) }) by {
            if removed_before(acts, k, e, u) {
                let j = choose|j: int| 0 <= j < k && act_uri(#[trigger] acts[j]) == u && act_result(acts[j], e) is None;
                assert(0 <= j < k + 1);
            }
            if removed_before(acts, k + 1, e, u) {
                let j = choose|j: int| 0 <= j < k + 1 && act_uri(#[trigger] acts[j]) == u && act_result(acts[j], e) is None;
                assert(j < k);
            }
        }
        assert forall|i: int| 0 <= i < cur.len() implies (#[trigger] upd2[i]).0 == cur[i].0 && opt_view(upd2[i].1) == Some(cur[i].1@) by { assert(upd2[i] == upd[i]); }
        assert forall|i: int| cur.len() <= i < upd2.len() implies exists|j: int| 0 <= j < k + 1 && act_uri(#[trigger] acts[j]) == (#[trigger] upd2[i]).0
            && act_result(acts[j], e) is Some && opt_view(upd2[i].1) == act_result(acts[j], e) by {
            if i < upd.len() {
                assert(upd2[i] == upd[i]);
                let j = choose|j: int| 0 <= j < k && act_uri(#[trigger] acts[j]) == upd[i].0 && act_result(acts[j], e) is Some && opt_view(upd[i].1) == act_result(acts[j], e);
                assert(0 <= j < k + 1);
            } else {
                assert(act_uri(acts[k]) == upd2[i].0);
            }
        }
        assert forall|j: int| 0 <= j < k + 1 && act_result(#[trigger] acts[j], e) is Some implies upd_listed(upd2, act_uri(acts[j])) by {
            if j < k {
                let i = choose|i: int| 0 <= i < upd.len() && (#[trigger] upd[i]).0 == act_uri(acts[j]);
                assert(upd2[i].0 == act_uri(acts[j]));
            } else {
                assert(upd2[upd.len() as int].0 == uk);
            }
        }
    }
}
#[verifier::spinoff_prover]
pub proof fn lemma_sync_final(an0: Map<Uri, Text>, an: Map<Uri, Text>, upd: Seq<(Uri, Option<String>)>, cur: Seq<(Uri, String)>, acts: Seq<OpenFileSyncAction>, e: nat)
    requires removals_done(an0, an, acts, acts.len() as int, e), updates_ok(upd, cur, acts, acts.len() as int, e), cur_wf(cur), acts_wf(acts, cur)
    ensures sync_applied(an0, apply_updates(an, upd), cur, acts, e)
{
    let a1 = apply_updates(an, upd);
    let n = acts.len() as int;
    assert forall|u: Uri| #![trigger a1.contains_key(u)]
        if listed(cur, u) {
            a1.contains_key(u) && exists|i: int| 0 <= i < cur.len() && (#[trigger] cur[i]).0 == u && a1[u] == cur[i].1@
        } else if acted(acts, u) {
            exists|k: int| 0 <= k < acts.len() && act_uri(#[trigger] acts[k]) == u && opt_at(a1, u) == act_result(acts[k], e)
        } else {
            opt_at(a1, u) == opt_at(an0, u)
        } by {
        lemma_apply_updates(an, upd, u);
        if listed(cur, u) {
            let i0 = choose|i: int| 0 <= i < cur.len() && (#[trigger] cur[i]).0 == u;
            let t = cur[i0].1@;
            assert(upd[i0].0 == u);
            assert forall|i: int| 0 <= i < upd.len() && (#[trigger] upd[i]).0 == u implies opt_view(upd[i].1) == Some(t) by {
                if i < cur.len() {
                    assert(cur[i].0 == cur[i0].0);
                } else {
                    let j = choose|j: int| 0 <= j < n && act_uri(#[trigger] acts[j]) == upd[i].0 && act_result(acts[j], e) is Some && opt_view(upd[i].1) == act_result(acts[j], e);
                    assert(!listed(cur, act_uri(acts[j])));
                }
            }
            assert(opt_at(a1, u) == Some(t));
        } else if acted(acts, u) {
            let k0 = choose|k: int| 0 <= k < acts.len() && act_uri(#[trigger] acts[k]) == u;
            match act_result(acts[k0], e) {
                Some(t) => {
                    assert(upd_listed(upd, act_uri(acts[k0])));
                    assert forall|i: int| 0 <= i < upd.len() && (#[trigger] upd[i]).0 == u implies opt_view(upd[i].1) == Some(t) by {
                        if i < cur.len() {
                            assert(cur[i].0 == u);
                        } else {
                            let j = choose|j: int| 0 <= j < n && act_uri(#[trigger] acts[j]) == upd[i].0 && act_result(acts[j], e) is Some && opt_view(upd[i].1) == act_result(acts[j], e);
                            assert(acts[j] == acts[k0]);
                        }
                    }
                    assert(opt_at(a1, u) == Some(t));
                },
                None => {
                    if upd_listed(upd, u) {
                        let i = choose|i: int| 0 <= i < upd.len() && (#[trigger] upd[i]).0 == u;
                        if i < cur.len() {
                            assert(cur[i].0 == u);
                        } else {
                            let j = choose|j: int| 0 <= j < n && act_uri(#[trigger] acts[j]) == upd[i].0 && act_result(acts[j], e) is Some && opt_view(upd[i].1) == act_result(acts[j], e);
                            assert(acts[j] == acts[k0]);
                        }
                    }
                    assert(removed_before(acts, n, e, u));
                    assert(an.contains_key(u) || !an.contains_key(u));
                    assert(opt_at(a1, u) == None::<Text>);
                },
            }
        } else {
            if upd_listed(upd, u) {
                let i = choose|i: int| 0 <= i < upd.len() && (#[trigger] upd[i]).0 == u;
                if i < cur.len() {
                    assert(cur[i].0 == u);
                } else {
                    let j = choose|j: int| 0 <= j < n && act_uri(#[trigger] acts[j]) == upd[i].0 && act_result(acts[j], e) is Some && opt_view(upd[i].1) == act_result(acts[j], e);
                    assert(act_uri(acts[j]) == u);
                }
            }
            if removed_before(acts, n, e, u) {
                let j = choose|j: int| 0 <= j < n && act_uri(#[trigger] acts[j]) == u && act_result(acts[j], e) is None;
                assert(act_uri(acts[j]) == u);
            }
            assert(an.contains_key(u) || !an.contains_key(u));
        }
    }
}

// ---- one turn of the version loop ----------------------------------------------------------------------------------------------------------------------
pub proof fn lemma_inv_window(s: St, w: bool, v: u64, f: Seq<(Uri, String)>)
    requires inv(s, v, f)
    ensures inv(St { window: w, ..s }, v, f)
{
    let s2 = St { window: w, ..s };
    assert(s2.store() == s.store() && s2.settled() == s.settled() && s2.pclose() == s.pclose());
}
/// the loop ends: the version has not moved since the applied snapshot was taken
#[verifier::spinoff_prover]
pub proof fn lemma_done(s: St, v: u64, f: Seq<(Uri, String)>)
    requires inv(s, v, f), s.wm.ver() == v, !s.window
    ensures done(s)
{
    let em = Seq::<(Uri, String)>::empty();
    assert forall|u: Uri| #![trigger s.store().contains_key(u)] managed(u) && s.wm.ws(u) && !s.store().contains_key(u) && !listed(em, u) && s.pclose() != Some(u)
        implies disk_like(s.analysis, u) by {
        if listed(f, u) { let i = choose|i: int| 0 <= i < f.len() && (#[trigger] f[i]).0 == u; assert(s.store().contains_key(f[i].0)); }
    }
}
/// what the action builder decides for a document that left the store (at disk time `e`)
pub open spec fn decide(wm: WorkspaceManager, u: Uri, e: nat) -> OpenFileSyncAction {
    if wm.ws(u) && sp_path(u) is Some && sp_exists(sp_path(u)->0, e) { OpenFileSyncAction::RestoreFromDisk(u, sp_path(u)->0) } else { OpenFileSyncAction::Remove(u) }
}
/// the actions built from the first `n` entries of the applied snapshot `af` against the next snapshot `nf`
pub open spec fn acts_upto(acts: Seq<OpenFileSyncAction>, af: Seq<(Uri, String)>, n: int, nf: Seq<(Uri, String)>, wm: WorkspaceManager, e: nat) -> bool {
    &&& forall|k: int| 0 <= k < acts.len() ==> (#[trigger] acts[k]) == decide(wm, act_uri(acts[k]), e) && !listed(nf, act_uri(acts[k]))
    &&& forall|i: int| 0 <= i < n && !listed(nf, (#[trigger] af[i]).0) ==> acted(acts, af[i].0)
}
pub proof fn lemma_acts_push(prev: Seq<OpenFileSyncAction>, a: OpenFileSyncAction, af: Seq<(Uri, String)>, n: int, nf: Seq<(Uri, String)>, wm: WorkspaceManager, e: nat)
    requires 0 <= n < af.len(), acts_upto(prev, af, n, nf, wm, e), a == decide(wm, af[n].0, e), !listed(nf, af[n].0)
    ensures acts_upto(prev.push(a), af, n + 1, nf, wm, e)
{
    let acts = prev.push(a);
    assert(act_uri(a) == af[n].0);
    assert forall|i: int| 0 <= i < n + 1 && !listed(nf, (#[trigger] af[i]).0) implies acted(acts, af[i].0) by {
        if i < n {
            let k = choose|k: int| 0 <= k < prev.len() && act_uri(#[trigger] prev[k]) == af[i].0;
            assert(act_uri(acts[k]) == af[i].0);
        } else {
            assert(act_uri(acts[prev.len() as int]) == af[i].0);
        }
    }
}
pub proof fn lemma_acts_wf(acts: Seq<OpenFileSyncAction>, af: Seq<(Uri, String)>, nf: Seq<(Uri, String)>, wm: WorkspaceManager, e: nat)
    requires acts_upto(acts, af, af.len() as int, nf, wm, e), files_ok(wm, nf)
    ensures acts_wf(acts, nf), cur_wf(nf)
{
    assert forall|i: int, j: int| 0 <= i < nf.len() && 0 <= j < nf.len() && (#[trigger] nf[i]).0 == (#[trigger] nf[j]).0 implies nf[i].1@ == nf[j].1@ by {
        assert(wm.store()[nf[i].0]@ == nf[i].1@ && wm.store()[nf[j].0]@ == nf[j].1@);
    }
}
/// `apply_open_file_sync` has applied the next snapshot `(nv, nf)` and the actions for what left the applied one `(v, af)`
#[verifier::spinoff_prover]
pub proof fn lemma_after_apply(mid: St, s2: St, af: Seq<(Uri, String)>, nv: u64, nf: Seq<(Uri, String)>, acts: Seq<OpenFileSyncAction>, wm: WorkspaceManager, e: nat)
    requires
        closed_ok(mid, af), pre(mid, nv, nf), s2 == (St { analysis: s2.analysis, ..mid }),
        sync_applied(mid.analysis, s2.analysis, nf, acts, s2.epoch),
        acts_upto(acts, af, af.len() as int, nf, wm, e),
    ensures inv(s2, nv, nf)
{
    assert(s2.store() == mid.store() && s2.pclose() == mid.pclose());
    if s2.wm.ver() == nv {
        assert forall|u: Uri| #![trigger s2.store().contains_key(u)] s2.store().contains_key(u) && s2.wm.ws(u)
            implies s2.settled().contains_key(u) && s2.settled()[u] == s2.store()[u]@ by {
            assert(listed(nf, u));
            assert(s2.analysis.contains_key(u));
            let i = choose|i: int| 0 <= i < nf.len() && (#[trigger] nf[i]).0 == u && s2.analysis[u] == nf[i].1@;
            assert(s2.wm.store()[nf[i].0]@ == nf[i].1@);
        }
    }
    assert forall|u: Uri| #![trigger s2.store().contains_key(u)] managed(u) && s2.wm.ws(u) && !s2.store().contains_key(u) && !listed(nf, u) && s2.pclose() != Some(u)
        implies disk_like(s2.analysis, u) by {
        assert(s2.analysis.contains_key(u) || !s2.analysis.contains_key(u));
        if acted(acts, u) {
            let k = choose|k: int| 0 <= k < acts.len() && act_uri(#[trigger] acts[k]) == u && opt_at(s2.analysis, u) == act_result(acts[k], s2.epoch);
            assert(acts[k] == decide(wm, u, e));
            if s2.analysis.contains_key(u) {
                assert(sp_read(sp_path(u)->0, s2.epoch) == Some(s2.analysis[u]));
            }
        } else {
            if listed(af, u) { let i = choose|i: int| 0 <= i < af.len() && (#[trigger] af[i]).0 == u; assert(acted(acts, af[i].0)); }
            assert(mid.store().contains_key(u) || !mid.store().contains_key(u));
            assert(disk_like(mid.analysis, u));
        }
    }
}

// ---- the disk load ----------------------------------------------------------------------------------------------------------------------------------------
pub proof fn lemma_env_frame(a: St, b: St)
    requires env(a, b)
    ensures b.window == a.window, b.quiet == a.quiet, b.epoch >= a.epoch, b.wm.same_matcher(a.wm), b.wm.ver() >= a.wm.ver()
{ lemma_env(a, b); }
/// every text of the collected file list is a disk reading (at time `e`)
pub open spec fn files_from_disk(files: Seq<(PathBuf, Option<String>)>, e: nat) -> bool {
    forall|i: int| 0 <= i < files.len() ==> ((#[trigger] files[i]).1 matches Some(t) ==> sp_read(files[i].0, e) == Some(t@))
}
#[verifier::spinoff_prover]
pub proof fn lemma_load(s2: St, s3: St, v: u64, open: Seq<(Uri, String)>, files: Seq<(PathBuf, Option<String>)>, e: nat)
    requires
        pre(s2, v, open), s3 == (St { analysis: s3.analysis, ..s2 }),
        load_post(s2.analysis, s3.analysis, files, open), files_from_disk(files, e),
    ensures inv(s3, v, open)
{
    assert(s3.store() == s2.store() && s3.pclose() == s2.pclose());
    if s3.wm.ver() == v {
        assert forall|u: Uri| #![trigger s3.store().contains_key(u)] s3.store().contains_key(u) && s3.wm.ws(u)
            implies s3.settled().contains_key(u) && s3.settled()[u] == s3.store()[u]@ by {
            assert(listed(open, u));
            assert(s3.analysis.contains_key(u));
            let i = choose|i: int| 0 <= i < open.len() && (#[trigger] open[i]).0 == u && s3.analysis[u] == open[i].1@;
            assert(s3.wm.store()[open[i].0]@ == open[i].1@);
        }
    }
    assert forall|u: Uri| #![trigger s3.store().contains_key(u)] managed(u) && s3.wm.ws(u) && !s3.store().contains_key(u) && !listed(open, u) && s3.pclose() != Some(u)
        implies disk_like(s3.analysis, u) by {
        assert(s3.analysis.contains_key(u) || !s3.analysis.contains_key(u));
        if s3.analysis.contains_key(u) {
            let i = choose|i: int| 0 <= i < files.len() && (#[trigger] files[i]).0 == sp_path(u)->0 && opt_at(s3.analysis, u) == opt_view(files[i].1);
            assert(sp_read(sp_path(u)->0, e) == Some(s3.analysis[u]));
        }
    }
}

// ---- the reindex task ----------------------------------------------------------------------------------------------------------------------------------
/// `cleanup_nonexistent_files` only removes: closed documents stay disk-like (open ones may have lost their text: that is the finding / what the
/// re-application of the open documents repairs)
#[verifier::spinoff_prover]
pub proof fn lemma_cleanup(s1: St, s2: St, e: nat)
    requires
        base(s1), closed_ok(s1, Seq::<(Uri, String)>::empty()), s2 == (St { analysis: s2.analysis, ..s1 }),
        forall|u: Uri| #![trigger s2.analysis.contains_key(u)] opt_at(s2.analysis, u)
            == (if managed(u) && !sp_exists(sp_path(u)->0, e) { None::<Text> } else { opt_at(s1.analysis, u) }),
    ensures base(s2), closed_ok(s2, Seq::<(Uri, String)>::empty())
{
    let em = Seq::<(Uri, String)>::empty();
    assert(s2.store() == s1.store() && s2.pclose() == s1.pclose());
    assert forall|u: Uri| #![trigger s2.store().contains_key(u)] managed(u) && s2.wm.ws(u) && !s2.store().contains_key(u) && !listed(em, u) && s2.pclose() != Some(u)
        implies disk_like(s2.analysis, u) by {
        assert(s2.analysis.contains_key(u) || !s2.analysis.contains_key(u));
        assert(s1.store().contains_key(u) || !s1.store().contains_key(u));
        assert(disk_like(s1.analysis, u));
    }
}
pub proof fn lemma_closed_weaken(s: St, f: Seq<(Uri, String)>)
    requires closed_ok(s, Seq::<(Uri, String)>::empty())
    ensures closed_ok(s, f)
{ }
pub proof fn lemma_cur_wf(wm: WorkspaceManager, f: Seq<(Uri, String)>)
    requires files_ok(wm, f)
    ensures cur_wf(f), acts_wf(Seq::<OpenFileSyncAction>::empty(), f), acts_upto(Seq::<OpenFileSyncAction>::empty(), f, f.len() as int, f, wm, 0)
{
    assert forall|i: int, j: int| 0 <= i < f.len() && 0 <= j < f.len() && (#[trigger] f[i]).0 == (#[trigger] f[j]).0 implies f[i].1@ == f[j].1@ by {
        assert(wm.store()[f[i].0]@ == f[i].1@ && wm.store()[f[j].0]@ == f[j].1@);
    }
}

// ---- extracted from /repo: the open-file store ------------------------------------------------------------------------------------------------------
impl WorkspaceManager {
    //@@ WorkspaceManager::update_match_state

    //@@ WorkspaceManager::sync_open_file

    //@@ WorkspaceManager::close_open_file

    //@@ WorkspaceManager::is_open_file

    //@@ WorkspaceManager::workspace_open_files

    //@@ WorkspaceManager::workspace_open_files_snapshot

    //@@ WorkspaceManager::is_workspace_file
}

// ---- extracted from /repo: the reload -------------------------------------------------------------------------------------------------------------
//@@ apply_open_file_sync

//@@ sync_reloaded_open_files

//@@ init_analysis

//@@ apply_workspace_reload

// ---- extracted from /repo: the text-sync handlers (the GUARANTEE side of the micro steps of the interleaving model) --------------------------------
/// what a didOpen / didChange (u, t) that runs on its own does: `m_upd` (store first) followed by `m_flush_upd`, with a fresh `should_process`
pub open spec fn upd_effect(a: St, b: St, u: Uri, t: String) -> bool {
    &&& wm_sync(a.wm, b.wm, u, t)
    &&& b.analysis == (if a.analysis.contains_key(u) || a.wm.ws(u) { a.analysis.insert(u, t@) } else { a.analysis })
}
//@@ on_did_open_text_document

//@@ on_did_change_text_document

//@@ on_did_close_document

// ---- extracted from /repo: the body of the reindex task (a statement slice of `reindex_workspace`) ---------------------------------------------------
//@@ reindex_task_step
