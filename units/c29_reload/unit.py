"""unit c29_reload — C29 "after a reload, open files keep the editor's text".

  When a workspace reload or reindex runs while documents are being opened, edited or closed, once everything settles every open workspace
  file is analysed with its latest editor text. Every closed file reflects its on-disk content, or is absent if not on disk.

THE PROTOCOL (crates/emmylua_ls/src/context/workspace_manager.rs; read off the code, this is what the unit puts under contract)

  store      `WorkspaceManager::open_file_texts: HashMap<Uri, String>` + `open_file_state_version: u64`. Written ONLY by `sync_open_file` (didOpen /
             didChange, before the handler updates the analysis) and `close_open_file` (didClose); each write moves the version (wrapping_add 1).
  snapshot   `workspace_open_files_snapshot()` = (version, the (uri, text) pairs of the store that are workspace files under the CURRENT matcher).
  reload     `apply_workspace_reload` (one at a time: `reload_lock`; superseded requests are dropped by `reload_generation`):
             1. under the workspace-manager WRITE lock: swap the matcher (`update_match_state`), take snapshot S0;
             2. `clear_non_std_workspaces`; `init_analysis(.., S0.files)`: under the analysis write lock the loader reads the workspace from the disk
                and `reload_workspace_files(files, S0.files)` = remove stale documents, set every closed document to its disk text, every document
                of S0 to its EDITOR text;
             3. `sync_reloaded_open_files(S0)`, the version loop: under the workspace-manager READ lock take snapshot S'; if S'.version == the
                version of the snapshot applied last -> done. Otherwise (NO text comparison: any store write counts, also an edit back to the disk
                text or to the old text) build one action per document of the applied snapshot that S' no longer lists — RestoreFromDisk if it
                is a workspace file whose path exists, else Remove — and `apply_open_file_sync`: under the analysis write lock re-apply ALL
                texts of S' (not only the changed ones), read the restored documents from the disk / remove them; S' becomes the applied one; again.
             4. `register_files_watch`.
  documents opened / changed / closed WHILE the reload runs: their handler writes the store first (version moves), so the loop cannot end before a
  snapshot that contains that write has been applied; the handler's own `update_file_by_uri` may land before or after the disk load / a
  re-application — it writes the text the store holds, so either order ends in the same state.
  reindex    `reindex_workspace` -> `cleanup_nonexistent_files(); reindex()`: reindex rebuilds the index from the Vfs texts (no text changes), but
             cleanup removes every document whose file is gone — open or not (see `findings`).

THE INTERLEAVING MODEL (template.rs: `micro`, `env`; trusted) — Verus verifies sequential code, so the reload is ONE sequential run; at every
suspension point (`.await`: rule `c29-await-st` makes each one a call that takes the ghost state) the rest of the server performs any finite
number of `micro` steps: a text-sync handler writes the store (and becomes the one in-flight handler), the in-flight handler applies its text to /
finishes its look at the analysis, the disk changes. `rely` (what every such run preserves) is PROVED from `micro` (lemma_micro_rely / _trans /
_reach_rely); the exec proofs use only `rely`. The handlers themselves (on_did_open / on_did_change / on_did_close) are verified ON THEIR OWN against the
micro steps (`quiet`: store first, then the analysis) — the guarantee side of the model. Two clauses FAIL on the current tree (see `findings`):
C29.close.closed-document-reflects-disk (didClose keeps the editor text of a workspace file; C29.reload.closed-files-reflect-disk is proved RELATIVE to
it) and C29.reindex.open-files-keep-editor-text (the reindex task's cleanup drops an open document whose file is gone). The proof overlay of the
reindex slice follows the text of the tree (REINDEX_PROOF), so that the unit verifies the repaired tree as well."""
import re

from vc import rustlex as L
from vc.extract import Undecided
from vc.rules import rule

LS = 'crates/emmylua_ls/src/'
WM = LS + 'context/workspace_manager.rs'
INIT = LS + 'handlers/initialized/mod.rs'
TD = LS + 'handlers/text_document/text_document_handler.rs'
CA = 'crates/emmylua_code_analysis/src/'


def _T(text, toks):
    return lambda i: L.tok_text(text, toks[i]) if 0 <= i < len(toks) else ''


def _match_open(text, toks, idx):
    depth = 0
    for k in range(idx, -1, -1):
        if toks[k][0] != 'punct':
            continue
        ch = text[toks[k][1]]
        if ch in ')]}':
            depth += 1
        elif ch in '([{':
            depth -= 1
            if depth == 0:
                return k
    raise Undecided('unbalanced bracket')


# ---------------------------------------------------------------------------------------------
# rule c29-await-st: every suspension point is a point where the rest of the server runs
# ---------------------------------------------------------------------------------------------
@rule('c29-await-st')
def c29_await_st(text, **_):
    """`async fn` -> `fn`; `CALL(ARGS).await` -> `CALL(ARGS, st)`. The sequential reading of unit c36_channel's `async-seq-fn` / `async-seq-await`
    (an awaited future runs to completion at that point) EXCEPT that nothing is assumed about what else runs while the task is suspended: the
    callee of every awaited call takes the ghost state `st`, and its contract says what the rest of the server may have done in the meantime —
    for an opaque callee (a lock acquisition, a shimmed async fn) that is `env` (template.rs), for a real async fn of this unit it follows from
    its own suspension points. The rule refuses (Undecided) an `.await` whose operand is not a call, and any `async` block."""
    text, n0 = re.subn(r'\basync\s+fn\b', 'fn', text)
    n = 0
    while True:
        toks = L.code_tokens(text)
        T = _T(text, toks)
        hit = None
        for i in range(len(toks) - 1, 0, -1):
            if toks[i][0] == 'ident' and T(i) == 'await' and T(i - 1) == '.':
                if T(i - 2) != ')':
                    raise Undecided('c29-await-st: `.await` on something that is not a call')
                o = _match_open(text, toks, i - 2)
                empty = (o == i - 3)
                trailing = T(i - 3) == ','
                ins = 'st' if empty else (' st' if trailing else ', st')
                a = toks[i - 2][2]
                b = toks[i][2]
                # `)` .. `.await`  ->  insert before `)`, drop white space + `.await`
                hit = (toks[i - 2][1], b, ins + ')')
                break
        if not hit:
            break
        text = text[:hit[0]] + hit[2] + text[hit[1]:]
        n += 1
    toks = L.code_tokens(text)
    for t in toks:
        if t[0] == 'ident' and L.tok_text(text, t) in ('async', 'await'):
            raise Undecided('c29-await-st: `%s` remains' % L.tok_text(text, t))
    return text, n + n0


@rule('c29-no-await-under-wm-guard')
def c29_no_await_under_wm_guard(text, **_):
    """check only (changes nothing; runs BEFORE c29-await-st): between `let [mut] G = ...workspace_manager().read()/write().await;` and the end of the
    guard's life — `drop(G)` or the end of the enclosing block — there is no further `.await`. That is what lets the lock shims hand out the value
    behind the workspace-manager lock as a plain reference: nobody else runs while the guard is alive."""
    toks = L.code_tokens(text)
    T = _T(text, toks)
    n = 0
    for i in range(len(toks) - 8):
        if T(i) == 'workspace_manager' and T(i + 1) == '(' and T(i + 2) == ')' and T(i + 3) == '.' and T(i + 4) in ('read', 'write') \
                and T(i + 5) == '(' and T(i + 6) == ')' and T(i + 7) == '.' and T(i + 8) == 'await':
            if T(i + 9) != ';':
                raise Undecided('c29-no-await-under-wm-guard: the guard is not bound by a `let` statement')
            # the `let [mut] G =` in front
            k = i
            while k > 0 and T(k) != 'let':
                if T(k) in (';', '{', '}'):
                    raise Undecided('c29-no-await-under-wm-guard: the guard is not bound by a `let` statement')
                k -= 1
            g = T(k + 2) if T(k + 1) == 'mut' else T(k + 1)
            # enclosing block
            depth, o = 0, None
            for q in range(k, -1, -1):
                if T(q) == '}':
                    depth += 1
                elif T(q) == '{':
                    if depth == 0:
                        o = q
                        break
                    depth -= 1
            if o is None:
                raise Undecided('c29-no-await-under-wm-guard: no enclosing block')
            end = L.match_close(text, toks, o)
            for q in range(i + 10, end):
                if T(q) == 'drop' and T(q + 1) == '(' and T(q + 2) == g and T(q + 3) == ')':
                    end = q
                    break
            for q in range(i + 10, end):
                if T(q) == 'await' and T(q - 1) == '.':
                    raise Undecided('c29-no-await-under-wm-guard: `.await` while the workspace-manager guard `%s` is alive' % g)
            n += 1
    return text, 1


# ---------------------------------------------------------------------------------------------
# rule c29-filter-map-collect-while
# ---------------------------------------------------------------------------------------------
@rule('c29-filter-map-collect-while')
def c29_filter_map_collect_while(text, **_):
    """`RECV.iter().filter_map(|(uri, _)| { BODY }).collect::<Vec<_>>()`  ->
    `{ let mut vx_out = Vec::new(); let vx_s = &RECV; let mut vx_i: usize = 0; while vx_i < vx_s.len() { let (uri, _) = &vx_s[vx_i]; vx_i += 1; BODY' } vx_out }`
    where BODY' is BODY with `return None;` -> `continue;`, `return Some(X);` -> `vx_out.push(X); continue;` and the tail expression `Some(Y)` ->
    `vx_out.push(Y);`. std: slice::iter yields the elements in order; Iterator::filter_map calls the closure once per element, in order, and
    yields the payload of every `Some`; collect::<Vec<_>> pushes what is yielded, in order. A closure `return` ends the call for THIS element
    (= `continue` of the loop). (A `while` loop, not `for`: Verus' for-loops do not take `continue`.) The closure captures by reference only
    what the loop body may read as well; it is non-`move` and writes nothing."""
    toks = L.code_tokens(text)
    T = _T(text, toks)
    hit = None
    for i in range(len(toks) - 12):
        if T(i) == 'filter_map' and T(i + 1) == '(' and T(i + 2) == '|':
            if [T(i + k) for k in range(3, 10)] != ['(', 'uri', ',', '_', ')', '|', '{']:
                raise Undecided('c29-filter-map-collect-while: unexpected closure head')
            bo = i + 9
            bc = L.match_close(text, toks, bo)
            pc = L.match_close(text, toks, i + 1)
            if pc != bc + 1:
                raise Undecided('c29-filter-map-collect-while: closure is not the only argument')
            tail = ''.join(T(pc + 1 + k) for k in range(12))
            if tail != '.collect::<Vec<_>>()':
                raise Undecided('c29-filter-map-collect-while: not followed by .collect::<Vec<_>>()  (%s)' % tail)
            # receiver: `.iter()` in front, then a path of identifiers / field accesses
            if [T(i - k) for k in range(1, 5)] != ['.', ')', '(', 'iter'] or T(i - 5) != '.':
                raise Undecided('c29-filter-map-collect-while: receiver is not `RECV.iter()`')
            r = i - 6
            while T(r - 1) == '.' and toks[r - 2][0] == 'ident':
                r -= 2
            if toks[r][0] != 'ident':
                raise Undecided('c29-filter-map-collect-while: receiver path')
            recv = ''.join(T(k) for k in range(r, i - 5))
            # the body
            body_a, body_b = toks[bo][2], toks[bc][1]
            edits = []
            k = bo + 1
            while k < bc:
                if T(k) == 'return':
                    if T(k + 1) == 'None' and T(k + 2) == ';':
                        edits.append((toks[k][1], toks[k + 2][2], 'continue;'))
                        k += 3
                        continue
                    if T(k + 1) == 'Some' and T(k + 2) == '(':
                        c = L.match_close(text, toks, k + 2)
                        if T(c + 1) != ';':
                            raise Undecided('c29-filter-map-collect-while: `return Some(..)` without `;`')
                        edits.append((toks[k][1], toks[c + 1][2], 'vx_out.push(' + text[toks[k + 2][2]:toks[c][1]] + '); continue;'))
                        k = c + 2
                        continue
                    raise Undecided('c29-filter-map-collect-while: `return` of another shape')
                k += 1
            # tail expression `Some(Y)`
            if T(bc - 1) != ')':
                raise Undecided('c29-filter-map-collect-while: tail expression is not `Some(..)`')
            o = _match_open(text, toks, bc - 1)
            if T(o - 1) != 'Some' or T(o - 2) not in ('}', ';'):
                raise Undecided('c29-filter-map-collect-while: tail expression is not `Some(..)`')
            edits.append((toks[o - 1][1], toks[bc - 1][2], 'vx_out.push(' + text[toks[o][2]:toks[bc - 1][1]] + ');'))
            body = text[body_a:body_b]
            for a, b, new in sorted(edits, reverse=True):
                body = body[:a - body_a] + new + body[b - body_a:]
            new = ('{ let mut vx_out: Vec<OpenFileSyncAction> = Vec::new(); let vx_s = &%s; let mut vx_i: usize = 0;\n while vx_i < vx_s.len() { let (uri, _) = &vx_s[vx_i]; vx_i += 1;%s}\n vx_out }'
                   % (recv, body))
            hit = (toks[r][1], toks[pc + 12][2], new)
            break
    if not hit:
        return text, 0
    return text[:hit[0]] + hit[2] + text[hit[1]:], 1


@rule('c29-shared-state')
def c29_shared_state(text, calls=(), callees=(), **_):
    """state-passing form of the state shared behind the locks (same technique as c24-shared-state / c36's async-seq-chan): `st` is appended to the
    method calls `V.m(..)` for the listed (V, m) pairs — V the last identifier of the receiver path —, to the calls of the listed free fns `callees`,
    and to nothing else."""
    n = 0
    while True:
        toks = L.code_tokens(text)
        T = _T(text, toks)
        hit = None
        for i in range(2, len(toks) - 1):
            if toks[i][0] != 'ident' or T(i + 1) != '(':
                continue
            if T(i - 1) == '.':
                if (T(i - 2), T(i)) not in calls:
                    continue
            elif not (T(i) in callees and T(i - 1) not in ('fn', ':')):
                continue
            c = L.match_close(text, toks, i + 1)
            if T(c - 1) == 'st':
                continue
            if T(c - 1) == ',':
                hit = (toks[c - 1][2], toks[c][1], ' st')
            else:
                hit = (toks[c][1], toks[c][1], 'st' if c == i + 2 else ', st')
            break
        if not hit:
            break
        text = text[:hit[0]] + hit[2] + text[hit[1]:]
        n += 1
    return text, n


@rule('c29-ghost-param')
def c29_ghost_param(text, **_):
    """callee side: the fn takes the shared ghost state as a last parameter `st: &mut Shared` (specification only)."""
    from vc import extract as X
    sh = X.fn_shape(text)
    a, b = sh.params
    inner = text[a + 1:b - 1].rstrip()
    if inner.endswith(','):
        new = inner + ' st: &mut Shared'
    elif inner.strip():
        new = inner + ', st: &mut Shared'
    else:
        new = 'st: &mut Shared'
    return text[:a + 1] + new + text[b - 1:], 1


@rule('c29-letchain-nest')
def c29_letchain_nest(text, **_):
    """else-less `if C1 && C2 && .. && Cn { B }` in which some conjunct is `let P = E` -> `if C1 { if C2 { .. if Cn { B } .. } }` (Rust reference:
    a let-chain evaluates its conjuncts left to right, stops at the first that fails, and the bindings of a `let` conjunct scope over the later
    conjuncts and the body). The catalogue rule `letchain-nest` does the same for a chain that STARTS with `let`. Refused (Undecided): an `else`
    branch, a top-level `||`."""
    n = 0
    while True:
        toks = L.code_tokens(text)
        T = _T(text, toks)
        hit = None
        for i in range(len(toks)):
            if T(i) != 'if' or toks[i][0] != 'ident' or T(i + 1) == 'let':
                continue
            j = i + 1
            amps, has_let, bad = [], False, False
            while j < len(toks):
                tt = T(j)
                if tt in ('(', '['):
                    j = L.match_close(text, toks, j) + 1
                    continue
                if tt == '{':
                    break
                if tt == '&' and T(j + 1) == '&' and toks[j + 1][1] == toks[j][2]:
                    amps.append(j)
                    if T(j + 2) == 'let':
                        has_let = True
                    j += 2
                    continue
                if tt == '|' and T(j + 1) == '|':
                    bad = True
                j += 1
            if not has_let:
                continue
            if bad:
                raise Undecided('c29-letchain-nest: `||` at the top level of a let-chain')
            bo = j
            bc = L.match_close(text, toks, bo)
            if T(bc + 1) == 'else':
                raise Undecided('c29-letchain-nest: chain has an else branch')
            cuts = [toks[i][2]] + [x for a in amps for x in (toks[a][1], toks[a + 1][2])] + [toks[bo][1]]
            conds = [text[cuts[2 * k]:cuts[2 * k + 1]].strip() for k in range(len(amps) + 1)]
            new = ''.join('if %s { ' % c for c in conds[:-1]) + 'if ' + conds[-1] + ' ' + text[toks[bo][1]:toks[bc][2]] + ' }' * (len(conds) - 1)
            hit = (toks[i][1], toks[bc][2], new)
            break
        if not hit:
            break
        text = text[:hit[0]] + hit[2] + text[hit[1]:]
        n += 1
    return text, n


@rule('c29-into-iter-map-collect')
def c29_into_iter_map_collect(text, ty='', **_):
    """`V.into_iter().map(|PAT| E).collect[::<Vec<_>>]()` -> `{ let mut vx_out: TY = Vec::new(); for PAT in V { vx_out.push(E); } vx_out }`: Rust
    reference (`for` drives IntoIterator::into_iter(V).next()), std doc of Iterator::map (the closure is called once per element, in order) and of
    collect::<Vec<_>> (pushes what is yielded, in order). E is kept verbatim; TY (the collected type, given by the unit) is checked by rustc."""
    return re.subn(r'(\w+)\s*\.into_iter\(\)\s*\.map\(\|((?:\([^|]*\)|\w+))\|\s*(.+?)\)\s*\.collect(?:::<Vec<_>>)?\(\)',
                   r'{ let mut vx_out: %s = Vec::new(); for \2 in vx_it: \1 { vx_out.push(\3); } vx_out }' % ty, text, flags=re.S)


SPIN = '#[verifier::spinoff_prover]'
G0, G1 = 'old(st).g@', 'final(st).g@'

# ---------------------------------------------------------------------------------------------
# the open-file store
# ---------------------------------------------------------------------------------------------
def wm_fn(name, **kw):
    d = {'src': {'file': WM, 'kind': 'fn', 'impl': 'WorkspaceManager', 'name': name}}
    d.update(kw)
    return d


UPDATE_MATCH_STATE = wm_fn(
    'update_match_state',
    ensures='''
            // swaps the matcher; the store and its version counter are not touched
            final(self).store() == old(self).store() && final(self).ver() == old(self).ver() && final(self).workspace_folders == old(self).workspace_folders''')

SYNC_OPEN_FILE = wm_fn(
    'sync_open_file',
    requires='keys_ok()',
    ensures='''
            // the store holds the latest editor text of the document and the version counter has moved: a reload that took its snapshot before
            // this call sees a different version
            wm_sync(*old(self), *final(self), uri, text) /*@C29.store.sync-records-latest-text-and-moves-version*/''')

CLOSE_OPEN_FILE = wm_fn(
    'close_open_file',
    requires='keys_ok()',
    ensures='''
            wm_close(*old(self), *final(self), *uri) /*@C29.store.close-forgets-document-and-moves-version*/''')

IS_OPEN_FILE = wm_fn(
    'is_open_file', ret='r',
    requires='keys_ok()',
    ensures='r == self.store().contains_key(*uri) /*@C29.store.is-open-iff-in-store*/')

IS_WORKSPACE_FILE = wm_fn(
    'is_workspace_file', ret='r',
    ensures='r == self.ws(*uri)')

WORKSPACE_OPEN_FILES = wm_fn(
    'workspace_open_files', ret='r',
    rules=['c29-hashmap-filter-map-collect'],
    attrs=SPIN + '\n#[verifier::loop_isolation(false)]',
    requires='keys_ok()',
    ensures='''
            // exactly the open documents that are workspace files, each with the text the store holds
            files_ok(*self, r@) /*@C29.snapshot.lists-exactly-the-open-workspace-files*/''',
    loops={0: '''invariant
                vx_it.seq().len() == self.store().dom().len(),
                forall|j: int| 0 <= j < vx_it.seq().len() ==> self.store().contains_key(*(#[trigger] vx_it.seq()[j]).0) && self.store()[*vx_it.seq()[j].0] == *vx_it.seq()[j].1,
                forall|k: Uri| self.store().contains_key(k) ==> exists|j: int| 0 <= j < vx_it.seq().len() && *(#[trigger] vx_it.seq()[j]).0 == k,
                forall|i: int| 0 <= i < vx_out@.len() ==> self.store().contains_key((#[trigger] vx_out@[i]).0) && self.store()[vx_out@[i].0]@ == vx_out@[i].1@ && self.ws(vx_out@[i].0),
                forall|j: int| 0 <= j < vx_it.index() && self.ws(*(#[trigger] vx_it.seq()[j]).0) ==> listed(vx_out@, *vx_it.seq()[j].0),'''},
    proof=[
        (r'vx_out\.push\(\(uri\.clone\(\), text\.clone\(\)\)\);', 'before', '''
                let ghost vx_prev = vx_out@;'''),
        (r'vx_out\.push\(\(uri\.clone\(\), text\.clone\(\)\)\);', 'after', '''
                proof {
                    assert(vx_out@[vx_prev.len() as int].0 == *uri);
                    assert forall|j: int| 0 <= j < vx_it.index() && self.ws(*(#[trigger] vx_it.seq()[j]).0) implies listed(vx_out@, *vx_it.seq()[j].0) by {
                        let i = choose|i: int| 0 <= i < vx_prev.len() && (#[trigger] vx_prev[i]).0 == *vx_it.seq()[j].0;
                        assert(vx_out@[i].0 == *vx_it.seq()[j].0);
                    }
                }'''),
    ])

SNAPSHOT = wm_fn(
    'workspace_open_files_snapshot', ret='r',
    requires='keys_ok()',
    ensures='r.version == self.ver() && files_ok(*self, r.files@) /*@C29.snapshot.carries-the-store-version*/')

# ---------------------------------------------------------------------------------------------
# the reload
# ---------------------------------------------------------------------------------------------
ASYNC = ['c29-no-await-under-wm-guard', 'c29-await-st']

APPLY_OPEN_FILE_SYNC = {
    'src': {'file': WM, 'kind': 'fn', 'name': 'apply_open_file_sync'},
    'rules': ASYNC + [('c29-into-iter-map-collect', {'ty': 'Vec<(Uri, Option<String>)>'}),
              ('c29-shared-state', {'calls': (('analysis', 'remove_file_by_uri'), ('analysis', 'update_files_by_uri')), 'callees': ('read_file_with_encoding',)}),
              'c29-ghost-param'],
    'attrs': SPIN + '\n#[verifier::loop_isolation(false)]',
    'ret': 'r',
    'requires': 'cur_wf(current_open_files@), acts_wf(removed_actions@, current_open_files@)',
    'ensures': '''
            // ONE atomic application (under the analysis write lock, after whatever ran while the task waited for it): every listed open document
            // gets its text — ALL of them, not only the changed ones —; a document that left the store is set to what its file holds NOW, or removed
            exists|an0: Map<Uri, Text>| #![trigger sync_applied(an0, %(G1)s.analysis, current_open_files@, removed_actions@, %(G1)s.epoch)]
                env(%(G0)s, St { analysis: an0, ..%(G1)s })
                && sync_applied(an0, %(G1)s.analysis, current_open_files@, removed_actions@, %(G1)s.epoch) /*@C29.reload.closed-during-reload*/''' % {'G0': G0, 'G1': G1},
    'body_first': 'let ghost cur = current_open_files@; let ghost acts = removed_actions@; let ghost s0 = st.g@;',
    'iter_names': {1: 'vx_ia'},
    'loops': {
        0: '''invariant
                vx_it.seq() == cur, st.g@ == s1, vx_out@.len() == vx_it.index(),
                forall|i: int| 0 <= i < vx_it.index() ==> (#[trigger] vx_out@[i]).0 == cur[i].0 && opt_view(vx_out@[i].1) == Some(cur[i].1@),''',
        1: '''invariant
                vx_ia.seq() == acts, st.g@ == (St { analysis: st.g@.analysis, ..s1 }),
                removals_done(s1.analysis, st.g@.analysis, acts, vx_ia.index(), s1.epoch),
                updates_ok(updates@, cur, acts, vx_ia.index(), s1.epoch),''',
    },
    'proof': [
        (r'return Vec::new\(\);', 'before', '''
        proof {
            assert(reach(s0, s0, 0));
            assert(St { analysis: s0.analysis, ..s0 } == s0);
            assert(sync_applied(s0.analysis, s0.analysis, cur, acts, s0.epoch)) by {
                assert forall|u: Uri| !listed(cur, u) && !acted(acts, u) by { }
            }
        }'''),
        (r'let mut analysis = analysis\.write\(st\);', 'after', 'let ghost s1 = st.g@;'),
        (r'match action \{', 'before', '''
        proof { lemma_sync_step(s1.analysis, st.g@.analysis, updates@, cur, acts, vx_ia.index(), s1.epoch); }'''),
        (r'if !updates\.is_empty\(\) \{', 'before', '''
        proof {
            lemma_sync_final(s1.analysis, st.g@.analysis, updates@, cur, acts, s1.epoch);
            assert(apply_updates(st.g@.analysis, Seq::<(Uri, Option<String>)>::empty()) == st.g@.analysis);
            if updates@.len() == 0 { assert(updates@ =~= Seq::<(Uri, Option<String>)>::empty()); }
        }
        let ghost an_n = st.g@.analysis;'''),
        (r'removed_uris\s*\}\s*\Z', 'before', '''
        proof {
            assert(st.g@.analysis == apply_updates(an_n, updates@));
            assert(St { analysis: s1.analysis, ..st.g@ } == s1);
        }'''),
    ],
}

SYNC_RELOADED = {
    'src': {'file': WM, 'kind': 'fn', 'name': 'sync_reloaded_open_files'},
    'rules': ASYNC + ['c29-iter-map-collect-set', 'c29-filter-map-collect-while', 'c29-letchain-nest', 'c29-clone-files',
                      ('c29-shared-state', {'calls': (('path', 'exists'),)}), 'c29-ghost-param'],
    'attrs': SPIN + '\n#[verifier::loop_isolation(false)]\n#[verifier::exec_allows_no_decreases_clause]',
    'requires': 'keys_ok(), inv(%(G0)s, applied_snapshot.version, applied_snapshot.files@)' % {'G0': G0},
    'ensures': '''
            // the loop ends only when the store's version is the version of the snapshot that was applied last: every open workspace file has its
            // latest editor text, every closed one reflects the disk
            done(%(G1)s) /*@C29.reload.version-loop-ends-consistent*/''' % {'G1': G1},
    'loops': {
        0: '''invariant
                keys_ok(), inv(st.g@, applied_snapshot.version, applied_snapshot.files@),''',
        1: '''invariant
                st.g@ == s1, vx_it.seq().len() == next_snapshot.files@.len(),
                forall|i: int| 0 <= i < next_snapshot.files@.len() ==> *(#[trigger] vx_it.seq()[i]) == next_snapshot.files@[i],
                forall|i: int| 0 <= i < vx_it.index() ==> vx_set@.contains((#[trigger] next_snapshot.files@[i]).0),
                forall|x: Uri| vx_set@.contains(x) ==> listed(next_snapshot.files@, x),''',
        2: '''invariant
                st.g@ == s1, vx_s@ == applied_snapshot.files@, vx_i <= vx_s@.len(),
                acts_upto(vx_out@, applied_snapshot.files@, vx_i as int, next_snapshot.files@, s1.wm, s1.epoch),
            decreases vx_s@.len() - vx_i,''',
    },
    'proof': [
        (r'let snapshot_update = \{', 'before', 'let ghost sh = st.g@; let ghost av = applied_snapshot.version; let ghost af = applied_snapshot.files@;'),
        (r'let workspace_manager = context\.workspace_manager\(\)\.read\(st\);', 'after', '''
            let ghost s1 = st.g@;
            proof {
                lemma_env_inv(sh, St { window: sh.window, ..s1 }, av, af);
                lemma_inv_window(St { window: sh.window, ..s1 }, s1.window, av, af);
                assert(St { window: s1.window, ..(St { window: sh.window, ..s1 }) } == s1);
            }'''),
        (r'if next_snapshot\.version == applied_snapshot\.version[^{]*\{', 'after', '''
                proof { lemma_done(s1, av, af); }'''),
        (r'vx_i \+= 1;', 'after', 'let ghost vx_n = vx_i as int - 1; proof { assert(*uri == applied_snapshot.files@[vx_n].0); }'),
        (r'if next_open_uris\.contains\(uri\) \{', 'after', '''
                            proof { assert(listed(next_snapshot.files@, *uri)); }'''),
        (r'vx_out\.push\(OpenFileSyncAction::RestoreFromDisk\(uri\.clone\(\), path\)\);', 'before', '''
                            proof {
                                if listed(next_snapshot.files@, *uri) {
                                    let i = choose|i: int| 0 <= i < next_snapshot.files@.len() && (#[trigger] next_snapshot.files@[i]).0 == *uri;
                                    assert(next_open_uris@.contains(next_snapshot.files@[i].0));
                                }
                                lemma_acts_push(vx_out@, OpenFileSyncAction::RestoreFromDisk(*uri, path), applied_snapshot.files@, vx_n, next_snapshot.files@, s1.wm, s1.epoch);
                            }'''),
        (r'vx_out\.push\(OpenFileSyncAction::Remove\(uri\.clone\(\)\)\);', 'before', '''
                        proof {
                            if listed(next_snapshot.files@, *uri) {
                                let i = choose|i: int| 0 <= i < next_snapshot.files@.len() && (#[trigger] next_snapshot.files@[i]).0 == *uri;
                                assert(next_open_uris@.contains(next_snapshot.files@[i].0));
                            }
                            lemma_acts_push(vx_out@, OpenFileSyncAction::Remove(*uri), applied_snapshot.files@, vx_n, next_snapshot.files@, s1.wm, s1.epoch);
                        }'''),
        (r'Some\(\(next_snapshot, removed_actions\)\)\s*\}', 'before', '''
                proof {
                    lemma_acts_wf(removed_actions@, af, next_snapshot.files@, s1.wm, s1.epoch);
                    assert(pre(s1, next_snapshot.version, next_snapshot.files@));
                }'''),
        (r'let removed_uris = apply_open_file_sync\(', 'before', '''
        let ghost s1b = st.g@; let ghost nv = next_snapshot.version; let ghost nf = next_snapshot.files@; let ghost acts = removed_actions@;'''),
        (r'removed_actions,\s*st\);', 'after', '''
        proof {
            let an0 = choose|an0: Map<Uri, Text>| #![trigger sync_applied(an0, st.g@.analysis, nf, acts, st.g@.epoch)]
                env(s1b, St { analysis: an0, ..st.g@ }) && sync_applied(an0, st.g@.analysis, nf, acts, st.g@.epoch);
            let mid = St { analysis: an0, ..st.g@ };
            lemma_env_inv(s1b, mid, av, af);
            lemma_env_pre(s1b, mid, nv, nf);
            assert(st.g@ == (St { analysis: st.g@.analysis, ..mid }));
            lemma_after_apply(mid, st.g@, af, nv, nf, acts, s1b.wm, s1b.epoch);
        }'''),
    ],
}

INIT_STEP = '''
    proof {
        lemma_env_frame(sp, st.g@);
        assert forall|v: u64| #![trigger pre(s0, v, open)] pre(s0, v, open) implies pre(st.g@, v, open) by { lemma_env_pre(sp, st.g@, v, open); }
        sp = st.g@;
    }'''

INIT_ANALYSIS = {
    'src': {'file': INIT, 'kind': 'fn', 'name': 'init_analysis'},
    'rules': ASYNC + ['c29-log-drop', 'c29-arc-as-ref', 'c29-format-count', ('c29-into-iter-map-collect', {'ty': 'Vec<(PathBuf, Option<String>)>'}),
                      ('c29-shared-state', {'calls': (('mut_analysis', 'reload_workspace_files'),), 'callees': ('collect_workspace_files',)}),
                      'c29-ghost-param'],
    'attrs': SPIN + '\n#[verifier::loop_isolation(false)]',
    'ensures': '''
            // the disk load keeps the editor text of every document it is given (a snapshot of the store taken EARLIER: the store may have moved on)
            // and sets every other managed document to the text read from its file, or removes it
            forall|v: u64| #![trigger pre(%(G0)s, v, open_files@)] pre(%(G0)s, v, open_files@) ==> inv(%(G1)s, v, open_files@) /*@C29.load.open-files-override-disk*/,
            %(G1)s.window == %(G0)s.window''' % {'G0': G0, 'G1': G1},
    'body_first': 'let ghost s0 = st.g@; let ghost open = open_files@; let ghost mut sp = st.g@;',
    'loops': {
        1: '''invariant
                st.g@ == sp, vx_it.seq() == infos, vx_out@.len() == vx_it.index(),
                forall|i: int| 0 <= i < vx_it.index() ==> (#[trigger] vx_out@[i]) == infos[i].sp_tuple(),''',
    },
    'proof': [
        # the two suspension points in front of the load, in whatever order the text has them
        (r'let mut mut_analysis = analysis\.write\(st\);', 'after', INIT_STEP),
        (r'\.create_progress_task\(ProgressTask::LoadWorkspace, st\);', 'after', INIT_STEP),
        (r'let files = collect_workspace_files\([^;]*;', 'after', 'let ghost infos = files@;'),
        (r'let removed_uris = mut_analysis\.reload_workspace_files\(', 'before', 'let ghost fs = files@; proof { assert(files_from_disk(fs, sp.epoch)); }'),
        (r'let removed_uris = mut_analysis\.reload_workspace_files\([^;]*;', 'after', 'let ghost s3 = st.g@;'),
        (r'\}\s*\Z', 'before', '''
    proof {
        if st.g@ != s3 { lemma_env_frame(s3, st.g@); }
        assert forall|v: u64| #![trigger pre(s0, v, open)] pre(s0, v, open) implies inv(st.g@, v, open) by {
            lemma_load(sp, s3, v, open, fs, sp.epoch);
            if st.g@ != s3 { lemma_env_inv(s3, st.g@, v, open); }
        }
    }
'''),
    ],
}

APPLY_WORKSPACE_RELOAD = {
    'src': {'file': WM, 'kind': 'fn', 'name': 'apply_workspace_reload'},
    'rules': ASYNC + ['c29-arc-as-ref', 'c29-clone-files', 'c29-ghost-param'],
    'attrs': SPIN,
    'requires': 'keys_ok(), base(%(G0)s)' % {'G0': G0},
    'ensures': '''
            // for EVERY uri in the store at that moment that is a workspace file: analysis[uri] == store[uri] (once the in-flight handler, whose text
            // is the store's, has finished)
            open_ok(%(G1)s) /*@C29.reload.open-files-keep-editor-text*/,
            // every managed workspace file NOT in the store: absent, or a text read from its file (by the load, by the restore of the version loop,
            // or by the didClose handler that closed it — whichever came last)
            closed_ok(%(G1)s, Seq::<(Uri, String)>::empty()) /*@C29.reload.closed-files-reflect-disk*/,
            base(%(G1)s)''' % {'G1': G1},
    'body_first': 'let ghost s0 = st.g@;',
    'proof': [
        (r'let open_files = \{', 'before', 'let ghost mut wmv = st.g@.wm;'),
        (r'let mut workspace_manager = context\.workspace_manager\(\)\.write\(st\);', 'after', 'proof { wmv = *workspace_manager; }'),
        (r'workspace_manager\.workspace_open_files_snapshot\(\)\s*\};', 'after', '''
    let ghost s1 = st.g@; let ghost v = open_files.version; let ghost f = open_files.files@;
    proof {
        lemma_env_base(s0, St { wm: wmv, window: s0.window, ..s1 });
        assert(s1.store() == wmv.store());
        assert(pre(s1, v, f));
    }'''),
        (r'let mut analysis = context\.analysis\(\)\.write\(st\);', 'after', 'proof { lemma_env_pre(s1, st.g@, v, f); }'),
        (r'init_analysis\(', 'before', 'let ghost s2 = st.g@; proof { assert(pre(s2, v, f)); }'),
        (r'sync_reloaded_open_files\(context\.clone\(\), open_files, st\);', 'before', 'proof { assert(inv(st.g@, v, f)); }'),
        (r'register_files_watch\(context, st\);', 'before', 'let ghost s4 = st.g@;'),
        (r'register_files_watch\(context, st\);', 'after', 'proof { lemma_env_done(s4, st.g@); }'),
    ],
}

def _reindex_text():
    """the text of the reindex slice in the tree under verification (the proof overlay follows the text: see REINDEX_PROOF)"""
    from vc import extract as X
    from vc.assemble import REPO
    try:
        return X.find_item(REPO, {'file': WM, 'kind': 'fn', 'impl': 'WorkspaceManager', 'name': 'reindex_workspace'}).raw
    except Undecided:
        return ''


# ghost steps that exist in every version of the slice
REINDEX_PROOF = [
    (r'let mut analysis = analysis\.write\(st\);', 'after', 'let ghost s1 = st.g@; proof { lemma_env_done(s0, s1); }'),
    (r'drop\(analysis\);', 'after', 'let ghost s2 = st.g@; proof { lemma_cleanup(s1, s2, s1.epoch); }'),
]
if 'sync_reloaded_open_files(context, open_files)' in _reindex_text():
    # the tree re-applies the open documents after the cleanup (proposed_fix_reindex_keeps_open_files.diff): the ghost steps of that part
    REINDEX_PROOF += [
        (r'let workspace_manager = context\.workspace_manager\(\)\.read\(st\);', 'after', '''
                    let ghost s3 = st.g@;
                    proof {
                        let m3 = St { window: s2.window, ..s3 };
                        lemma_env(s2, m3); lemma_rely_closed(s2, m3, Seq::<(Uri, String)>::empty());
                        assert(s3.store() == m3.store() && s3.pclose() == m3.pclose());
                        assert(closed_ok(s3, Seq::<(Uri, String)>::empty()));
                    }'''),
        (r'apply_open_file_sync\(', 'before', '''
                let ghost s3b = st.g@; let ghost nv = open_files.version; let ghost nf = open_files.files@; let ghost acts = Seq::<OpenFileSyncAction>::empty();
                proof { lemma_cur_wf(s3b.wm, nf); assert(pre(s3b, nv, nf)); }'''),
        (r'sync_reloaded_open_files\(', 'before', '''
                proof {
                    let an0 = choose|an0: Map<Uri, Text>| #![trigger sync_applied(an0, st.g@.analysis, nf, acts, st.g@.epoch)]
                        env(s3b, St { analysis: an0, ..st.g@ }) && sync_applied(an0, st.g@.analysis, nf, acts, st.g@.epoch);
                    let mid = St { analysis: an0, ..st.g@ };
                    lemma_env(s3b, mid); lemma_rely_closed(s3b, mid, Seq::<(Uri, String)>::empty()); lemma_closed_weaken(mid, nf);
                    lemma_rely_pre(s3b, mid, nv, nf);
                    assert(st.g@ == (St { analysis: st.g@.analysis, ..mid }));
                    lemma_after_apply(mid, st.g@, nf, nv, nf, acts, s3b.wm, 0);
                }'''),
    ]

HANDLER_RULES = ASYNC + [('letchain-nest', {'optional': True}), ('c29-drop-wm-guard', {'optional': True}),
                         ('c29-shared-state', {'calls': (('file_path', 'exists'), ('analysis', 'get_file_id'), ('analysis', 'update_file_by_uri'),
                                                         ('mut_analysis', 'get_file_id'),
                                                         ('mut_analysis', 'remove_file_by_uri'), ('mut_analysis', 'update_file_by_uri')),
                                               'callees': ('read_file_with_encoding',)}),
                         ('write-guard-deref', {'optional': True}), 'c29-ghost-param']

OPEN = {
    'src': {'file': TD, 'kind': 'fn', 'name': 'on_did_open_text_document'},
    'rules': HANDLER_RULES,
    'attrs': SPIN,
    'ret': 'r',
    'requires': 'keys_ok(), %(G0)s.quiet' % {'G0': G0},
    'ensures': '''
            // = micro steps `m_upd` then `m_flush_upd`: the store records the text and its version moves — BEFORE the analysis is touched (the
            // precondition of the update_file_by_uri shim) —, then a processed document gets exactly that text
            wm_sync(%(G0)s.wm, %(G1)s.wm, params.text_document.uri, params.text_document.text) /*@C29.open.store-records-text-first*/,
            upd_effect(%(G0)s, %(G1)s, params.text_document.uri, params.text_document.text) /*@C29.open.analysis-gets-the-stored-text*/''' % {'G0': G0, 'G1': G1},
}

CHANGE = {
    'src': {'file': TD, 'kind': 'fn', 'name': 'on_did_change_text_document'},
    'rules': HANDLER_RULES,
    'attrs': SPIN,
    'ret': 'r',
    'requires': 'keys_ok(), %(G0)s.quiet' % {'G0': G0},
    'ensures': '''
            params.content_changes@.len() > 0 ==> wm_sync(%(G0)s.wm, %(G1)s.wm, params.text_document.uri, params.content_changes@[0].text) /*@C29.change.store-records-text-first*/,
            params.content_changes@.len() > 0 ==> upd_effect(%(G0)s, %(G1)s, params.text_document.uri, params.content_changes@[0].text) /*@C29.change.analysis-gets-the-stored-text*/,
            // a notification without content changes is ignored as a whole (unit c27_order): no store write either
            params.content_changes@.len() == 0 ==> %(G1)s.wm == %(G0)s.wm && %(G1)s.analysis == %(G0)s.analysis''' % {'G0': G0, 'G1': G1},
}

CLOSE = {
    'src': {'file': TD, 'kind': 'fn', 'name': 'on_did_close_document'},
    'rules': HANDLER_RULES,
    'attrs': SPIN,
    'ret': 'r',
    # the handler on its own: nothing else runs at its suspension points (`quiet`); how it interleaves with a reload is the business of `micro`
    'requires': 'keys_ok(), %(G0)s.quiet' % {'G0': G0},
    'ensures': '''
            // = micro step `m_close`: the store forgets the document and its version moves, so a running reload notices
            wm_close(%(G0)s.wm, %(G1)s.wm, params.text_document.uri) /*@C29.close.store-forgets-document*/,
            // = micro step `m_flush_close`, what the reload proofs RELY on: no other document is touched, and a managed workspace document that is
            // closed is absent from the analysis or shows a text read from its file — not the editor text the client has just discarded
            close_effect(%(G1)s.wm, %(G0)s.analysis, %(G1)s.analysis, params.text_document.uri) /*@C29.close.closed-document-reflects-disk*/''' % {'G0': G0, 'G1': G1},
}

REINDEX = {
    # the part of the spawned task between the debounce wait and the diagnostics refresh: what the reindex does to the analysis
    'src': {'kind': 'slice', 'name': 'reindex_task_step', 'in': {'file': WM, 'kind': 'fn', 'impl': 'WorkspaceManager', 'name': 'reindex_workspace'},
            'from': r'// Perform reindex with minimal lock holding time', 'to': r'drop\(analysis\);[^\n]*\n(?:(?! {12}\})[^\n]*\n)*? {12}\}',
            'head': 'pub async fn reindex_task_step(analysis: Arc<RwLock<EmmyLuaAnalysis>>, context: ServerContextSnapshot)'},
    'rules': ASYNC + [('c29-clone-files', {'optional': True}),
                      ('c29-shared-state', {'calls': (('analysis', 'cleanup_nonexistent_files'),)}), 'c29-ghost-param'],
    'attrs': SPIN,
    'requires': 'keys_ok(), done(%(G0)s)' % {'G0': G0},
    'ensures': '''
            // a reindex that runs while documents are open: afterwards every open workspace file is (still) analysed with its editor text ...
            open_ok(%(G1)s) /*@C29.reindex.open-files-keep-editor-text*/,
            // ... and every closed one reflects the disk (cleanup only removes documents whose file is gone)
            closed_ok(%(G1)s, Seq::<(Uri, String)>::empty()) /*@C29.reindex.closed-files-reflect-disk*/,
            base(%(G1)s), !%(G1)s.window''' % {'G1': G1},
    'body_first': 'let ghost s0 = st.g@;',
    'proof': REINDEX_PROOF,
}

UNIT = {
    'items': {
        'Emmyrc': {'src': {'file': CA + 'config/mod.rs', 'kind': 'struct', 'name': 'Emmyrc'}, 'rules': [('struct-fields', {'keep': ['diagnostics', 'workspace']})]},
        'EmmyrcDiagnostic': {'src': {'file': CA + 'config/configs/diagnostics.rs', 'kind': 'struct', 'name': 'EmmyrcDiagnostic'},
                             'rules': [('struct-fields', {'keep': ['diagnostic_interval']})]},
        'EmmyrcWorkspace': {'src': {'file': CA + 'config/configs/workspace.rs', 'kind': 'struct', 'name': 'EmmyrcWorkspace'},
                            'rules': [('struct-fields', {'keep': ['encoding', 'enable_reindex']})]},
        'WorkspaceFolder': {'src': {'file': CA + 'vfs/collect_workspace_files.rs', 'kind': 'struct', 'name': 'WorkspaceFolder'}},
        'WorkspaceManager': {'src': {'file': WM, 'kind': 'struct', 'name': 'WorkspaceManager'},
                             'rules': [('struct-fields', {'keep': ['workspace_folders', 'open_file_texts', 'open_file_state_version', 'match_file_pattern']})]},
        'OpenFilesSnapshot': {'src': {'file': WM, 'kind': 'struct', 'name': 'OpenFilesSnapshot'}, 'rules': [('struct-fields', {'keep': ['version', 'files']}), 'c29-struct-pub']},
        'OpenFileSyncAction': {'src': {'file': WM, 'kind': 'enum', 'name': 'OpenFileSyncAction'}, 'rules': ['c29-enum-pub']},
        'WorkspaceManager::update_match_state': UPDATE_MATCH_STATE,
        'WorkspaceManager::sync_open_file': SYNC_OPEN_FILE,
        'WorkspaceManager::close_open_file': CLOSE_OPEN_FILE,
        'WorkspaceManager::is_open_file': IS_OPEN_FILE,
        'WorkspaceManager::workspace_open_files': WORKSPACE_OPEN_FILES,
        'WorkspaceManager::workspace_open_files_snapshot': SNAPSHOT,
        'WorkspaceManager::is_workspace_file': IS_WORKSPACE_FILE,
        'apply_open_file_sync': APPLY_OPEN_FILE_SYNC,
        'sync_reloaded_open_files': SYNC_RELOADED,
        'init_analysis': INIT_ANALYSIS,
        'apply_workspace_reload': APPLY_WORKSPACE_RELOAD,
        'on_did_open_text_document': OPEN,
        'on_did_change_text_document': CHANGE,
        'on_did_close_document': CLOSE,
        'reindex_task_step': REINDEX,
    },
    'extra_rules': [
        ('write-guard-deref', r'\bmut_analysis(\s*)\.(compilation\b|get_file_id\()', r'mut_analysis.vx_deref()\1.\2',
         'G.compilation / G.get_file_id(..) on the RwLockWriteGuard G of the analysis -> G.vx_deref().compilation / G.vx_deref().get_file_id(..): the '
         'auto-deref of the method / field access made explicit (std: Deref for RwLockWriteGuard<T> returns the &T behind the lock); vx_deref is an '
         'opaque shim returning &EmmyLuaAnalysis, whose read-side shims (get_file_id, compilation) are the ones the read guard uses (same rule as unit c27_order)'),
        ('c29-enum-pub', r'\Aenum ', 'pub enum ', 'visibility has no run-time meaning'),
        ('c29-struct-pub', r'\Astruct ', 'pub struct ', 'visibility has no run-time meaning'),
        ('c29-hashmap-filter-map-collect',
         r'self\s*\.open_file_texts\s*\.iter\(\)\s*\.filter\(\|\(uri, _\)\|\s*(.+?)\)\s*\.map\(\|\(uri, text\)\|\s*(\(.+?\))\)\s*\.collect\(\)',
         r'{ let mut vx_out: Vec<(Uri, String)> = Vec::new(); for (uri, text) in vx_it: self.open_file_texts.iter() { if \1 { vx_out.push(\2); } } vx_out }',
         'M.iter().filter(|(uri, _)| P).map(|(uri, text)| E).collect() on a HashMap M -> { let mut vx_out = Vec::new(); for (uri, text) in M.iter() '
         '{ if P { vx_out.push(E); } } vx_out }: std — HashMap::iter visits every key-value pair once, in arbitrary order; Iterator::filter calls the '
         'predicate once per pair with a reference to it and keeps those for which it is true; Iterator::map calls the closure once per kept pair; '
         'collect into a Vec pushes what is yielded, in order. The adapters are lazy: per pair the calls are predicate, map, push — the order of the '
         'loop body. P and E are kept verbatim (the extra reference level of `uri` in the filter closure is auto-dereferenced at the method call)', re.S),
        ('c29-iter-map-collect-set',
         r'(\w+(?:\s*\.\s*\w+)*)\s*\.iter\(\)\s*\.map\(\|\(uri, _\)\| uri\.clone\(\)\)\s*\.collect::<HashSet<_>>\(\)',
         r'{ let mut vx_set: HashSet<Uri> = HashSet::new(); for (uri, _) in vx_it: \1.iter() { vx_set.insert(uri.clone()); } vx_set }',
         'V.iter().map(|(uri, _)| uri.clone()).collect::<HashSet<_>>() -> { let mut vx_set = HashSet::new(); for (uri, _) in V.iter() '
         '{ vx_set.insert(uri.clone()); } vx_set }: std — FromIterator for HashSet inserts every yielded element', re.S),
        ('c29-drop-wm-guard', r'\bdrop\(workspace\);', 'vx_drop_wm_guard(workspace);',
         'drop(G) of the workspace-manager write guard G -> vx_drop_wm_guard(G), ensures the value behind the lock is unchanged by the drop (std::mem::drop '
         'runs the guard\'s destructor, which releases the lock)'),
        ('c29-clone-files', r'\b(\w+)\.files\.clone\(\)', r'vx_clone_files(&\1.files)',
         'S.files.clone() (Vec<(Uri, String)>) -> vx_clone_files(&S.files), ensures r@ == S.files@: std — Vec::clone clones every element in order; '
         'lsp_types::Uri and String clone to equal values'),
        ('c29-arc-as-ref', r'\bemmyrc\.as_ref\(\)', '&*emmyrc', 'A.as_ref() on an Arc<T> -> &*A (std: AsRef<T> for Arc<T> returns the reference Deref gives)'),
        ('c29-log-drop', r'\n[ \t]*log::info!\((?:[^()"]|"(?:[^"\\]|\\.)*"|\((?:[^()"]|"(?:[^"\\]|\\.)*")*\))*\);', '',
         '`log::info!(..);` dropped: it formats its arguments and hands the line to the logger; no part of any claimed clause'),
        ('c29-format-count', r'format!\("Indexing \{\} files", file_count\)', 'vx_format_count(file_count)',
         'format!("Indexing {} files", n) used only as the text of a progress message -> vx_format_count(n) (opaque String)'),
    ],
    'allow': [r'external_body', r'uninterp'],
    'min_obligations': 44,
    'trusted': [
        'THE INTERLEAVING MODEL (template.rs `micro` / `reach` / `env`). The reload is ONE sequential run; at every suspension point (`.await`; rule '
        'c29-await-st turns each into a call whose callee takes the ghost state: a lock acquisition, a shimmed async fn, or a real async fn of this unit) the '
        'rest of the server performs any finite number of micro steps: (m_upd) didOpen / didChange (u, t) writes the store = `sync_open_file` (version + 1) '
        'and becomes THE in-flight handler — its `update_file_by_uri(u, t)` is pending iff `should_process` (document known to the analysis or a '
        'workspace file; arbitrary while `window`); (m_close) didClose (u) writes the store = `close_open_file`, in flight; (m_flush_upd / m_flush_close) '
        'the in-flight handler finishes: analysis[u] := t / `close_effect`; (m_idle) nothing; the disk (`epoch`) may change at every step. `rely` — what '
        'the exec proofs use — is PROVED from `micro` (lemma_micro_rely, lemma_rely_trans, lemma_reach_rely, lemma_env), so only `micro` itself is trusted',
        'ADMITTED by the model: any number of open / change / close notifications, on any documents, with any texts (an edit back to the disk text or to the '
        'old text; open + close between two snapshots; close + reopen), between ANY two steps of the reload — before the first snapshot, between snapshot '
        'and disk load, during the load (more than the analysis write lock allows), between load and version loop, between a snapshot of the loop and its '
        'application, after the loop; ONE handler in flight whose analysis update lands before or after the load or any re-application; ONE handler whose '
        '`should_process` was evaluated against the previous matcher; a disk that changes at every step (lemma_admits_* name two such runs)',
        'NOT admitted: two text-sync handlers in flight at once (the main loop awaits them inline: unit c27_order, C27.dispatch.*); any OTHER writer of '
        'the analysis or the store while the reload runs — didChangeWatchedFiles, didRenameFiles, a second reload (`reload_lock` serialises them, '
        '`reload_generation` drops superseded ones: not under contract), the reindex task (put under contract on its own, from a settled state, not '
        'interleaved with a reload); a wrap of the u64 version counter (micro requires ver < u64::MAX: fewer than 2^64 store writes in a server lifetime); '
        'real parallelism inside a lock scope (every access to the store / the analysis happens under its lock and acquiring a lock is a suspension '
        'point, so lock scopes are atomic: tokio RwLock)',
        '`window` (the stale-decision handler): a handler that evaluated `is_workspace_file` before the reload swapped the matcher requests the '
        'workspace-manager WRITE lock in the same poll in which it released the read lock; tokio\'s RwLock is FIFO, so that write is granted before the '
        'reload\'s NEXT acquisition of the lock (the first read of the version loop): the lock shims set `window` at `write()` and clear it at `read()`. '
        'This is the only fairness fact used (C28 is not modelled)',
        'the guarantee side of the handlers is CHECKED, not trusted: on_did_open / on_did_change / on_did_close are verified on their own (`quiet`: nothing '
        'else runs at their suspension points) against `upd_effect` / `wm_close` + `close_effect`, and the update_file_by_uri shim demands STORE FIRST. What '
        'stays trusted: that a handler\'s run splits into the atomic pieces of `micro` exactly at its lock acquisitions',
        'lock shims: `RwLock<WorkspaceManager>::write / read` hand out the value behind the lock as a reference (`*final(r)` is what later readers see); '
        'sound because no `.await` occurs while such a guard is alive (check-only rule c29-no-await-under-wm-guard, run on every fn that takes the lock); '
        '`RwLock<EmmyLuaAnalysis>::write` gives an opaque guard through which the shimmed `&mut self` methods are called',
        'ghost state: `analysis: Map<Uri, Text>` = the Vfs text per uri ("analysed with text t" == the Vfs holds t; the index is rebuilt from the Vfs: units '
        'c09 / c10 / c22_vfs). Written only by the shims of update_file_by_uri / update_files_by_uri (entries applied in order, `None` text = no text) / '
        'remove_file_by_uri / reload_workspace_files / cleanup_nonexistent_files; `get_file_id(u).is_some()` == the analysis has a text for u (a document '
        'whose content was set to None keeps its id in the real Vfs: not distinguished)',
        'shim `reload_workspace_files` = `load_post`, read off emmylua_code_analysis/src/lib.rs:236-287 at the uri level: open documents get the given '
        'text; any other document with a file path that is not std gets the text collected for its path or is removed (stale); the rest is untouched. '
        'Uris are canonical (`file_path_to_uri(uri_to_file_path(u)) == u` for the uris the client sends; a second spelling of the same path would be a '
        'second document). shim `collect_workspace_files`: every text it returns is a reading of that file (sp_read at the current epoch). shim '
        '`cleanup_nonexistent_files` (lib.rs:319-344): removes every non-std local document whose path does not exist NOW. `reindex` (lib.rs:308-316) '
        'clears and rebuilds the index from the Vfs texts: no ghost parameter, hence no text change',
        'the disk: `sp_read(path, epoch)` / `sp_exists(path, epoch)` uninterpreted; `epoch` may advance at every micro step and is constant inside one '
        'lock scope of the reload (no suspension point there). "reflects its on-disk content" == `disk_like`: absent, or equal to SOME reading of its file',
        'uninterpreted: sp_path (uri_to_file_path), sp_is_std, sp_is_module_file (ModuleInfo exists), WorkspaceFileMatcher::sp_match; FileId remembers its uri',
        'vstd: std::collections::HashMap / HashSet specs (insert / remove / contains_key / iter + the for-loop iterator model) under '
        '`obeys_key_model::<Uri>()` (precondition `keys_ok()`: lsp_types::Uri\'s Hash / Eq agree with equality), Vec / slice iteration, u64::wrapping_add, '
        'String / Arc clone, Option::{unwrap_or, is_some, is_none}, `?` on Option, Vec::first',
        'unit-local rewrite rules (documented in their docstrings / `extra_rules`): c29-await-st, c29-no-await-under-wm-guard (check only), '
        'c29-hashmap-filter-map-collect, c29-iter-map-collect-set, c29-filter-map-collect-while, c29-into-iter-map-collect (iterator chains -> loops, std '
        'docs of the adapters), c29-letchain-nest, c29-clone-files, c29-drop-wm-guard, c29-arc-as-ref, c29-log-drop, c29-format-count, c29-shared-state / '
        'c29-ghost-param (state passing), c29-enum-pub / c29-struct-pub',
        'lsp_types (emmy_lsp_types 0.1.0) parameter structs of the three notifications transcribed as data; ServerContextSnapshot accessors, StatusBar, '
        'FileDiagnostic, LspFeatures, register_files_watch, serde_json::to_string_pretty, build_workspace_folders, WorkspaceFileMatcher::new opaque '
        '(the async ones = `env`: the rest of the server runs; they touch neither the store nor the analysis: register_files_watch only stores the watcher)',
    ],
    'not_covered': [
        'real tokio scheduling; the debounce tokens (DebounceToken / PendingTask: C30) of add_update_emmyrc_task / reindex_workspace; lock fairness and '
        'deadlock freedom (C28) beyond the one FIFO fact of `window`',
        'file watching: on_did_change_watched_files is not in the model. OBSERVATION (not claimed either way): its DELETED branch calls remove_file_by_uri '
        'before it looks at `is_open_file`, so a file deleted on disk disappears from the analysis although it is open — the same shape as the reindex finding',
        'spawn_workspace_reload_task (`reload_lock`, `reload_generation`), add_reload_workspace_task, add_update_emmyrc_task, the spawned half of '
        'reindex_workspace (debounce wait, diagnostics refresh): "one reload at a time" is an assumption of the model',
        'initialized_handler calls init_analysis with NO open files and no version loop: sound only because no text-sync notification is handled before '
        'initialization has finished (pending-message queue: unit c24_dispatch, C24.pending.*)',
        'TERMINATION of the version loop (`exec_allows_no_decreases_clause`): it ends once no store write falls between a snapshot and its application; '
        'a client that keeps typing keeps it running (each turn re-applies every open document)',
        '"absent if not on disk", the converse direction: that a closed workspace file which IS on disk is present needs the loader\'s file collection and '
        '`is_workspace_file` to agree (include / exclude globs, extensions): not claimed. Documents that are not workspace files, or have no file path, '
        'or belong to std: outside both clauses',
        'the repairs were verified by this unit on a scratch worktree, NOT compiled with cargo (no cargo builds in this session)',
        'diagnostics after a reload / reindex (refresh_workspace_diagnostics, clear_push_file_diagnostics): C30',
    ],
    'samples': [
        'sync_open_file(u, t): store\' == store[u := t], version\' == version.wrapping_add(1); close_open_file(u): store\' == store - u, version + 1',
        'workspace_open_files_snapshot(): (version, files) with files_ok: every entry an open workspace file with the store\'s text, every open workspace file listed',
        'apply_open_file_sync(cur, acts): after whatever ran while waiting for the analysis lock, ONE atomic step: analysis[u] == cur-text for every listed u; '
        'opt(analysis, u) == sp_read(path, now) for RestoreFromDisk(u, path); absent for Remove(u); every other document untouched',
        'sync_reloaded_open_files(S): inv(state, S) ==> done(state\'): the loop returns only in a state whose store version is the version of the snapshot '
        'applied last',
        'init_analysis(.., open_files): forall v. pre(state, v, open_files) ==> inv(state\', v, open_files)',
        'apply_workspace_reload: base(state) ==> open_ok(state\') && closed_ok(state\', []) && base(state\')',
        'on_did_close_document(u) on its own: wm_close; close_effect FAILS on the current tree in the branch "file on disk && ModuleInfo exists" (nothing is done)',
        'reindex_task_step from done(state): closed_ok(state\') holds, open_ok(state\') FAILS on the current tree (cleanup removed an open document whose file is gone)',
    ],
    'findings': [
        'F1 — C29.close.closed-document-reflects-disk FAILS on on_did_close_document (text_document_handler.rs:151-199): for a workspace / library file that '
        'exists on disk the handler leaves the analysis alone, so a document closed with unsaved edits keeps the EDITOR text although the client has '
        'discarded it (LSP: after didClose the truth is the file). Sequence without any reload: didOpen(u, disk text); didChange(u, "edited"); didClose(u) -> '
        'analysis[u] == "edited" until the next reload. With a reload the outcome depends on the interleaving: (a) u open in the reload\'s first snapshot, '
        'didClose(u) at any later suspension point -> the version loop builds RestoreFromDisk(u) -> disk text; (b) u closed at the first snapshot, '
        'didOpen(u, t) + didClose(u) both handled at ONE suspension point after the load (e.g. while sync_reloaded_open_files waits for the workspace-manager '
        'read lock) -> u is in neither snapshot, no action, analysis[u] == t; (c) didClose(u) while register_files_watch runs (after the loop) -> t stays. '
        'C29.reload.closed-files-reflect-disk is therefore proved RELATIVE to this clause (micro step m_flush_close = close_effect). Repair: '
        'proposed_fix_close_rereads_disk.diff (the else branch re-reads the file: update_file_by_uri(uri, Some(disk text)) / remove when unreadable); with it '
        'the unit verifies completely on the scratch worktree. NOTE: the repair changes what unit c27_order records as C27.close.workspace-file-keeps-last-text',
        'F2 — C29.reindex.open-files-keep-editor-text FAILS on the reindex task (workspace_manager.rs reindex_workspace): cleanup_nonexistent_files removes '
        'EVERY document whose file does not exist, open or not; `reindex` itself keeps the Vfs texts (no re-application needed for it). Sequence '
        '(workspace.enableReindex = true): didOpen(u, t); the file of u disappears from the disk (branch switch, delete in another tool; the editor keeps '
        'the buffer) or has never been saved; didSave of any document -> after the debounce the task runs cleanup -> the analysis has no text for the open '
        'document u until its next didChange. The reload path protects the same document (reload_workspace_files keeps `open_paths`). Repair: '
        'proposed_fix_reindex_keeps_open_files.diff (after cleanup + reindex the task takes a snapshot of the open files, re-applies it with '
        'apply_open_file_sync and runs the version loop; reindex_workspace gets the ServerContextSnapshot like add_update_emmyrc_task); verified on the '
        'scratch worktree. Alternative: cleanup_nonexistent_files skips a given set of open uris (changes the analysis crate\'s API)',
        'CHECKED AND ABSENT (the defects the task asked about): the loop compares VERSIONS, not texts, so an edit back to the on-disk / old text and a text '
        'that is in neither snapshot are both noticed; a document opened during the load is re-applied by the first turn of the loop (ALL texts of the '
        'new snapshot are re-applied, not a diff); a document closed during the load that was in the applied snapshot is restored from disk or removed; '
        'the in-flight handler writes the text the store holds, so its landing before or after the load / a re-application makes no difference; `reindex` '
        'needs no re-application of texts',
    ],
    'mutants': [
        {'name': 'sync-skips-reapplication-when-nothing-was-closed', 'item': 'apply_open_file_sync',
         'pattern': r'if current_open_files\.is_empty\(\) && removed_actions\.is_empty\(\) \{', 'repl': 'if removed_actions.is_empty() {',
         'expect': r'apply_open_file_sync:.*'},
        {'name': 'sync-drops-the-removed-actions-branch', 'item': 'apply_open_file_sync',
         'pattern': r'for action in removed_actions \{', 'repl': 'for action in Vec::<OpenFileSyncAction>::new() {',
         'expect': r'apply_open_file_sync:.*'},
        {'name': 'sync-restore-keeps-the-old-entry-when-the-read-fails', 'item': 'apply_open_file_sync',
         'pattern': r'\} else \{\s*analysis\.remove_file_by_uri\(&uri\);\s*removed_uris\.push\(uri\);', 'repl': '} else {',
         'expect': r'apply_open_file_sync:.*'},
        {'name': 'loop-reapplies-the-before-snapshot', 'item': 'sync_reloaded_open_files',
         'pattern': r'next_snapshot\.files\.clone\(\),', 'repl': 'applied_snapshot.files.clone(),',
         'expect': r'sync_reloaded_open_files:.*'},
        {'name': 'loop-builds-the-actions-from-the-new-snapshot', 'item': 'sync_reloaded_open_files',
         'pattern': r'let removed_actions = applied_snapshot\b', 'repl': 'let removed_actions = next_snapshot',
         'expect': r'sync_reloaded_open_files:.*'},
        {'name': 'loop-restores-only-non-workspace-files', 'item': 'sync_reloaded_open_files',
         'pattern': r'if workspace_manager\.is_workspace_file\(uri\)', 'repl': 'if !workspace_manager.is_workspace_file(uri)',
         'expect': r'sync_reloaded_open_files:.*'},
        {'name': 'loop-also-stops-when-the-sizes-agree', 'item': 'sync_reloaded_open_files',
         'pattern': r'(if next_snapshot\.version == applied_snapshot\.version) \{', 'repl': r'\1 || next_snapshot.files.len() == applied_snapshot.files.len() {',
         'expect': r'sync_reloaded_open_files:.*(C29\.reload\.version-loop-ends-consistent|lemma_done)'},
        {'name': 'loop-forgets-to-advance-the-applied-snapshot', 'item': 'sync_reloaded_open_files',
         'pattern': r'applied_snapshot = next_snapshot;', 'repl': 'applied_snapshot = OpenFilesSnapshot { version: next_snapshot.version, files: applied_snapshot.files };',
         'expect': r'sync_reloaded_open_files:.*'},
        {'name': 'close-open-file-keeps-the-entry', 'item': 'WorkspaceManager::close_open_file',
         'pattern': r'self\.open_file_texts\.remove\(uri\);', 'repl': '',
         'expect': r'C29\.store\.close-forgets-document-and-moves-version'},
        {'name': 'close-open-file-does-not-move-the-version', 'item': 'WorkspaceManager::close_open_file',
         'pattern': r'self\.open_file_state_version = self\.open_file_state_version\.wrapping_add\(1\);', 'repl': '',
         'expect': r'C29\.store\.close-forgets-document-and-moves-version'},
        {'name': 'sync-open-file-does-not-move-the-version', 'item': 'WorkspaceManager::sync_open_file',
         'pattern': r'self\.open_file_state_version = self\.open_file_state_version\.wrapping_add\(1\);', 'repl': '',
         'expect': r'C29\.store\.sync-records-latest-text-and-moves-version'},
        {'name': 'snapshot-lists-every-open-document', 'item': 'WorkspaceManager::workspace_open_files',
         'pattern': r'self\.is_workspace_file\(uri\)', 'repl': 'true',
         'expect': r'WorkspaceManager::workspace_open_files:'},
        {'name': 'snapshot-carries-a-stale-version', 'item': 'WorkspaceManager::workspace_open_files_snapshot',
         'pattern': r'version: self\.open_file_state_version,', 'repl': 'version: 0,',
         'expect': r'C29\.snapshot\.carries-the-store-version'},
        {'name': 'load-ignores-the-open-files', 'item': 'init_analysis',
         'pattern': r'reload_workspace_files\(files, open_files\)', 'repl': 'reload_workspace_files(files, Vec::new())',
         'expect': r'init_analysis:.*(C29\.load\.open-files-override-disk|lemma_load)'},
        {'name': 'reload-skips-the-version-loop', 'item': 'apply_workspace_reload',
         'pattern': r'(sync_reloaded_open_files\(context\.clone\(\), open_files\)\.await;)', 'repl': r'if false { \1 }',
         'expect': r'apply_workspace_reload:.*(C29\.reload\.open-files-keep-editor-text|lemma_env_done)'},
        {'name': 'reload-loads-with-an-empty-snapshot', 'item': 'apply_workspace_reload',
         'pattern': r'open_files\.files\.clone\(\),', 'repl': '{ let _unused = open_files.files.clone(); Vec::new() },',
         'expect': r'apply_workspace_reload:.*'},
        {'name': 'didchange-skips-the-store', 'item': 'on_did_change_text_document',
         'pattern': r'workspace\.sync_open_file\(uri\.clone\(\), text\.clone\(\)\);', 'repl': '',
         'expect': r'C29\.change\.store-records-text-first'},
        {'name': 'didopen-skips-the-store', 'item': 'on_did_open_text_document',
         'pattern': r'workspace\.sync_open_file\(uri\.clone\(\), text\.clone\(\)\);', 'repl': '',
         'expect': r'C29\.open\.store-records-text-first'},
        {'name': 'didchange-touches-the-analysis-before-the-store', 'item': 'on_did_change_text_document',
         'pattern': r'(\{\s*let mut workspace = context\.workspace_manager\(\)\.write\(\)\.await;\s*workspace\.sync_open_file)',
         'repl': r'{ let mut analysis = context.analysis().write().await; analysis.update_file_by_uri(&uri, Some(text.clone())); } \1',
         'expect': r'on_did_change_text_document:precondition-not-satisfied'},
        {'name': 'didopen-filters-workspace-files', 'item': 'on_did_open_text_document',
         'pattern': r'workspace_manager\.is_workspace_file\(&uri\)', 'repl': 'false',
         'expect': r'C29\.open\.analysis-gets-the-stored-text'},
        {'name': 'didclose-leaves-the-store-alone', 'item': 'on_did_close_document',
         'pattern': r'workspace\.close_open_file\(&params\.text_document\.uri\);', 'repl': '',
         'expect': r'C29\.close\.store-forgets-document'},
    ],
}
