// unit c29_reload — C29 "after a reload, open files keep the editor's text" (see unit.py for the protocol, the interleaving model and the plan).
// Hand-written SPECIFICATION only: shims of external types, the ghost model, spec fns, lemmas. The code under proof enters through //@@ keys.
use vstd::prelude::*;
use std::sync::Arc;
use std::collections::{HashMap, HashSet};
verus! {

// ---- opaque external types ---------------------------------------------------------------------------------------------------------------------
/// lsp_types::Uri — opaque; only compared, hashed, cloned
#[verifier::external_body] #[derive(PartialEq, Eq, Hash)] pub struct Uri { _p: () }
impl Clone for Uri { #[verifier::external_body] fn clone(&self) -> (r: Self) ensures r == *self { unimplemented!() } }
/// std::path::PathBuf — opaque
#[verifier::external_body] pub struct PathBuf { _p: () }
impl Clone for PathBuf { #[verifier::external_body] fn clone(&self) -> (r: Self) ensures r == *self { unimplemented!() } }
/// emmylua_code_analysis::WorkspaceFileMatcher (include / exclude globs of the workspace folders and libraries) — opaque
#[verifier::external_body] pub struct WorkspaceFileMatcher { _p: () }
impl WorkspaceFileMatcher {
    pub uninterp spec fn sp_match(self, p: PathBuf) -> bool;
    #[verifier::external_body]
    pub fn new(workspace_folders: &Vec<WorkspaceFolder>, emmyrc: &Emmyrc) -> WorkspaceFileMatcher { unimplemented!() }
    #[verifier::external_body]
    pub fn is_match(&self, p: &PathBuf) -> (r: bool) ensures r == self.sp_match(*p) { unimplemented!() }
}
#[verifier::external_body] pub struct WorkspaceImport { _p: () }
#[verifier::external_body] #[derive(Clone, Copy)] pub struct FileId { _p: () }
impl FileId { pub uninterp spec fn sp_uri(self) -> Uri; }

pub type Text = Seq<char>;
pub open spec fn opt_view(o: Option<String>) -> Option<Text> { match o { Some(s) => Some(s@), None => None } }
pub open spec fn opt_at(m: Map<Uri, Text>, u: Uri) -> Option<Text> { if m.contains_key(u) { Some(m[u]) } else { None } }

// ---- the file system, as the server sees it ------------------------------------------------------------------------------------------------------
/// uri_to_file_path: the path of a `file:` uri
pub uninterp spec fn sp_path(u: Uri) -> Option<PathBuf>;
/// the document belongs to the bundled std library (never reloaded, never stale)
pub uninterp spec fn sp_is_std(u: Uri) -> bool;
/// the module index has a ModuleInfo for the document (its path lies under a workspace root or library)
pub uninterp spec fn sp_is_module_file(u: Uri) -> bool;
/// what `read_file_with_encoding(p, ..)` returns at time `e` (None: missing / unreadable). The disk is ARBITRARY and may change whenever `e` advances
pub uninterp spec fn sp_read(p: PathBuf, e: nat) -> Option<Text>;
/// Path::exists at time `e`
pub uninterp spec fn sp_exists(p: PathBuf, e: nat) -> bool;
/// a document the workspace load manages: it has a file path and is not part of the std library
pub open spec fn managed(u: Uri) -> bool { sp_path(u) is Some && !sp_is_std(u) }
/// the analysis has no text for `u`, or a text that some read of its file returned ("reflects its on-disk content, or is absent")
pub open spec fn disk_like(an: Map<Uri, Text>, u: Uri) -> bool {
    !an.contains_key(u) || exists|e: nat| #[trigger] sp_read(sp_path(u)->0, e) == Some(an[u])
}

#[verifier::external_body]
pub fn uri_to_file_path(uri: &Uri) -> (r: Option<PathBuf>) ensures r == sp_path(*uri) { unimplemented!() }
impl PathBuf {
    #[verifier::external_body]
    pub fn exists(&self, st: &mut Shared) -> (r: bool) ensures final(st).g@ == old(st).g@, r == sp_exists(*self, old(st).g@.epoch) { unimplemented!() }
}
#[verifier::external_body]
pub fn read_file_with_encoding(path: &PathBuf, encoding: &String, st: &mut Shared) -> (r: Option<String>)
    ensures final(st).g@ == old(st).g@, opt_view(r) == sp_read(*path, old(st).g@.epoch),
{ unimplemented!() }

// ---- extracted data types -----------------------------------------------------------------------------------------------------------------------
//@@ Emmyrc
//@@ EmmyrcDiagnostic
//@@ EmmyrcWorkspace
//@@ WorkspaceFolder
//@@ WorkspaceManager
//@@ OpenFilesSnapshot
//@@ OpenFileSyncAction

/// HashMap / HashSet keys: the exec Hash / Eq of lsp_types::Uri agree with spec equality
pub open spec fn keys_ok() -> bool { vstd::std_specs::hash::obeys_key_model::<Uri>() }

impl WorkspaceManager {
    /// the open-file store: uri -> the editor's text
    pub open spec fn store(self) -> Map<Uri, String> { self.open_file_texts@ }
    pub open spec fn ver(self) -> u64 { self.open_file_state_version }
    /// `is_workspace_file`, as a function of the matcher state
    pub open spec fn ws(self, u: Uri) -> bool {
        self.workspace_folders@.len() == 0 || sp_path(u) is None || self.match_file_pattern.sp_match(sp_path(u)->0)
    }
    pub open spec fn same_matcher(self, o: WorkspaceManager) -> bool {
        self.workspace_folders == o.workspace_folders && self.match_file_pattern == o.match_file_pattern
    }
}
/// `sync_open_file(u, t)`: the store has `t` for `u`, the version counter moved (wrapping_add), nothing else changed
pub open spec fn wm_sync(a: WorkspaceManager, b: WorkspaceManager, u: Uri, t: String) -> bool {
    &&& b.store() == a.store().insert(u, t)
    &&& b.ver() == (if a.ver() == u64::MAX { 0u64 } else { (a.ver() + 1) as u64 })
    &&& b.same_matcher(a)
}
/// `close_open_file(u)`
pub open spec fn wm_close(a: WorkspaceManager, b: WorkspaceManager, u: Uri) -> bool {
    &&& b.store() == a.store().remove(u)
    &&& b.ver() == (if a.ver() == u64::MAX { 0u64 } else { (a.ver() + 1) as u64 })
    &&& b.same_matcher(a)
}

/// `u` occurs in a list of (uri, text) pairs
pub open spec fn listed(f: Seq<(Uri, String)>, u: Uri) -> bool { exists|i: int| 0 <= i < f.len() && (#[trigger] f[i]).0 == u }
/// `f` is a snapshot of the workspace part of the store of `wm`: every entry is an open workspace file with its text, every open workspace file occurs
pub open spec fn files_ok(wm: WorkspaceManager, f: Seq<(Uri, String)>) -> bool {
    &&& forall|i: int| 0 <= i < f.len() ==> wm.store().contains_key((#[trigger] f[i]).0) && wm.store()[f[i].0]@ == f[i].1@ && wm.ws(f[i].0)
    &&& forall|u: Uri| wm.store().contains_key(u) && wm.ws(u) ==> listed(f, u)
}

// ---- the ghost model ----------------------------------------------------------------------------------------------------------------------------
/// the ONE text-sync handler that may be in flight (the main loop awaits didOpen / didChange / didClose inline: unit c27_order): it has written the
/// store, its effect on the analysis has not happened yet
pub enum Pend {
    None,
    /// didOpen / didChange (u, t): `update_file_by_uri(u, Some(t))` is still to come
    Upd(Uri, Text),
    /// didClose (u): the handler's look at the disk / the analysis is still to come
    Close(Uri),
}
pub struct St {
    /// the value behind `RwLock<WorkspaceManager>` (open-file store, its version counter, the matcher)
    pub wm: WorkspaceManager,
    /// the text the analysis holds per uri (Vfs content; the index is rebuilt from it)
    pub analysis: Map<Uri, Text>,
    pub pend: Pend,
    /// a handler may exist that evaluated `should_process` against the PREVIOUS matcher (set when the workspace-manager write lock is taken,
    /// cleared at the next acquisition of that lock by the same task: tokio's RwLock is FIFO, see `trusted`)
    pub window: bool,
    /// time of the disk
    pub epoch: nat,
    /// true while a text-sync HANDLER is verified on its own: nothing else runs at its await points
    pub quiet: bool,
}
pub struct Shared { pub g: Ghost<St> }

impl St {
    pub open spec fn store(self) -> Map<Uri, String> { self.wm.store() }
    pub open spec fn pclose(self) -> Option<Uri> { match self.pend { Pend::Close(u) => Some(u), _ => None } }
    /// the analysis once the in-flight handler has finished
    pub open spec fn settled(self) -> Map<Uri, Text> { match self.pend { Pend::Upd(u, t) => self.analysis.insert(u, t), _ => self.analysis } }
    /// the in-flight handler is the last writer of the store
    pub open spec fn pend_wf(self) -> bool {
        match self.pend {
            Pend::None => true,
            Pend::Upd(u, t) => self.store().contains_key(u) && self.store()[u]@ == t,
            Pend::Close(u) => !self.store().contains_key(u),
        }
    }
}

/// every open workspace file is analysed with its latest editor text (once the in-flight handler has finished)
pub open spec fn open_ok(s: St) -> bool {
    forall|u: Uri| #![trigger s.store().contains_key(u)] s.store().contains_key(u) && s.wm.ws(u)
        ==> s.settled().contains_key(u) && s.settled()[u] == s.store()[u]@
}
/// every closed workspace file (that the load manages and that is not listed in `f`) reflects a disk reading or is absent — except the document
/// whose didClose is in flight (that handler looks at the disk itself)
pub open spec fn closed_ok(s: St, f: Seq<(Uri, String)>) -> bool {
    forall|u: Uri| #![trigger s.store().contains_key(u)] managed(u) && s.wm.ws(u) && !s.store().contains_key(u) && !listed(f, u) && s.pclose() != Some(u)
        ==> disk_like(s.analysis, u)
}

// ---- what the rest of the server does at a suspension point of the reload task (THE INTERLEAVING MODEL, trusted) -----------------------------------
/// what a finished didClose(u) has done to the analysis — the GUARANTEE asked of `on_did_close_document` (C29.close.*): other documents untouched;
/// a managed workspace document is absent or shows a disk reading
pub open spec fn close_effect(wm: WorkspaceManager, x: Map<Uri, Text>, y: Map<Uri, Text>, u: Uri) -> bool {
    &&& forall|v: Uri| v != u ==> opt_at(y, v) == opt_at(x, v)
    &&& wm.ws(u) && managed(u) ==> disk_like(y, u)
}
pub open spec fn m_idle(a: St, b: St) -> bool { b.wm == a.wm && b.analysis == a.analysis && b.pend == a.pend }
/// didOpen / didChange (u, t) writes the store; it goes on to update the analysis (`should_process`) when the document is known to the analysis or a
/// workspace file — always, unless its decision may be stale (`window`)
pub open spec fn m_upd(a: St, b: St) -> bool {
    exists|u: Uri, t: String| #![trigger wm_sync(a.wm, b.wm, u, t)]
        a.pend is None && a.wm.ver() < u64::MAX && wm_sync(a.wm, b.wm, u, t) && b.analysis == a.analysis
        && (b.pend == Pend::Upd(u, t@) || b.pend is None)
        && (!a.window && (a.analysis.contains_key(u) || a.wm.ws(u)) ==> b.pend == Pend::Upd(u, t@))
}
/// didClose (u) writes the store
pub open spec fn m_close(a: St, b: St) -> bool {
    exists|u: Uri| #![trigger wm_close(a.wm, b.wm, u)]
        a.pend is None && a.wm.ver() < u64::MAX && wm_close(a.wm, b.wm, u) && b.analysis == a.analysis && b.pend == Pend::Close(u)
}
/// the in-flight didOpen / didChange reaches `update_file_by_uri`
pub open spec fn m_flush_upd(a: St, b: St) -> bool {
    a.pend matches Pend::Upd(u, t) && b.wm == a.wm && b.pend is None && b.analysis == a.analysis.insert(u, t)
}
/// the in-flight didClose finishes
pub open spec fn m_flush_close(a: St, b: St) -> bool {
    a.pend matches Pend::Close(u) && b.wm == a.wm && b.pend is None && close_effect(a.wm, a.analysis, b.analysis, u)
}
/// ONE step of the rest of the server
pub open spec fn micro(a: St, b: St) -> bool {
    &&& b.window == a.window && b.quiet == a.quiet && b.epoch >= a.epoch
    &&& (m_idle(a, b) || m_upd(a, b) || m_close(a, b) || m_flush_upd(a, b) || m_flush_close(a, b))
}
/// `n` steps
pub open spec fn reach(a: St, b: St, n: nat) -> bool
    decreases n
{
    if n == 0 { b == a } else { exists|m: St| #![trigger micro(a, m)] micro(a, m) && reach(m, b, (n - 1) as nat) }
}
/// what may have happened when a suspended task runs again: nothing while a handler is verified on its own, any finite number of steps otherwise
pub open spec fn env(a: St, b: St) -> bool { if a.quiet { b == a } else { exists|n: nat| reach(a, b, n) } }

// ---- rely: what every finite run of the rest of the server preserves (PROVED from `micro`, below) ------------------------------------------------
pub open spec fn rely(a: St, b: St) -> bool {
    &&& b.window == a.window && b.quiet == a.quiet && b.epoch >= a.epoch
    &&& b.wm.same_matcher(a.wm)
    &&& b.wm.ver() >= a.wm.ver()
    &&& a.pend_wf() ==> b.pend_wf()
    // the version counter did not move: the store did not change, and only the in-flight handler (if any) has touched the analysis
    &&& b.wm.ver() == a.wm.ver() ==> {
            &&& b.wm == a.wm
            &&& (b.pend == a.pend || b.pend is None)
            &&& forall|u: Uri| #![trigger b.settled().contains_key(u)] a.pclose() != Some(u) ==> opt_at(b.settled(), u) == opt_at(a.settled(), u)
        }
    &&& !a.window && a.pend_wf() && open_ok(a) ==> open_ok(b)
    // a document that is closed now: the handler that closed it has looked at the disk, or it was closed before, with the same analysis entry
    &&& a.pend_wf() ==> forall|u: Uri| #![trigger b.store().contains_key(u)] managed(u) && b.wm.ws(u) && !b.store().contains_key(u) && b.pclose() != Some(u)
            ==> disk_like(b.analysis, u) || (!a.store().contains_key(u) && a.pclose() != Some(u) && opt_at(b.analysis, u) == opt_at(a.analysis, u))
}

pub proof fn lemma_rely_refl(a: St)
    ensures rely(a, a)
{ }

#[verifier::spinoff_prover]
pub proof fn lemma_micro_rely(a: St, b: St)
    requires micro(a, b)
    ensures rely(a, b)
{
    if m_upd(a, b) {
        let (u, t) = choose|u: Uri, t: String| #![trigger wm_sync(a.wm, b.wm, u, t)]
            a.pend is None && a.wm.ver() < u64::MAX && wm_sync(a.wm, b.wm, u, t) && b.analysis == a.analysis
            && (b.pend == Pend::Upd(u, t@) || b.pend is None)
            && (!a.window && (a.analysis.contains_key(u) || a.wm.ws(u)) ==> b.pend == Pend::Upd(u, t@));
        assert(b.store() == a.store().insert(u, t));
        if !a.window && a.pend_wf() && open_ok(a) {
            assert forall|v: Uri| #![trigger b.store().contains_key(v)] b.store().contains_key(v) && b.wm.ws(v)
                implies b.settled().contains_key(v) && b.settled()[v] == b.store()[v]@ by {
                if v != u { assert(a.store().contains_key(v)); }
            }
        }
        assert forall|v: Uri| #![trigger b.store().contains_key(v)] managed(v) && b.wm.ws(v) && !b.store().contains_key(v) && b.pclose() != Some(v)
            implies disk_like(b.analysis, v) || (!a.store().contains_key(v) && a.pclose() != Some(v) && opt_at(b.analysis, v) == opt_at(a.analysis, v)) by {
            assert(v != u);
        }
    } else if m_close(a, b) {
        let u = choose|u: Uri| #![trigger wm_close(a.wm, b.wm, u)]
            a.pend is None && a.wm.ver() < u64::MAX && wm_close(a.wm, b.wm, u) && b.analysis == a.analysis && b.pend == Pend::Close(u);
        assert(b.store() == a.store().remove(u));
        if !a.window && a.pend_wf() && open_ok(a) {
            assert forall|v: Uri| #![trigger b.store().contains_key(v)] b.store().contains_key(v) && b.wm.ws(v)
                implies b.settled().contains_key(v) && b.settled()[v] == b.store()[v]@ by {
                assert(a.store().contains_key(v));
            }
        }
    } else if m_flush_upd(a, b) {
        if !a.window && a.pend_wf() && open_ok(a) {
            assert forall|v: Uri| #![trigger b.store().contains_key(v)] b.store().contains_key(v) && b.wm.ws(v)
                implies b.settled().contains_key(v) && b.settled()[v] == b.store()[v]@ by {
                assert(a.store().contains_key(v));
            }
        }
        assert(b.settled() == a.settled());
        if a.pend_wf() {
            assert forall|v: Uri| #![trigger b.store().contains_key(v)] managed(v) && b.wm.ws(v) && !b.store().contains_key(v) && b.pclose() != Some(v)
                implies disk_like(b.analysis, v) || (!a.store().contains_key(v) && a.pclose() != Some(v) && opt_at(b.analysis, v) == opt_at(a.analysis, v)) by {
                assert(a.pend matches Pend::Upd(u, t) && u != v);
            }
        }
    } else if m_flush_close(a, b) {
        if !a.window && a.pend_wf() && open_ok(a) {
            assert forall|v: Uri| #![trigger b.store().contains_key(v)] b.store().contains_key(v) && b.wm.ws(v)
                implies b.settled().contains_key(v) && b.settled()[v] == b.store()[v]@ by {
                assert(a.store().contains_key(v));
                assert(opt_at(b.analysis, v) == opt_at(a.analysis, v));
            }
        }
        assert forall|v: Uri| #![trigger b.settled().contains_key(v)] a.pclose() != Some(v) implies opt_at(b.settled(), v) == opt_at(a.settled(), v) by {
            assert(opt_at(b.analysis, v) == opt_at(a.analysis, v));
        }
        assert forall|v: Uri| #![trigger b.store().contains_key(v)] managed(v) && b.wm.ws(v) && !b.store().contains_key(v) && b.pclose() != Some(v)
            implies disk_like(b.analysis, v) || (!a.store().contains_key(v) && a.pclose() != Some(v) && opt_at(b.analysis, v) == opt_at(a.analysis, v)) by {
            if a.pclose() != Some(v) { assert(opt_at(b.analysis, v) == opt_at(a.analysis, v)); }
        }
    } else {
        assert(m_idle(a, b));
    }
}

#[verifier::spinoff_prover]
pub proof fn lemma_rely_trans(a: St, m: St, b: St)
    requires rely(a, m), rely(m, b)
    ensures rely(a, b)
{
    if b.wm.ver() == a.wm.ver() {
        assert(m.wm.ver() == a.wm.ver());
        assert forall|u: Uri| #![trigger b.settled().contains_key(u)] a.pclose() != Some(u) implies opt_at(b.settled(), u) == opt_at(a.settled(), u) by {
            assert(m.settled().contains_key(u) || !m.settled().contains_key(u));
            assert(m.pclose() == a.pclose() || m.pclose() is None);
        }
    }
    if a.pend_wf() {
    assert forall|u: Uri| #![trigger b.store().contains_key(u)] managed(u) && b.wm.ws(u) && !b.store().contains_key(u) && b.pclose() != Some(u)
        implies disk_like(b.analysis, u) || (!a.store().contains_key(u) && a.pclose() != Some(u) && opt_at(b.analysis, u) == opt_at(a.analysis, u)) by {
        if !disk_like(b.analysis, u) {
            assert(!m.store().contains_key(u) && m.pclose() != Some(u) && opt_at(b.analysis, u) == opt_at(m.analysis, u));
            assert(m.wm.ws(u));
            assert(!disk_like(m.analysis, u));
        }
    }
    }
}

pub proof fn lemma_reach_rely(a: St, b: St, n: nat)
    requires reach(a, b, n)
    ensures rely(a, b)
    decreases n
{
    if n == 0 {
        lemma_rely_refl(a);
    } else {
        let m = choose|m: St| #![trigger micro(a, m)] micro(a, m) && reach(m, b, (n - 1) as nat);
        lemma_micro_rely(a, m);
        lemma_reach_rely(m, b, (n - 1) as nat);
        lemma_rely_trans(a, m, b);
    }
}
/// THE link between the interleaving model and the proofs: whatever ran at a suspension point satisfies `rely`
pub proof fn lemma_env(a: St, b: St)
    requires env(a, b)
    ensures rely(a, b), a.quiet ==> b == a
{
    if a.quiet { lemma_rely_refl(a); } else { let n = choose|n: nat| reach(a, b, n); lemma_reach_rely(a, b, n); }
}

// ---- the model is not empty: what `env` ADMITS, as lemmas (each names one racy run) ---------------------------------------------------------------------
/// a didOpen / didChange writes the store while the reload task is suspended and is still in flight (its analysis update has not happened) when the
/// reload task runs again — e.g. during the disk load
pub proof fn lemma_admits_store_write_in_flight(a: St, b: St, u: Uri, t: String)
    requires !a.quiet, a.pend is None, a.wm.ver() < u64::MAX, wm_sync(a.wm, b.wm, u, t), b == (St { wm: b.wm, pend: Pend::Upd(u, t@), ..a })
    ensures env(a, b)
{
    assert(m_upd(a, b));
    assert(micro(a, b));
    assert(reach(b, b, 0));
    assert(reach(a, b, 1));
}
/// a document is opened with unsaved text and closed again between two suspension points of the reload (it is in NEITHER snapshot): two handlers,
/// each finished — the second one's effect on the analysis is `close_effect`
pub proof fn lemma_admits_open_then_close(a: St, m1: St, m2: St, m3: St, b: St, u: Uri, t: String)
    requires
        !a.quiet, a.pend is None, a.wm.ver() < u64::MAX - 1,
        wm_sync(a.wm, m1.wm, u, t), m1 == (St { wm: m1.wm, pend: Pend::Upd(u, t@), ..a }),
        m2 == (St { analysis: m1.analysis.insert(u, t@), pend: Pend::None, ..m1 }),
        wm_close(m2.wm, m3.wm, u), m3 == (St { wm: m3.wm, pend: Pend::Close(u), ..m2 }),
        close_effect(m3.wm, m3.analysis, b.analysis, u), b == (St { analysis: b.analysis, pend: Pend::None, ..m3 }),
    ensures env(a, b)
{
    assert(m_upd(a, m1)); assert(micro(a, m1));
    assert(m_flush_upd(m1, m2)); assert(micro(m1, m2));
    assert(m_close(m2, m3)); assert(micro(m2, m3));
    assert(m_flush_close(m3, b)); assert(micro(m3, b));
    assert(reach(b, b, 0));
    assert(reach(m3, b, 1));
    assert(reach(m2, b, 2));
    assert(reach(m1, b, 3));
    assert(reach(a, b, 4));
}

//@@include c29_reload/protocol.rs

} // verus!
fn main() {}
