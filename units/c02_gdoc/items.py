"""contract overlay of unit c02_gdoc: one entry per top-level fn of grammar/doc/{mod,tag,types}.rs that unit c01_doc has not extracted.

Overlay keys are those of units/README.md plus
  'std': bool     add the standard frame contract STD_REQ / STD_ENS (default: the fn has a `p: &mut LuaDocParser` parameter)
  'rank': n       member of the recursive component of the type grammar: `decreases rem(old(p)), n`
  'assume': True  external_body: signature extracted, body replaced (listed in `trusted`)
"""
import re

KD = 'crates/emmylua_parser/src/kind/'
GM = 'crates/emmylua_parser/src/grammar/mod.rs'

STD_REQ = 'gram_pre(old(p))'
STD_ENS = 'gram_post(old(p), final(p)) /*@C02.doc.grammar-frame*/'

# the chaining of driver / marker / grammar steps (lemmas of unit c01_doc, bodies verified there and here) + marker liveness
GB = 'broadcast use {lemma_gstep_trans, lemma_gstep_of_drive, lemma_gstep_of_marker, lemma_mlive_mono};'
B0 = GB + '\nproof { lemma_gstep_refl(&*p); }'

DINV_DOC = ('the range of the pending TkEof token starts on a char boundary - needed for `p.current_token_text()` at end of input '
            '(parse_fun_type after `---@overload` / `async` at the end of the comment); TkEof is set by calc_next_current_token (range = [span end, span end)), '
            'eat_current_and_lex_next and re_calc_cast_type (range of the token just eaten / re-lexed kept): re-proved for all driver functions')

REAL = 'real_kind(old(p).current_token)'
CMOK = 'cm_ok(r, final(p).sp_events()) /*@C02.doc.complete-marker-live*/'


def LOOP(*live, lvl='>', extra=''):
    """invariant of a grammar loop: the frame so far, the open markers are live, the measure decreases"""
    inv = ['gram_pre(old(p))', 'gstep(old(p), p)', 'plvl_ok(p)', 'p.sp_level() %s old(p).sp_level()' % lvl]
    inv += ['mlive(%s, p.sp_events())' % m for m in live]
    if extra: inv.append(extra.strip().rstrip(','))
    return '\n    invariant\n        ' + ',\n        '.join(inv) + ',\n    decreases rem(p) /*@C02.doc.progress*/\n'


T_MSG = 'doc-t-msg'
PUSH_ERR = 'doc-push-error'

EXTRA_RULES = [
    (T_MSG, r'&\s*t!\((?:[^()]|\((?:[^()]|\([^()]*\))*\))*\)', 'vx_msg()',
     '`&t!(..)` (rust-i18n message lookup; the arguments are string literals, `token`, `p.current_token()`: reads without effect) -> `vx_msg()`, an opaque '
     '&\'static str: the message text is irrelevant to every claimed clause. Everything around it (the error constructor call, its range argument, the return) is kept'),
    (PUSH_ERR, r'\bp\.push_error\(', 'vx_note_error(',
     '`p.push_error(E)` -> `vx_note_error(E)`: LuaDocParser::push_error is `self.lua_parser.errors.push(error)`; `errors` is a field that the struct projection of '
     'LuaParser (unit c01_doc) drops, so on the projected state the call only evaluates and consumes E (E is still evaluated)'),
]

ALLOW = [r'pub struct LuaParseError', r'pub fn vx_msg', r'verifier::external_body']

# ---------------------------------------------------------------------------------------------------------
# extracted types the grammar needs
# ---------------------------------------------------------------------------------------------------------
DERIVE_OP = '#[derive(Clone, Copy, PartialEq, Structural)]'
TYPES = {
    'DocParseResult': {'src': {'file': GM, 'kind': 'type', 'name': 'DocParseResult'}, 'rules': ['vis-pub']},
    'PriorityTable': {'src': {'file': KD + 'mod.rs', 'kind': 'struct', 'name': 'PriorityTable'}},
    'LuaTypeUnaryOperator': {'src': {'file': KD + 'lua_type_operator_kind.rs', 'kind': 'enum', 'name': 'LuaTypeUnaryOperator'}, 'attrs': DERIVE_OP},
    'LuaTypeBinaryOperator': {'src': {'file': KD + 'lua_type_operator_kind.rs', 'kind': 'enum', 'name': 'LuaTypeBinaryOperator'}, 'attrs': DERIVE_OP},
    'LuaTypeTernaryOperator': {'src': {'file': KD + 'lua_type_operator_kind.rs', 'kind': 'enum', 'name': 'LuaTypeTernaryOperator'}},
    'UNARY_TYPE_PRIORITY': {'src': {'file': KD + 'lua_type_operator_kind.rs', 'kind': 'const', 'name': 'UNARY_TYPE_PRIORITY'}},
    'UnaryOperator': {'src': {'file': KD + 'lua_operator_kind.rs', 'kind': 'enum', 'name': 'UnaryOperator'}},
    'BinaryOperator': {'src': {'file': KD + 'lua_operator_kind.rs', 'kind': 'enum', 'name': 'BinaryOperator'}},
    'LuaOpKind': {'src': {'file': KD + 'mod.rs', 'kind': 'enum', 'name': 'LuaOpKind'}},
    'LuaOpKind::to_type_unary_operator': {
        'src': {'file': KD + 'mod.rs', 'kind': 'fn', 'impl': 'LuaOpKind', 'name': 'to_type_unary_operator'}, 'ret': 'r',
        'ensures': '!(r is None) ==> real_kind(kind) /*@C02.doc.operator-tokens-are-real*/'},
    'LuaOpKind::to_parse_binary_operator': {
        'src': {'file': KD + 'mod.rs', 'kind': 'fn', 'impl': 'LuaOpKind', 'name': 'to_parse_binary_operator'}, 'ret': 'r',
        'ensures': '!(r is None) ==> real_kind(kind) /*@C02.doc.operator-tokens-are-real*/'},
}
TYPES_SECTION = [
    '//@@ DocParseResult', '', '//@@ PriorityTable', '', '//@@ LuaTypeUnaryOperator', '', '//@@ LuaTypeBinaryOperator', '', '//@@ LuaTypeTernaryOperator', '',
    '//@@ UNARY_TYPE_PRIORITY', '', '//@@ UnaryOperator', '', '//@@ BinaryOperator', '', '//@@ LuaOpKind', '',
    'impl LuaOpKind {', '    //@@ LuaOpKind::to_type_unary_operator', '    //@@ LuaOpKind::to_parse_binary_operator', '}',
]

# ---------------------------------------------------------------------------------------------------------
# contract extensions of the driver functions of unit c01_doc (same extracted text; see unit.py step 4)
# ---------------------------------------------------------------------------------------------------------
DRIVER_EXT = {
    # a bump at a real token pushes an event: a node that contains a bumped token is not empty (so `complete` closes it and its
    # CompleteMarker is live)
    'LuaDocParser::bump': {
        'ensures+': 'real_kind(old(self).current_token) ==> final(self).sp_events().len() > old(self).sp_events().len() /*@C02.doc.bump-pushes-an-event*/'},
    # the text of the pending token may also be asked for at TkEof (strengthened dinv)
    'LuaDocParser::current_token_text': {
        'requires=': 'dinv(self), !(self.current_token is None)'},
    # set_parser_state is a step
    'LuaDocParser::set_parser_state': {
        'ensures+': 'dinv(old(self)) && !(old(self).current_token is None) ==> gstep(old(self), final(self)) && front(final(self)) == front(old(self)) '
                    '&& final(self).current_token == old(self).current_token',
        'proof+': [(r'self\.state = state;', 'after', 'proof { lemma_gstep_of_state(old(self), &*self); }')]},
}


# ---------------------------------------------------------------------------------------------------------
# the grammar
# ---------------------------------------------------------------------------------------------------------
def tag(**kw):
    """a `parse_tag_*`-like fn: standard contract, result `r`"""
    d = {'ret': 'r'}
    d.update(kw)
    return d


LVL_SAME = 'final(p).sp_level() == old(p).sp_level()'
COMMA = 'p.current_token() == LuaTokenKind::TkComma'

ITEMS = {
    # ---- grammar/doc/mod.rs ------------------------------------------------------------------------------
    'expect_token': {
        'ret': 'r', 'rules': [T_MSG],
        'ensures': LVL_SAME + """,
        r is Ok ==> old(p).current_token == token,
        r is Ok && real_kind(token) ==> front(final(p)) > front(old(p)) && final(p).sp_events().len() > old(p).sp_events().len() /*@C02.doc.expect-progress*/"""},

    # ---- grammar/doc/tag.rs ------------------------------------------------------------------------------
    'parse_tag': {
        'rules': [PUSH_ERR],
        'loops': {0: """
    invariant
        gram_pre(old(p)), gstep(old(p), p), plvl_ok(p), level == old(p).sp_level(), current_level >= level,
        VERUS_ghost_iter.seq().len() == current_level - level,
        p.sp_level() == current_level - VERUS_ghost_iter.index() /*@C02.doc.recovery-closes-open-nodes*/,
"""}},
    'parse_long_tag': {},
    'parse_tag_detail': tag(),
    'parse_tag_simple': tag(),
    'parse_tag_class': tag(),
    'parse_doc_type_flag': tag(loops={0: LOOP('m.position')}),
    'parse_generic_decl_list': tag(rank=8, loops={0: LOOP('m.position')}),
    'parse_generic_param': tag(rank=7),
    'parse_generic_modifier': {'ret': 'r', 'rules': [T_MSG]},
    'parse_tag_enum': tag(),
    'parse_enum_field_list': tag(loops={0: LOOP('m.position')}),
    'parse_enum_field': tag(),
    'parse_tag_alias': tag(),
    'parse_tag_module': tag(),
    'parse_tag_field': tag(rules=[T_MSG]),
    'parse_tag_type': tag(loops={0: LOOP('m.position')}),
    'parse_tag_param': tag(rules=[T_MSG]),
    'parse_tag_return': tag(loops={0: LOOP('m.position')}),
    'parse_tag_return_overload': tag(loops={0: LOOP('m.position')}),
    'parse_tag_return_cast': tag(),
    'parse_tag_generic': tag(),
    'parse_tag_see': tag(),
    'parse_tag_as': tag(),
    'parse_tag_overload': tag(),
    'parse_tag_cast': tag(loops={0: LOOP('m.position')}),
    'parse_cast_expr': tag(requires=REAL, loops={0: LOOP('cm.start', lvl='>=')}),
    'parse_op_type': tag(),
    'parse_tag_source': tag(),
    'parse_tag_diagnostic': tag(),
    'parse_diagnostic_code_list': tag(loops={0: LOOP('m.position')}),
    'parse_tag_version': tag(loops={0: LOOP('m.position')}),
    'parse_version': tag(),
    'parse_tag_operator': tag(),
    'parse_tag_mapping': tag(),
    'parse_tag_namespace': tag(),
    'parse_tag_using': tag(),
    'parse_tag_meta': tag(),
    'parse_tag_language': tag(),
    'parse_tag_attribute_use': tag(loops={0: LOOP('m.position')}),
    'parse_doc_attribute_use': tag(),
    'parse_attribute_arg_list': tag(loops={0: LOOP('m.position')}),
    'parse_attribute_arg': tag(),
    'parse_tag_call_generic': tag(),
    'parse_tag_schema': tag(),

    # ---- grammar/doc/types.rs ----------------------------------------------------------------------------
    'parse_type': tag(rank=20, ensures=CMOK, loops={0: LOOP('cm.start', lvl='>=')}),
    'parse_extends_conditional_type': {
        'ret': 'r', 'rank': 18, 'rules': [T_MSG, PUSH_ERR],
        'requires': 'mlive(old(cm).start, old(p).sp_events())',
        'ensures': 'r is Ok ==> mlive(final(cm).start, final(p).sp_events()) /*@C02.doc.complete-marker-live*/'},
    'parse_sub_type': tag(rank=15, rules=[T_MSG, PUSH_ERR], ensures=CMOK),
    'parse_binary_operator': {
        'ret': 'r', 'rank': 13, 'rules': [T_MSG, PUSH_ERR],
        'requires': 'mlive(old(cm).start, old(p).sp_events())',
        'ensures': 'r is Ok ==> mlive(final(cm).start, final(p).sp_events()) /*@C02.doc.complete-marker-live*/',
        'loops': {0: LOOP('cm.start', lvl='>=', extra='!(bop is None) ==> real_kind(p.current_token)')}},
    'parse_type_list': tag(rank=21, loops={0: LOOP('m.position')}),
    'parse_simple_type': tag(rank=14, ensures=CMOK),
    'parse_primary_type': tag(rank=12, rules=[T_MSG], ensures=CMOK),
    'parse_mapped_type': {
        'ret': 'r', 'std': False, 'rank': 9, 'rules': [T_MSG],
        'requires': STD_REQ + ', mlive(m.position, old(p).sp_events()), old(p).sp_events().len() > m.position + 1, old(p).sp_level() > 0',
        'ensures': """gstep(old(p), final(p)) /*@C02.doc.grammar-frame*/, plvl_ok(final(p)),
        final(p).sp_level() + 1 >= old(p).sp_level(), r is Err ==> final(p).sp_level() >= old(p).sp_level(),
        """ + CMOK},
    'parse_mapped_key': tag(rank=8),
    'parse_object_or_mapped_type': tag(rank=10, requires=REAL, ensures=CMOK, loops={0: LOOP('m.position')}),
    'is_mapped_type': {'assume': True},
    'parse_typed_field': tag(rank=9, rules=[T_MSG]),
    'parse_tuple_type': tag(rank=10, requires=REAL, ensures=CMOK, loops={0: LOOP('m.position')}),
    'parse_paren_type': tag(rank=10, requires=REAL, ensures=CMOK),
    'parse_literal_type': tag(requires=REAL, ensures=CMOK),
    'parse_name_or_func_type': tag(rank=10, requires=REAL, ensures=CMOK),
    'parse_fun_type': tag(rank=9, rules=[T_MSG], ensures=CMOK, loops={0: LOOP('m.position')}),
    'parse_fun_return_list': tag(rank=23, loops={0: LOOP('m.position')}),
    'parse_fun_return_type': tag(rank=22),
    'parse_typed_param': tag(rank=8, rules=[T_MSG]),
    'parse_name_type': tag(ensures='real_kind(old(p).current_token) ==> ' + CMOK),
    'parse_infer_type': tag(requires=REAL, ensures=CMOK),
    'parse_string_template_type': tag(requires=REAL, ensures=CMOK),
    'parse_vararg_type': tag(requires=REAL, ensures=CMOK),
    'parse_suffixed_type': tag(rank=11, requires='mlive(cm.start, old(p).sp_events())', ensures=CMOK, loops={0: LOOP('cm.start', lvl='>=')}),
    'parse_multi_line_union_type': tag(
        rank=19, requires='old(p).current_token is TkDocContinueOr', ensures=CMOK,
        loops={0: LOOP('m.position', extra='p.current_token is TkDocContinueOr || p.sp_events().len() > m.position + 1')}),
    'parse_one_line_type': tag(rank=17),
    'parse_constructor_type': tag(rank=10, rules=[T_MSG, PUSH_ERR], ensures=CMOK),
}

MUTANTS = []

TRUSTED = []

NOT_COVERED = []

SAMPLES = []
