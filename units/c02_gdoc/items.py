"""contract overlay of unit c02_gdoc: one entry per top-level fn of grammar/doc/{mod,tag,types}.rs that unit c01_doc has not extracted.

Overlay keys are those of units/README.md plus
  'std': bool     add the standard frame contract STD_REQ / STD_ENS (default: the fn has a `p: &mut LuaDocParser` parameter)
  'rank': n       member of the recursive component of the type grammar: `decreases rem(old(p)), n`
  'assume': True  external_body: signature extracted, body replaced (listed in `trusted`)
"""
import re

KD = 'crates/emmylua_parser/src/kind/'
GM = 'crates/emmylua_parser/src/grammar/mod.rs'

STD_REQ = 'gram_pre(old(p))'
EVOK = 'l3::events_ok(old(p).sp_events()) ==> l3::events_ok(final(p).sp_events()) /*@C02.doc.events-ok-preserved*/'
EVOK_SELF = EVOK.replace('(p)', '(self)')
EVOK_INV_P = 'l3::events_ok(old(p).sp_events()) ==> l3::events_ok(p.sp_events()) /*@C02.doc.events-ok-preserved*/'
EVOK_INV_SELF = 'l3::events_ok(old(self).sp_events()) ==> l3::events_ok(self.sp_events()) /*@C02.doc.events-ok-preserved*/'
STD_ENS = 'gram_post(old(p), final(p)) /*@C01.docparser.grammar-keeps-invariant*/,\n        ' + EVOK

# the chaining of driver / marker / grammar steps (lemmas of unit c01_doc, bodies verified there and here) + marker liveness
GB = 'broadcast use {lemma_gstep_ext, lemma_gstep_of_drive, lemma_gstep_of_marker, lemma_gstep_frame, lemma_mlive_mono};'
HIDE = 'hide(dinv); hide(ate); hide(l3::events_ok);'
HIDE_EV = 'hide(l3::events_ok); broadcast use lemma_evok_push;'
HIDE_EV0 = 'hide(l3::events_ok);'      # events_ok is an atom in the query (its quantifier is triggered by every event index otherwise)
B0 = HIDE + '\n' + GB + '\nproof { lemma_anchor(&*p); lemma_gstep_refl(&*p); }'
GL = GB + '\nproof { lemma_anchor(old(p)); }'          # first statement of every loop body (rule ghost-loop-prelude)

DINV_DOC = ('the range of the pending TkEof token starts on a char boundary - needed for `p.current_token_text()` at end of input '
            '(parse_fun_type after `---@overload` / `async` at the end of the comment); TkEof is set by calc_next_current_token (range = [span end, span end)), '
            'eat_current_and_lex_next and re_calc_cast_type (range of the token just eaten / re-lexed kept): re-proved for all driver functions')

DINV_DOC2 = ('while the doc lexer has no reader yet, the pending token is of a kind that does not come out of the lexer (quiet_kind) - needed for '
             '`lexer.lex()` (= `self.reader.as_mut().unwrap()`) on the clone of the lexer in is_mapped_type, called at a pending `[`')

REAL = 'real_kind(old(p).current_token)'
CMOK = 'cm_ok(r, final(p).sp_events()) /*@C02.doc.complete-marker-live*/'


def LOOP(*live, lvl='>', extra=''):
    """invariant of a grammar loop: the frame so far, the open markers are live, the measure decreases"""
    inv = ['gram_pre(old(p))', 'gstep(old(p), p)', 'plvl_ok(p)', 'p.sp_level() %s old(p).sp_level()' % lvl, EVOK_INV_P]
    inv += ['mlive(%s, p.sp_events())' % m for m in live]
    if extra: inv.append(extra.strip().rstrip(','))
    return '\n    invariant\n        ' + ',\n        '.join(inv) + ',\n    decreases rem(p) /*@C02.doc.progress*/\n'


T_MSG = 'doc-t-msg'
PUSH_ERR = 'doc-push-error'

EXTRA_RULES = [
    (T_MSG, r'&\s*t!\((?:[^()]|\((?:[^()]|\([^()]*\))*\))*\)', 'vx_msg()',
     '`&t!(..)` (rust-i18n message lookup; the arguments are string literals, `token`, `p.current_token()`: reads without effect) -> `vx_msg()`, an opaque '
     '&\'static str: the message text is irrelevant to every claimed clause. Everything around it (the error constructor call, its range argument, the return) is kept'),
    (PUSH_ERR, r'\bp\.push_error\(', 'vx_note_error(',
     '`p.push_error(E)` -> `vx_note_error(E)`: LuaDocParser::push_error is `self.lua_parser.errors.push(error)`; `errors` is a field that the struct projection of '
     'LuaParser (unit c01_doc) drops, so on the projected state the call only evaluates and consumes E (E is still evaluated)'),
]

ALLOW = [r'pub struct LuaParseError', r'pub fn vx_msg', r'verifier::external_body']

# ---------------------------------------------------------------------------------------------------------
# extracted types the grammar needs
# ---------------------------------------------------------------------------------------------------------
DERIVE_OP = '#[derive(Clone, Copy, PartialEq, Structural)]'
TYPES = {
    'DocParseResult': {'src': {'file': GM, 'kind': 'type', 'name': 'DocParseResult'}, 'rules': ['vis-pub']},
    'PriorityTable': {'src': {'file': KD + 'mod.rs', 'kind': 'struct', 'name': 'PriorityTable'}},
    'LuaTypeUnaryOperator': {'src': {'file': KD + 'lua_type_operator_kind.rs', 'kind': 'enum', 'name': 'LuaTypeUnaryOperator'}, 'attrs': DERIVE_OP},
    'LuaTypeBinaryOperator': {'src': {'file': KD + 'lua_type_operator_kind.rs', 'kind': 'enum', 'name': 'LuaTypeBinaryOperator'}, 'attrs': DERIVE_OP},
    'LuaTypeTernaryOperator': {'src': {'file': KD + 'lua_type_operator_kind.rs', 'kind': 'enum', 'name': 'LuaTypeTernaryOperator'}},
    'UNARY_TYPE_PRIORITY': {'src': {'file': KD + 'lua_type_operator_kind.rs', 'kind': 'const', 'name': 'UNARY_TYPE_PRIORITY'}},
    'UnaryOperator': {'src': {'file': KD + 'lua_operator_kind.rs', 'kind': 'enum', 'name': 'UnaryOperator'}},
    'BinaryOperator': {'src': {'file': KD + 'lua_operator_kind.rs', 'kind': 'enum', 'name': 'BinaryOperator'}},
    'LuaOpKind': {'src': {'file': KD + 'mod.rs', 'kind': 'enum', 'name': 'LuaOpKind'}},
    'LuaOpKind::to_type_unary_operator': {
        'src': {'file': KD + 'mod.rs', 'kind': 'fn', 'impl': 'LuaOpKind', 'name': 'to_type_unary_operator'}, 'ret': 'r',
        'ensures': '!(r is None) ==> real_kind(kind) /*@C02.doc.operator-tokens-are-real*/'},
    'LuaOpKind::to_parse_binary_operator': {
        'src': {'file': KD + 'mod.rs', 'kind': 'fn', 'impl': 'LuaOpKind', 'name': 'to_parse_binary_operator'}, 'ret': 'r',
        'ensures': '!(r is None) ==> real_kind(kind) /*@C02.doc.operator-tokens-are-real*/'},
}
TYPES_SECTION = [
    '//@@ DocParseResult', '', '//@@ PriorityTable', '', '//@@ LuaTypeUnaryOperator', '', '//@@ LuaTypeBinaryOperator', '', '//@@ LuaTypeTernaryOperator', '',
    '//@@ UNARY_TYPE_PRIORITY', '', '//@@ UnaryOperator', '', '//@@ BinaryOperator', '', '//@@ LuaOpKind', '',
    'impl LuaOpKind {', '    //@@ LuaOpKind::to_type_unary_operator', '    //@@ LuaOpKind::to_parse_binary_operator', '}',
]

# ---------------------------------------------------------------------------------------------------------
# contract extensions of the driver functions of unit c01_doc (same extracted text; see unit.py step 4)
# ---------------------------------------------------------------------------------------------------------
DRIVER_EXT = {
    # C02 / H-EV: l3::events_ok (units/c01_green/iface.rs) is preserved by every driver function (EatToken events carry no parent link)
    'LuaDocParser::init': {'ensures+': EVOK_SELF, 'body_first^': HIDE_EV0},
    'LuaDocParser::calc_next_current_token': {'ensures+': EVOK_SELF, 'body_first^': HIDE_EV0, 'loops+': {0: EVOK_INV_SELF, 1: EVOK_INV_SELF, 2: EVOK_INV_SELF, 3: EVOK_INV_SELF}},
    'LuaDocParser::eat_current_and_lex_next': {'ensures+': EVOK_SELF, 'body_first^': HIDE_EV},
    'LuaDocParser::set_lexer_state': {'ensures+': EVOK_SELF, 'body_first^': HIDE_EV0},
    'LuaDocParser::re_calc_detail': {'ensures+': EVOK_SELF, 'body_first^': HIDE_EV0},
    'LuaDocParser::re_calc_cast_type': {'ensures+': EVOK_SELF, 'body_first^': HIDE_EV0},
    'LuaDocParser::bump_to_end': {'ensures+': EVOK_SELF, 'body_first^': HIDE_EV0},
    'LuaDocParser::parse': {'ensures+': 'l3::events_ok(old(lua_parser).events@) ==> l3::events_ok(final(lua_parser).events@) /*@C02.doc.events-ok-preserved*/',
                            'body_first^': HIDE_EV0},
    'parse_comment': {'ensures+': EVOK, 'body_first^': HIDE_EV0},
    'parse_docs': {'ensures+': EVOK, 'body_first^': HIDE_EV0, 'loops+': {0: EVOK_INV_P, 1: EVOK_INV_P}},
    'parse_description': {'ensures+': EVOK, 'body_first^': HIDE_EV0, 'loops+': {0: EVOK_INV_P}},
    'if_token_bump': {'ensures+': EVOK, 'body_first^': HIDE_EV0},
    # a bump at a real token pushes an event: a node that contains a bumped token is not empty (so `complete` closes it and its
    # CompleteMarker is live)
    'LuaDocParser::bump': {
        'body_first^': HIDE_EV,
        'ensures+': EVOK_SELF + ',\n        real_kind(old(self).current_token) ==> final(self).sp_events().len() > old(self).sp_events().len() /*@C02.doc.bump-pushes-an-event*/'},
    # second strengthening of dinv (quiet_kind): lex_token says where its token comes from; set_current_token_kind may only assign a quiet kind
    # while there is no reader (its two callers assign TkDocConst / TkDocInfer)
    'LuaDocParser::lex_token': {
        'ensures+': 'final(self).lexer.reader is None ==> (t.kind is TkEof || t.kind is TkEndOfLine || t.kind is TkWhitespace || t.kind is TkShebang) /*@C02.doc.unlexed-tokens-are-quiet*/'},
    'LuaDocParser::set_current_token_kind': {
        'requires=': 'dinv(old(self)), real_kind(old(self).current_token), real_kind(kind), old(self).lexer.reader is None ==> quiet_kind(kind)'},
    # the text of the pending token may also be asked for at TkEof (strengthened dinv)
    'LuaDocParser::current_token_text': {
        'requires=': 'dinv(self), !(self.current_token is None)'},
    # set_parser_state is a step
    'LuaDocParser::set_parser_state': {
        'ensures+': 'dinv(old(self)) && !(old(self).current_token is None) ==> gstep(old(self), final(self)) && front(final(self)) == front(old(self)) '
                    '&& final(self).current_token == old(self).current_token',
        'proof+': [(r'self\.state = state;', 'after', 'proof { lemma_gstep_of_state(old(self), &*self); }')]},
}


# ---------------------------------------------------------------------------------------------------------
# the grammar
# ---------------------------------------------------------------------------------------------------------
def tag(**kw):
    """a `parse_tag_*`-like fn: standard contract, result `r`"""
    d = {'ret': 'r'}
    d.update(kw)
    return d


# TERMINATION of the recursion (types.rs + parse_generic_decl_list / parse_generic_param of tag.rs): `decreases rem(old(p)), rank`.
# rem = bytes of the comment span behind the eaten frontier; it never grows (gstep) and shrinks with every bump of a real token.
# A call is allowed either after such a bump (the token kind has just been tested, or expect_token returned Ok) or to a lower rank:
#   23 parse_fun_return_list > 22 parse_fun_return_type > 21 parse_type_list > 20 parse_type > 19 parse_multi_line_union_type
#   > 18 parse_extends_conditional_type > 17 parse_one_line_type > 15 parse_sub_type > 14 parse_simple_type > 13 parse_binary_operator
#   > 12 parse_primary_type > 11 parse_suffixed_type > 10 parse_object_or_mapped_type, parse_tuple_type, parse_paren_type,
#   parse_name_or_func_type, parse_constructor_type > 9 parse_mapped_type, parse_typed_field, parse_fun_type
#   > 8 parse_mapped_key, parse_typed_param, parse_generic_decl_list > 7 parse_generic_param
# e.g. parse_sub_type -> parse_sub_type (same rank) only after the bump of the unary operator token; parse_binary_operator (13) ->
# parse_sub_type (15) only after the bump of the binary operator token; parse_suffixed_type (11) -> parse_type (20) after the bump of `[`.
LVL_SAME = 'final(p).sp_level() == old(p).sp_level()'
COMMA = 'p.current_token() == LuaTokenKind::TkComma'

ITEMS = {
    # ---- grammar/doc/mod.rs ------------------------------------------------------------------------------
    'expect_token': {
        'ret': 'r', 'rules': [T_MSG],
        'ensures': LVL_SAME + """,
        r is Ok ==> old(p).current_token == token,
        r is Ok && real_kind(token) ==> front(final(p)) > front(old(p)) && final(p).sp_events().len() > old(p).sp_events().len() /*@C02.doc.expect-progress*/"""},

    # ---- grammar/doc/tag.rs ------------------------------------------------------------------------------
    'parse_tag': {
        'rules': [PUSH_ERR],
        'loops': {0: """
    invariant
        gram_pre(old(p)), gstep(old(p), p), plvl_ok(p), level == old(p).sp_level(), current_level >= level, """ + EVOK_INV_P + """,
        VERUS_ghost_iter.seq().len() == current_level - level,
        p.sp_level() == current_level - VERUS_ghost_iter.index() /*@C02.doc.recovery-closes-open-nodes*/,
"""}},
    'parse_long_tag': {},
    'parse_tag_detail': tag(),
    'parse_tag_simple': tag(),
    'parse_tag_class': tag(),
    'parse_doc_type_flag': tag(loops={0: LOOP('m.position')}),
    'parse_generic_decl_list': tag(rank=8, loops={0: LOOP('m.position')}),
    'parse_generic_param': tag(rank=7),
    'parse_generic_modifier': {'ret': 'r', 'rules': [T_MSG]},
    'parse_tag_enum': tag(),
    'parse_enum_field_list': tag(loops={0: LOOP('m.position')}),
    'parse_enum_field': tag(),
    'parse_tag_alias': tag(),
    'parse_tag_module': tag(),
    'parse_tag_field': tag(rules=[T_MSG]),
    'parse_tag_type': tag(loops={0: LOOP('m.position')}),
    'parse_tag_param': tag(rules=[T_MSG]),
    'parse_tag_return': tag(loops={0: LOOP('m.position')}),
    'parse_tag_return_overload': tag(loops={0: LOOP('m.position')}),
    'parse_tag_return_cast': tag(),
    'parse_tag_generic': tag(),
    'parse_tag_see': tag(),
    'parse_tag_as': tag(),
    'parse_tag_overload': tag(),
    'parse_tag_cast': tag(loops={0: LOOP('m.position')}),
    'parse_cast_expr': tag(requires=REAL, loops={0: LOOP('cm.start', lvl='>=')}),
    'parse_op_type': tag(),
    'parse_tag_source': tag(),
    'parse_tag_diagnostic': tag(),
    'parse_diagnostic_code_list': tag(loops={0: LOOP('m.position')}),
    'parse_tag_version': tag(loops={0: LOOP('m.position')}),
    'parse_version': tag(),
    'parse_tag_operator': tag(),
    'parse_tag_mapping': tag(),
    'parse_tag_namespace': tag(),
    'parse_tag_using': tag(),
    'parse_tag_meta': tag(),
    'parse_tag_language': tag(),
    'parse_tag_attribute_use': tag(loops={0: LOOP('m.position')}),
    'parse_doc_attribute_use': tag(),
    'parse_attribute_arg_list': tag(loops={0: LOOP('m.position')}),
    'parse_attribute_arg': tag(),
    'parse_tag_call_generic': tag(),
    'parse_tag_schema': tag(),

    # ---- grammar/doc/types.rs ----------------------------------------------------------------------------
    'parse_type': tag(rank=20, ensures=CMOK, loops={0: LOOP('cm.start', lvl='>=')}),
    'parse_extends_conditional_type': {
        'ret': 'r', 'rank': 18, 'rules': [T_MSG, PUSH_ERR],
        'requires': 'mlive(old(cm).start, old(p).sp_events())',
        'ensures': 'r is Ok ==> mlive(final(cm).start, final(p).sp_events()) /*@C02.doc.complete-marker-live*/'},
    'parse_sub_type': tag(rank=15, rules=[T_MSG, PUSH_ERR], ensures=CMOK),
    'parse_binary_operator': {
        'ret': 'r', 'rank': 13, 'rules': [T_MSG, PUSH_ERR],
        'requires': 'mlive(old(cm).start, old(p).sp_events())',
        'ensures': 'r is Ok ==> mlive(final(cm).start, final(p).sp_events()) /*@C02.doc.complete-marker-live*/',
        'loops': {0: LOOP('cm.start', lvl='>=', extra='!(bop is None) ==> real_kind(p.current_token)')}},
    'parse_type_list': tag(rank=21, loops={0: LOOP('m.position')}),
    'parse_simple_type': tag(rank=14, ensures=CMOK),
    'parse_primary_type': tag(rank=12, rules=[T_MSG], ensures=CMOK),
    'parse_mapped_type': {
        'ret': 'r', 'std': False, 'rank': 9, 'rules': [T_MSG],
        'requires': STD_REQ + ', mlive(m.position, old(p).sp_events()), old(p).sp_events().len() > m.position + 1, old(p).sp_level() > 0',
        'ensures': """gstep(old(p), final(p)) /*@C01.docparser.grammar-keeps-invariant*/, plvl_ok(final(p)),
        final(p).sp_level() + 1 >= old(p).sp_level(), r is Err ==> final(p).sp_level() >= old(p).sp_level(),
        """ + EVOK + ',\n        ' + CMOK},
    'parse_mapped_key': tag(rank=8),
    'parse_object_or_mapped_type': tag(rank=10, requires=REAL, ensures=CMOK, loops={0: LOOP('m.position')}),
    'is_mapped_type': {
        'ret': 'r',
        'requires': 'dinv(p), !quiet_kind(p.current_token)',
        'loops': {0: """
    invariant
        lexer.reader is Some, rinv(&lexer.reader->0),
    decreases r_n(&lexer.reader->0) - consumed(&lexer.reader->0) /*@C02.doc.progress*/
"""},
        'proof': [(r'let kind = lexer\.lex\(\);', 'before', 'let ghost lx0 = lexer;\nproof { lemma_rinv(&lx0.reader->0); }'),
                  (r'let kind = lexer\.lex\(\);', 'after', 'proof { lemma_rinv(&lexer.reader->0); }')]},
    'parse_typed_field': tag(rank=9, rules=[T_MSG]),
    'parse_tuple_type': tag(rank=10, requires=REAL, ensures=CMOK, loops={0: LOOP('m.position')}),
    'parse_paren_type': tag(rank=10, requires=REAL, ensures=CMOK),
    'parse_literal_type': tag(requires=REAL, ensures=CMOK),
    'parse_name_or_func_type': tag(rank=10, requires=REAL, ensures=CMOK),
    'parse_fun_type': tag(rank=9, rules=[T_MSG], ensures=CMOK, loops={0: LOOP('m.position')}),
    'parse_fun_return_list': tag(rank=23, loops={0: LOOP('m.position')}),
    'parse_fun_return_type': tag(rank=22),
    'parse_typed_param': tag(rank=8, rules=[T_MSG]),
    'parse_name_type': tag(ensures='real_kind(old(p).current_token) ==> ' + CMOK),
    'parse_infer_type': tag(requires=REAL, ensures=CMOK),
    'parse_string_template_type': tag(requires=REAL, ensures=CMOK),
    'parse_vararg_type': tag(requires=REAL, ensures=CMOK),
    'parse_suffixed_type': tag(rank=11, requires='mlive(cm.start, old(p).sp_events())', ensures=CMOK, loops={0: LOOP('cm.start', lvl='>=')}),
    'parse_multi_line_union_type': tag(
        rank=19, requires='old(p).current_token is TkDocContinueOr', ensures=CMOK,
        loops={0: LOOP('m.position', extra='p.current_token is TkDocContinueOr || p.sp_events().len() > m.position + 1')}),
    'parse_one_line_type': tag(rank=17),
    'parse_constructor_type': tag(rank=10, rules=[T_MSG, PUSH_ERR], ensures=CMOK),
}


def _mut(name, item, pattern, repl, expect):
    return {'name': name, 'item': 'g::' + item if not item.startswith(('CompleteMarker', 'Marker', 'LuaDocParser')) else item, 'pattern': pattern, 'repl': repl, 'expect': expect}


MUTANTS = [
    # ---- (c) loops make progress
    _mut('gdoc-type-list-loop-without-bump', 'parse_type_list', r'(while p\.current_token\(\) == LuaTokenKind::TkComma \{\s*)p\.bump\(\);', r'\1',
         r'g::parse_type_list:decreases-not-satisfied'),
    _mut('gdoc-suffix-generic-without-bump', 'parse_suffixed_type', r'(let m = cm\.precede\(p, LuaSyntaxKind::TypeGeneric\);\s*)p\.bump\(\);', r'\1',
         r'g::parse_suffixed_type:(decreases-not-satisfied|could-not-prove-termination)'),
    _mut('gdoc-attribute-args-comma-not-eaten', 'parse_attribute_arg_list', r'p\.bump\(\); // consume comma', '',
         r'g::parse_attribute_arg_list:decreases-not-satisfied'),
    _mut('gdoc-multi-line-union-without-bump', 'parse_multi_line_union_type', r'(TkDocContinueOr \{\s*)p\.bump\(\);', r'\1',
         r'g::parse_multi_line_union_type:(decreases-not-satisfied|could-not-prove-termination)'),
    _mut('gdoc-mapped-lookahead-ignores-eof', 'is_mapped_type', r'LuaTokenKind::TkEof => return false,', 'LuaTokenKind::TkEof => {}',
         r'g::is_mapped_type:decreases-not-satisfied'),
    # ---- (d) the recursion through the type grammar terminates
    _mut('gdoc-unary-type-without-bump', 'parse_sub_type', r'(let m = p\.mark\(LuaSyntaxKind::TypeUnary\);\s*)p\.bump\(\);', r'\1',
         r'g::parse_sub_type:could-not-prove-termination'),
    _mut('gdoc-binary-type-without-bump', 'parse_binary_operator', r'(let m = cm\.precede\(p, LuaSyntaxKind::TypeBinary\);\s*)p\.bump\(\);', r'\1',
         r'g::parse_binary_operator:(decreases-not-satisfied|could-not-prove-termination)'),
    _mut('gdoc-conditional-type-without-bump', 'parse_extends_conditional_type', r'(let m = cm\.precede\(p, LuaSyntaxKind::TypeConditional\);\s*)p\.bump\(\);', r'\1',
         r'g::parse_extends_conditional_type:could-not-prove-termination'),
    _mut('gdoc-paren-type-without-bump', 'parse_paren_type', r'p\.bump\(\);\s*(let cm = parse_type\(p\)\?;)', r'\1',
         r'g::parse_paren_type:could-not-prove-termination'),
    # ---- (a) marker API preconditions / no panic
    _mut('gdoc-recovery-one-node-end-too-many', 'parse_tag', r'0\.\.\(current_level - level\)', '0..(current_level - level + 1)',
         r'g::parse_tag:'),
    _mut('gdoc-recovery-level-difference-reversed', 'parse_tag', r'0\.\.\(current_level - level\)', '0..(level - current_level)',
         r'g::parse_tag:possible-arithmetic-underflow'),
    _mut('gdoc-precede-on-empty-marker', 'parse_cast_expr', r'let mut cm = m\.complete\(p\);', 'm.complete(p); let mut cm = CompleteMarker::empty();',
         r'g::parse_cast_expr:(invariant-not-satisfied|precondition-not-satisfied)'),
    _mut('gdoc-name-type-at-eof-preceded', 'parse_vararg_type', r'parse_name_type\(p\)\?;\s*Ok\(m\.complete\(p\)\)', 'm.complete(p); parse_name_type(p)',
         r'C02\.doc\.complete-marker-live'),
    _mut('gdoc-infer-kind-eof', 'parse_infer_type', r'set_current_token_kind\(LuaTokenKind::TkDocInfer\)', 'set_current_token_kind(LuaTokenKind::TkEof)',
         r'g::parse_infer_type:precondition-not-satisfied'),
    _mut('gdoc-const-kind-without-name-test', 'parse_generic_modifier', r'p\.current_token\(\) == LuaTokenKind::TkName && p\.current_token_text\(\) == "const"', 'p.current_token_text() == "const"',
         r'g::parse_generic_modifier:precondition-not-satisfied'),
    _mut('gdoc-complete-without-open-node', 'parse_literal_type', r'let m = p\.mark\(LuaSyntaxKind::TypeLiteral\);', 'let m = Marker::new(0);',
         r'g::parse_literal_type:precondition-not-satisfied'),
    # ---- events_ok (C02 / H-EV): precede is the only writer of `parent`
    _mut('gdoc-precede-parent-self', 'CompleteMarker::precede', r'\*parent = m\.position', '*parent = self.start', r'C02\.events-ok-preserved'),
    # ---- driver clauses added by this unit
    _mut('gdoc-trivia-state-assigns-lexer-kind', 'LuaDocParser::set_lexer_state', r'self\.current_token = LuaTokenKind::TkDocTrivia;', 'self.current_token = LuaTokenKind::TkLeftBracket;',
         r'C01\.docparser\.invariant|LuaDocParser::set_lexer_state:'),
]


TRUSTED = [
    'DISCHARGED here (was ASSUMED by unit c01_doc): the frame contract gram_pre / gram_post of parse_tag / parse_long_tag, and the preconditions of every driver / marker '
    'function at every call site in grammar/doc/{mod,tag,types}.rs - with respect to the STRENGTHENED driver invariant of this unit (next entry)',
    'DEVIATION from unit c01_doc (specification, not an assumption): `dinv` is strengthened by two conjuncts, patched into units/c01_doc/driver_spec.rs at assembly time (unit.py step 2): '
    '(1) TkEof arm: the range of the pending TkEof token starts on a char boundary (for current_token_text() at end of input); (2) lexer.reader is None ==> quiet_kind(current_token) '
    '(for the unwrap in LuaDocLexer::lex on the clone in is_mapped_type). ALL driver functions of c01_doc, parse_comment / parse_docs / parse_description / if_token_bump and '
    'LuaDocParser::parse (same top-level contract as in c01_doc, plus events_ok) are re-proved here against the stronger invariant, so this unit subsumes c01_doc; the text '
    '`requires gram_pre(old(p)) ensures gram_post(old(p), final(p))` of parse_tag / parse_long_tag is kept',
    'contract changes of driver functions (same extracted text, re-proved): set_current_token_kind additionally requires `reader is None ==> quiet_kind(kind)` (both callers assign '
    'TkDocConst / TkDocInfer); current_token_text requires only `current_token != None` (was: a real kind); bump ensures that a real token pushes an event; lex_token ensures that a token '
    'produced while there is no reader is TkEof / end of line / whitespace / shebang; set_parser_state ensures a step; every driver function ensures events_ok preservation',
    'marker API: contracts and proof overlay imported from unit c01_parser (Marker::{set_kind,complete,undo}, CompleteMarker::{precede,empty,is_invalid}, mark, push_node_end, with '
    'events_ok), generic over P: MarkerEventContainer, re-proved here with the doc parser\'s ghost interface (prophetic sp_rest)',
    'LuaParseError: opaque external type; syntax_error_from / doc_error_from / clone ASSUMED total (the conversion SourceRange -> rowan TextRange asserts start <= end after truncation to u32: '
    'true for ranges inside a text shorter than 4 GiB, DESIGN.md section 4)',
    'vx_msg() for `&t!(..)` (rule doc-t-msg: rust-i18n lookup ASSUMED total, text irrelevant); vx_note_error(e) for `p.push_error(e)` (rule doc-push-error: writes only the projected-out field '
    'LuaParser.errors)',
    'LuaTypeBinaryOperator::get_priority: ASSUMED total, result unconstrained (`&PRIORITY[*self as usize]`: 7 table entries for 7 variants; Verus cannot take the const slice literal)',
    'LuaDocLexer::clone (derive(Clone)): ASSUMED `result == *self`; PartialEqSpecImpl for the derived PartialEq of LuaTypeUnaryOperator / LuaTypeBinaryOperator (structural equality)',
    'rewrite rules of this unit: doc-t-msg, doc-push-error (error reporting only), ghost-loop-prelude (ghost text only), body-unimplemented (not used: no grammar fn is assumed)',
    'vacuity guards: the precondition gram_pre alone is guarded at parse_tag (and at the base functions); grammar fns whose requires is exactly gram_pre get no guard of their own, fns with '
    'additional requires clauses do',
]

NOT_COVERED = [
    'stack depth: the recursion through the type grammar terminates (decreases rem, rank) but its depth is bounded only by the length of the comment - deep nesting overflows a small '
    'stack (known finding of C02, replay/c02: doc-paren / doc-generic / doc-union-fun)',
    'LuaDocParser::push_error and the content of `errors` (projected out); message texts (t!); which syntax kinds the nodes get and the shape of the tree (only: events_ok, marker '
    'discipline, every byte eaten exactly once)',
    'mark_level is only proved to stay >= its entry value: `complete` of an EMPTY node does not decrement it, so after such a node parse_tag\'s error recovery '
    '(`for _ in 0..(current_level - level) { push_node_end }`) can emit more NodeEnd events than there are open nodes of the tag (by reading: `---@field [...` at the very end of the '
    'input: parse_vararg_type -> parse_name_type at TkEof marks and completes an empty TypeName, then expect_token(`]`) fails). No panic follows in the parser; the tree builder tolerates '
    'unbalanced NodeEnds (finish_node returns on an empty parent stack; c01_green fix_finish). Not a claimed clause; reported as an observation',
    'the composition with unit c01_parser (replacing its external_body shim of LuaDocParser::parse, whose assumed contract - including events_ok preservation - is what this unit proves) is '
    'not mechanised: the precondition gap listed by c01_doc (dtoks_ok: char boundaries of the comment tokens) remains',
    'grammar/doc/test.rs (cfg(test))',
]

SAMPLES = [
    'every grammar fn f(p: &mut LuaDocParser, ..) of grammar/doc/{mod,tag,types}.rs: requires gram_pre(old(p)) ensures gram_post(old(p), final(p)), events_ok(old events) ==> events_ok(final events); '
    'every precondition of bump / set_lexer_state / set_current_token_kind / current_token_text / mark / complete / set_kind / precede / push_node_end proved at every call site',
    'type grammar (parse_type -> parse_sub_type -> parse_simple_type -> parse_primary_type -> ... -> parse_type; parse_fun_type -> parse_generic_decl_list -> parse_generic_param -> parse_type): '
    'decreases rem(old(p)) = span end - eaten frontier, then a rank: every call is made either after a bump of a token known to be real or to a fn of lower rank',
    'every loop: `decreases rem(p)`: each iteration bumps a token whose kind was just tested (`,`, `|`, `[`, `<`, `?`, `.`, an operator token), so the frontier moves',
    'Ok(cm) of a type parser is live (cm_ok): cm.start holds a NodeStart, so `cm.precede(..)` in parse_type / parse_binary_operator / parse_suffixed_type / parse_extends_conditional_type never '
    'reaches unreachable!() - in particular never `precede` on the start: 0 marker that `complete` returns for an empty node',
    'parse_tag: after Err the recovery loop closes exactly current_level - level nodes: no underflow of the difference, mark_level > 0 at every push_node_end',
    'is_mapped_type: the look-ahead works on a clone of the lexer (p is a shared reference: untouched), its reader exists (pending `[` is not a quiet kind), every lex() consumes input until TkEof',
]
