// ---- unit c02_gdoc: specification vocabulary and lemmas of the doc-comment grammar (hand-written SPECIFICATION only) ------
// The standard contract of a grammar fn `f(p: &mut LuaDocParser, ..)` is the frame contract of unit c01_doc
//     requires gram_pre(old(p))      ensures gram_post(old(p), final(p))
// (driver invariant dinv, a token or TkEof pending, mark_level <= #events; on exit the same again, the EatToken ranges appended
// tile exactly [front(entry), front(exit)), the frontier stays inside the span, events only grow with NodeStarts staying
// NodeStarts, mark_level not below its entry value) plus, for C02 / H-EV, preservation of `l3::events_ok`.

/// bytes of the comment span that are not yet eaten: the first component of every termination measure of the doc grammar
/// (`decreases rem(old(p)), <rank>` for the recursion through the type grammar, `decreases rem(p)` for every loop)
pub open spec fn rem(p: &LuaDocParser) -> int { span_hi(p.tokens@) - front(p) }

/// kinds the pending token can have while the doc lexer has never been given a range (`reader` is None): nothing / end of input,
/// an origin token handed through unlexed by `lex_token` (end of line, whitespace, shebang), or one of the kinds that the driver
/// and the grammar assign by hand (set_lexer_state: TkDocTrivia, re_calc_detail: TkDocDetail, set_current_token_kind: TkDocConst /
/// TkDocInfer). Second strengthening of `dinv` in this unit: reader is None ==> quiet_kind(current_token); hence a pending `[`
/// has a reader, which `is_mapped_type` unwraps.
pub open spec fn quiet_kind(k: LuaTokenKind) -> bool {
    k is None || k is TkEof || k is TkEndOfLine || k is TkWhitespace || k is TkShebang
        || k is TkDocTrivia || k is TkDocDetail || k is TkDocConst || k is TkDocInfer
}

/// a live marker position: it holds a `NodeStart` (precondition of Marker::{set_kind, complete, undo}, CompleteMarker::precede)
pub open spec fn mlive(pos: usize, ev: Seq<MarkEvent>) -> bool { pos < ev.len() && ev[pos as int] is NodeStart }

/// the CompleteMarker of a successful parse is live (so that `precede` may be called on it)
pub open spec fn cm_ok(r: Result<CompleteMarker, LuaParseError>, ev: Seq<MarkEvent>) -> bool {
    r is Ok ==> mlive(r->Ok_0.start, ev)
}

/// live markers stay live while events only grow and NodeStarts stay NodeStarts
pub broadcast proof fn lemma_mlive_mono(pos: usize, a: Seq<MarkEvent>, b: Seq<MarkEvent>)
    requires #[trigger] mlive(pos, a), #[trigger] ev_mono(a, b),
    ensures mlive(pos, b),
{
}

/// ANCHOR of the step chains of one function body: the entry state. `lemma_gstep_ext` extends a chain that starts at an anchored
/// state by one more step, so that a body of n calls produces n chained facts gstep(entry, s_i) instead of the n^2 facts that
/// the all-pairs transitivity lemma of unit c01_doc (lemma_gstep_trans) produces. The predicate is `true`; it is opaque only to
/// exist as a trigger term (introduced by `lemma_anchor` at the top of every grammar fn and loop body).
#[verifier::opaque]
pub open spec fn anchor(a: &LuaDocParser) -> bool { true }

pub proof fn lemma_anchor(a: &LuaDocParser)
    ensures anchor(a),
{
    reveal(anchor);
}

pub broadcast proof fn lemma_gstep_ext(a: &LuaDocParser, b: &LuaDocParser, c: &LuaDocParser)
    requires #[trigger] anchor(a), #[trigger] gstep(a, b), #[trigger] gstep(b, c),
    ensures gstep(a, c),
{
    lemma_gstep_trans(a, b, c);
}

/// what a grammar function needs to know of a step, with the definitions of `dinv` and `ate` hidden (their quantifiers -
/// adjacency of the origin tokens, the tiling of the eaten ranges - are instantiated by every sequence index term and make up
/// most of the solver time of a grammar function otherwise): live markers stay live, the span stays the same
pub broadcast proof fn lemma_gstep_frame(a: &LuaDocParser, b: &LuaDocParser)
    requires #[trigger] gstep(a, b),
    ensures ev_mono(a.sp_events(), b.sp_events()), b.tokens@ == a.tokens@, a.sp_events().len() <= b.sp_events().len(),
{
}

/// `set_parser_state` (writes the grammar's own mode flag `state` only) is a step that leaves the frontier alone.
/// (Stated as an implication: the hypothesis is prophetic and cannot be branched on in a proof block.)
#[verifier::prophetic]
pub open spec fn state_step_pre(a: &LuaDocParser, b: &LuaDocParser) -> bool {
    &&& dinv(a) && !(a.current_token is None)
    &&& b.sp_rest() == (Rest { doc: Some(DocRest { state: b.state, ..a.sp_rest().doc->0 }), ..a.sp_rest() })
    &&& b.sp_events() == a.sp_events()
}

pub proof fn lemma_gstep_of_state(a: &LuaDocParser, b: &LuaDocParser)
    ensures
        state_step_pre(a, b) ==> gstep(a, b) && front(b) == front(a) && b.current_token == a.current_token,
{
    if state_step_pre(a, b) {
        assert(b.sp_rest().doc->0.lexer == a.sp_rest().doc->0.lexer);
        assert(b.lexer == a.lexer);
        assert(b.sp_rest().doc->0.tokens == a.sp_rest().doc->0.tokens);
        assert(b.tokens@ == a.tokens@);
        assert(b.sp_rest().doc->0.fin == a.sp_rest().doc->0.fin);
        lemma_tiles_refl(eaten(a.sp_events()), front(a), a.lexer.origin_text.spec_bytes());
        lemma_front_bounds(a);
    }
}

/// the frontier and the span of a state reached by a step: the measure does not grow
pub proof fn lemma_rem_step(a: &LuaDocParser, b: &LuaDocParser)
    requires gstep(a, b),
    ensures 0 <= rem(b) <= rem(a), b.tokens@ == a.tokens@,
{
}
