"""unit c02_gdoc — the EmmyLua doc-comment GRAMMAR under contract (C02: no panic / no hang inside grammar/doc/{mod,tag,types}.rs;
C01: the grammar keeps the driver invariant, i.e. discharges the frame contract gram_pre / gram_post that unit c01_doc only ASSUMES
for `parse_tag` / `parse_long_tag`).

  unit = every item and the template of unit c01_doc (re-verified here on the current text)
         - the two hand-written external_body shims of parse_tag / parse_long_tag (cut out of the template)
         + the marker API with the `events_ok` clauses of unit c01_parser (its contract tables are imported, not copied) and the
           functions of marker.rs the doc grammar needs in addition (Marker::set_kind, CompleteMarker::{precede, empty, is_invalid})
         + EVERY top-level fn of grammar/doc/mod.rs, tag.rs, types.rs that c01_doc has not extracted (items.py); a fn of these files
           without an overlay entry makes the unit UNDECIDED, so a new grammar function cannot escape the proof.

See items.py for the overlay, gspec.rs / gshims.rs for the hand-written specification."""
import copy
import importlib.util
import os
import re

from vc import extract as X
from vc import rustlex as L
from vc import rules as R
from vc.extract import Undecided
from vc.assemble import REPO, VERIF

_here = os.path.dirname(os.path.abspath(__file__))


def _load(path, name):
    spec = importlib.util.spec_from_file_location(name, path)
    mod = importlib.util.module_from_spec(spec)
    spec.loader.exec_module(mod)
    return mod


_doc = _load(os.path.join(VERIF, 'units', 'c01_doc', 'unit.py'), 'c01_doc_unit_for_c02_gdoc')     # registers its rules; loads c01_reader / c01_parser
_ps = _doc._ps                                                                                       # unit c01_parser (marker contracts with events_ok)
_it = _load(os.path.join(_here, 'items.py'), 'c02_gdoc_items')

GDIR = 'crates/emmylua_parser/src/grammar/doc/'
FILES = [GDIR + 'mod.rs', GDIR + 'tag.rs', GDIR + 'types.rs']
IN_BASE = {'parse_comment', 'parse_docs', 'parse_description', 'if_token_bump'}     # extracted and proved by the c01_doc part of this unit


# ---------------------------------------------------------------------------------------------------------
# unit-local rules
# ---------------------------------------------------------------------------------------------------------
@R.rule('body-unimplemented')
def body_unimplemented(text, **_):
    """ASSUMED items only: the body of the fn is replaced by `{ unimplemented!() }` (the fn is `#[verifier::external_body]`: only its
    signature, taken from the repository, and its hand-written contract are used)"""
    sh = X.fn_shape(text)
    return text[:sh.body_open] + '{ unimplemented!() }' + text[sh.body_close + 1:], 1


@R.rule('ghost-loop-prelude')
def ghost_loop_prelude(text, ghost='', **_):
    """ghost text (a `broadcast use` of verified lemmas) inserted as the first statement of every loop body of the fn: Verus checks a
    loop body as a query of its own and does not inherit the enclosing fn's `broadcast use`. Pure insertion of ghost text; every
    executable token is kept."""
    sh = X.fn_shape(text)
    n = 0
    for _, body in sorted(sh.loops, key=lambda x: x[1], reverse=True):
        text = text[:body + 1] + '\n' + ghost + '\n' + text[body + 1:]
        n += 1
    return text, n


def fns_of(repo, rel):
    """names of the top-level fns of a file, in textual order (the cfg(test) module of mod.rs is a `mod` item: skipped)"""
    src = X.read_source(repo, rel)
    toks = L.code_tokens(src)
    out = []
    for a, b in X._top_level_items(src, toks, 0, len(toks)):
        a2 = X._strip_attrs(src, toks, a, b)
        if a2 >= b: continue
        kind, name, _ = X._header(src, toks, a2, b)
        if kind == 'fn': out.append(name)
    return out


def _once(pat, repl, text, what, flags=re.S):
    if len(re.findall(pat, text, flags=flags)) != 1:
        raise Undecided('c02_gdoc: template patch `%s` does not apply exactly once' % what)
    return re.sub(pat, lambda m: repl, text, count=1, flags=flags)


def _param_kind(repo, rel, name):
    it = X.find_item(repo, {'file': rel, 'kind': 'fn', 'name': name})
    sh = X.fn_shape(it.raw)
    ps = it.raw[sh.params[0]:sh.params[1]]
    if re.search(r'\bp\s*:\s*&\s*mut\s+LuaDocParser\b', ps): return 'mut'
    if re.search(r'\bp\s*:\s*&\s*LuaDocParser\b', ps): return 'ref'
    return None


def make_unit():
    repo = os.environ.get('VERIF_REPO', REPO)
    unit = copy.deepcopy({k: v for k, v in _doc.UNIT.items() if k not in ('name', 'dir')})
    items = unit['items']
    tmpl = unit['template_text']

    # ---- 1. the ASSUMED shims of parse_tag / parse_long_tag go
    tmpl = _once(r'/// ASSUMED frame contract of the tag grammar.*?pub fn parse_tag\(p: &mut LuaDocParser\).*?\{ unimplemented!\(\) \}\n.*?'
                 r'pub fn parse_long_tag\(p: &mut LuaDocParser\).*?\{ unimplemented!\(\) \}\n',
                 '// (the ASSUMED shims of parse_tag / parse_long_tag are replaced by the real grammar below)\n', tmpl, 'cut parse_tag shims')

    # ---- 2. the driver invariant, strengthened by two conjuncts (see items.DINV_DOC / DINV_DOC2): driver_spec.rs is read from unit c01_doc and patched
    with open(os.path.join(VERIF, 'units', 'c01_doc', 'driver_spec.rs'), encoding='utf-8') as f:
        dspec = f.read()
    m = re.findall(r'LuaTokenKind::TkEof => lx_done\(l\) && p\.origin_token_index == t\.len\(\) - 1 && rend\(p\.current_token_range\) == span_hi\(t\),', dspec)
    if len(m) != 1:
        raise Undecided('c02_gdoc: the TkEof arm of dinv (units/c01_doc/driver_spec.rs) was not found exactly once')
    dspec = dspec.replace(m[0], m[0][:-1] + '\n            && is_char_boundary(l.origin_text.spec_bytes(), p.current_token_range.start_offset as int), // (c02_gdoc: ' + _it.DINV_DOC + ')')
    h = re.findall(r'pub open spec fn dinv\(p: &LuaDocParser\) -> bool \{\s*let t = p\.tokens@;\s*let l = &p\.lexer;\s*&&& dbase\(p\)\n', dspec)
    if len(h) != 1:
        raise Undecided('c02_gdoc: the head of dinv (units/c01_doc/driver_spec.rs) was not found exactly once')
    dspec = dspec.replace(h[0], h[0] + '    &&& (l.reader is None ==> quiet_kind(p.current_token)) // (c02_gdoc: ' + _it.DINV_DOC2 + ')\n')
    tmpl = _once(r'^[ \t]*//@@include c01_doc/driver_spec\.rs[ \t]*$', '// ---- units/c01_doc/driver_spec.rs (read from that unit on every run) with `dinv` strengthened by the two conjuncts marked (c02_gdoc: ..)\n' + dspec, tmpl,
                 'include driver_spec', flags=re.M)

    # ---- 3. marker API: contracts of unit c01_parser (with events_ok), plus set_kind / precede / empty / is_invalid
    tmpl = _once(r'^//@@ MarkerEventContainer[ \t]*$',
                 '// interface of unit c01_green (events_ok) and the events_ok lemmas of unit c01_parser, verbatim\n'
                 'pub mod l3 {\n    use vstd::prelude::*;\n    use vstd::string::*;\n    use super::*;\n//@@include c01_green/iface.rs\n}\n\n'
                 '//@@include c01_parser/evok.rs\n\n//@@ MarkerEventContainer', tmpl, 'l3 + evok before the trait', flags=re.M)
    tmpl = _once(r'impl Marker \{\s*//@@ Marker::new\s*//@@ Marker::complete\s*//@@ Marker::undo\s*\}\s*//@@ CompleteMarker[ \t]*\n',
                 'impl Marker {\n    //@@ Marker::new\n    //@@ Marker::set_kind\n    //@@ Marker::complete\n    //@@ Marker::undo\n}\n\n'
                 '//@@ CompleteMarker\n\nimpl CompleteMarker {\n    //@@ CompleteMarker::precede\n    //@@ CompleteMarker::empty\n    //@@ CompleteMarker::is_invalid\n}\n',
                 tmpl, 'marker impl blocks')
    pitems = _ps.UNIT['items']
    for k in ('Marker::set_kind', 'Marker::complete', 'Marker::undo', 'CompleteMarker::precede', 'CompleteMarker::empty', 'CompleteMarker::is_invalid'):
        items[k] = copy.deepcopy(pitems[k])
    tm = copy.deepcopy(_ps.TRAIT_METHODS)
    tm['mark']['ensures'] += ',\n            mlive(m.position, final(self).sp_events())'
    items['MarkerEventContainer'] = {
        'src': copy.deepcopy(items['MarkerEventContainer']['src']),
        'rules': ['vis-pub', ('trait-spec-overlay', {'ghost': _doc.TRAIT_GHOST, 'methods': tm})]}

    # ---- 4. contract extensions of driver functions of unit c01_doc (same extracted text, same proof overlay, more clauses)
    for key, ext in _it.DRIVER_EXT.items():
        it = items[key]
        for k, v in ext.items():
            if k == 'ensures+': it['ensures'] = it['ensures'].rstrip().rstrip(',') + ',\n        ' + v
            elif k == 'requires=': it['requires'] = v
            elif k == 'proof+': it['proof'] = list(it.get('proof', [])) + list(v)
            elif k == 'body_first+': it['body_first'] = (it.get('body_first', '') + '\n' + v).strip()
            elif k == 'body_first^': it['body_first'] = (v + '\n' + it.get('body_first', '')).strip()
            elif k == 'loops=': it['loops'] = v
            elif k == 'loops+':
                # one more invariant clause in loops of the base overlay (inserted after the `invariant` keyword)
                for idx, extra in v.items():
                    new, n = re.subn(r'(?<!\w)invariant(?!\w)', 'invariant\n        ' + extra.strip().rstrip(',') + ',', it['loops'][idx], count=1)
                    if n != 1: raise Undecided('c02_gdoc: loop %d of %s has no `invariant` keyword' % (idx, key))
                    it['loops'][idx] = new
            else: raise Undecided('c02_gdoc: unknown driver extension key ' + k)

    # ---- 5. the grammar
    section = ['', '// ' + '-' * 100, '// unit c02_gdoc: the doc-comment grammar (grammar/doc/{mod,tag,types}.rs), extracted', '// ' + '-' * 100,
               '//@@include c02_gdoc/gspec.rs', '']
    for key, cfg in _it.TYPES.items():
        items[key] = copy.deepcopy(cfg)
    section += _it.TYPES_SECTION
    section += ['', '//@@include c02_gdoc/gshims.rs', '']
    proved, assumed = [], []
    for rel in FILES:
        names = [n for n in fns_of(repo, rel) if n not in IN_BASE]
        missing = [n for n in names if n not in _it.ITEMS]
        if missing:
            raise Undecided('c02_gdoc: fns of %s without an entry in units/c02_gdoc/items.py: %s' % (rel, missing))
        for n in names:
            cfg = copy.deepcopy(_it.ITEMS[n])
            pk = _param_kind(repo, rel, n)
            std = cfg.pop('std', pk == 'mut')
            rank = cfg.pop('rank', None)
            assume = cfg.pop('assume', False)
            req = [cfg['requires'].strip().rstrip(',')] if cfg.get('requires') else []
            ens = [cfg['ensures'].strip().rstrip(',')] if cfg.get('ensures') else []
            if std:
                req.insert(0, _it.STD_REQ); ens.insert(0, _it.STD_ENS)
            item = {'src': {'file': rel, 'kind': 'fn', 'name': n}}
            if cfg.get('ret'): item['ret'] = cfg['ret']
            if req: item['requires'] = ',\n        '.join(req)
            if ens: item['ensures'] = ',\n        '.join(ens)
            if assume:
                item['rules'] = ['body-unimplemented']; item['attrs'] = '#[verifier::external_body]'; item['vac'] = False; item['default_rules'] = False
                assumed.append(n)
            else:
                rules = list(cfg.get('rules', []))
                sh = X.fn_shape(X.find_item(repo, item['src']).raw)
                if sh.loops and pk == 'mut':
                    rules.append(('ghost-loop-prelude', {'ghost': _it.GL, 'count': len(sh.loops)}))
                if rules: item['rules'] = rules
                bf = cfg.get('body_first')
                if bf is None and pk == 'mut': bf = _it.B0
                if bf: item['body_first'] = bf
                for k in ('loops', 'proof', 'attrs', 'iter_names', 'extra_sig', 'default_rules', 'vac'):
                    if k in cfg: item[k] = cfg[k]
                if 'attrs' not in item and pk == 'mut': item['attrs'] = '#[verifier::spinoff_prover]'
                # vacuity guard: the precondition `gram_pre(old(p))` alone is guarded once (parse_tag, and the base unit's parse_comment ...);
                # fns with additional requires clauses get their own guard
                if std and not cfg.get('requires') and n != 'parse_tag' and 'vac' not in item: item['vac'] = False
                if cfg.get('decreases'): item['decreases'] = cfg['decreases']
                elif rank is not None: item['decreases'] = 'rem(old(p)), %dint /*@C02.doc.recursion-terminates*/' % rank
                proved.append(n)
            items['g::' + n] = item
            section.append('//@@ g::' + n)
            section.append('')
    tmpl = _once(r'\} // verus!', '\n'.join(section) + '\n} // verus!', tmpl, 'grammar section')

    unit['template_text'] = tmpl
    unit['extra_rules'] = list(unit.get('extra_rules', [])) + list(_it.EXTRA_RULES)
    unit['allow'] = list(unit.get('allow', [])) + list(_it.ALLOW)
    unit['mutants'] = list(unit.get('mutants', [])) + list(_it.MUTANTS)
    unit['trusted'] = [t for t in unit.get('trusted', []) if not t.startswith(('ASSUMED frame contract of the tag grammar', 'PRECONDITIONS of driver functions towards the (unextracted) grammar'))] \
        + list(_it.TRUSTED) + (['ASSUMED in this unit (external_body, signature extracted, body replaced by unimplemented!()): ' + ', '.join(sorted(assumed))] if assumed else [])
    unit['not_covered'] = [t for t in unit.get('not_covered', []) if not t.startswith(('grammar/doc/tag.rs and grammar/doc/types.rs', 'C02 / H-EV for the doc parser', 'LuaDocParser::push_error'))] \
        + list(_it.NOT_COVERED)
    unit['samples'] = list(unit.get('samples', [])) + list(_it.SAMPLES)
    unit['proved_grammar_fns'] = proved
    unit['min_obligations'] = unit.get('min_obligations', 150) + len(proved)
    unit['timeout'] = 1800
    return unit


UNIT = make_unit()
