// ---- unit c02_gdoc: shims of the external items the doc grammar uses (hand-written SPECIFICATION only) ---------------------

/// `parser_error::LuaParseError` (a kind, a message String and a rowan TextRange): opaque here. The doc grammar only constructs
/// error values, clones one, returns them and hands them to `push_error`; no claimed clause speaks about their content.
#[verifier::external_body]
pub struct LuaParseError { _p: () }

impl LuaParseError {
    /// ASSUMED total. (The real fn converts `range` to a rowan TextRange: `TextRange::new((start as u32).into(), (end as u32).into())`,
    /// which asserts start <= end after the truncation to u32 — true for every range inside a text shorter than 4 GiB, the global
    /// input assumption of DESIGN.md §4; every range passed by the doc grammar is `p.current_token_range()` of some state.)
    #[verifier::external_body]
    pub fn syntax_error_from(message: &str, range: SourceRange) -> Self { unimplemented!() }

    /// ASSUMED total (see `syntax_error_from`)
    #[verifier::external_body]
    pub fn doc_error_from(message: &str, range: SourceRange) -> Self { unimplemented!() }
}

impl Clone for LuaParseError {
    /// `#[derive(Clone)]` on a struct of an enum, a String and a TextRange: total
    #[verifier::external_body]
    fn clone(&self) -> Self { unimplemented!() }
}

/// rule `doc-t-msg`: the text produced by the i18n macro `t!(..)` (rust-i18n; its arguments here are string literals,
/// `token`, `p.current_token()`: reads without effect). ASSUMED total; the message text is irrelevant to every claimed clause.
#[verifier::external_body]
pub fn vx_msg() -> &'static str { "" }

/// rule `doc-push-error`: `p.push_error(e)` (= `self.lua_parser.errors.push(e)`) writes only the field `errors` of LuaParser,
/// which the struct projection of unit c01_doc drops; on the projected state it is a no-op that consumes `e`.
pub fn vx_note_error(error: LuaParseError) {}

impl vstd::std_specs::cmp::PartialEqSpecImpl for LuaTypeUnaryOperator {
    open spec fn obeys_eq_spec() -> bool { true }
    open spec fn eq_spec(&self, other: &LuaTypeUnaryOperator) -> bool { *self == *other }
}

impl vstd::std_specs::cmp::PartialEqSpecImpl for LuaTypeBinaryOperator {
    open spec fn obeys_eq_spec() -> bool { true }
    open spec fn eq_spec(&self, other: &LuaTypeBinaryOperator) -> bool { *self == *other }
}

impl LuaTypeBinaryOperator {
    /// `&PRIORITY[*self as usize]` (kind/lua_type_operator_kind.rs): ASSUMED total — PRIORITY is a const slice of 7 entries and the
    /// enum has 7 field-less variants with default discriminants 0..=6, so the index is in bounds (Verus cannot take a const
    /// slice literal: `array_as_slice` in a const). Result unconstrained: the grammar only compares `.left` with its `limit`
    /// and passes `.right` on as a `limit`.
    #[verifier::external_body]
    pub fn get_priority(&self) -> &PriorityTable { unimplemented!() }
}

impl<'a> Clone for LuaDocLexer<'a> {
    /// `#[derive(Clone)]` (lexer/lua_doc_lexer.rs; `Reader` derives Clone too, its fields are &str, SourceRange, Chars, char, usize):
    /// the copy equals the original
    #[verifier::external_body]
    fn clone(&self) -> (r: Self)
        ensures r == *self,
    { unimplemented!() }
}
