"""A small implementation of `macro_rules!` matching and transcription, for the subset the two dispatch macros of emmylua_ls use:
ONE rule; matcher built from literal tokens, `{..}` / `(..)` / `[..]` groups, `$name:expr` / `$name:ty` fragments and ONE level of
`$( .. ) sep? op` repetition; fragments are accepted only when they are a single identifier (an `expr` / `ty` fragment that is one
identifier needs no grouping, so textual substitution is exact); transcriber with the same metavariables and one level of repetition.
Anything else raises Undecided. Used by rule `c24-macro-expand` (unit.py)."""
from vc import rustlex as L
from vc.extract import Undecided


def T_(text, toks):
    return lambda i: L.tok_text(text, toks[i]) if 0 <= i < len(toks) else ''


def norm(text, toks, a, b):
    return ' '.join(L.tok_text(text, toks[k]) for k in range(a, b))


def parse_matcher(text, toks, a, b, depth=0):
    T = T_(text, toks)
    out, k = [], a
    while k < b:
        t = T(k)
        if t == '$':
            if T(k + 1) == '(':
                if depth:
                    raise Undecided('macro_rules: nested repetition in the matcher')
                gc = L.match_close(text, toks, k + 1)
                body = parse_matcher(text, toks, k + 2, gc, 1)
                if T(gc + 1) in ('*', '+', '?'):
                    sep, op, k2 = None, T(gc + 1), gc + 2
                elif T(gc + 2) in ('*', '+'):
                    sep, op, k2 = T(gc + 1), T(gc + 2), gc + 3
                else:
                    raise Undecided('macro_rules: `$( .. )` without a repetition operator in the matcher')
                out.append(('rep', body, sep, op))
                k = k2
                continue
            if toks[k + 1][0] != 'ident' or T(k + 2) != ':' or T(k + 3) not in ('expr', 'ty'):
                raise Undecided('macro_rules: unsupported fragment `$%s:%s`' % (T(k + 1), T(k + 3)))
            out.append(('var', T(k + 1), T(k + 3)))
            k += 4
            continue
        if t in ('(', '[', '{'):
            c = L.match_close(text, toks, k)
            out.append(('group', t, parse_matcher(text, toks, k + 1, c, depth)))
            k = c + 1
            continue
        out.append(('lit', t))
        k += 1
    return out


def _vars(elems):
    s = []
    for e in elems:
        if e[0] == 'var': s.append(e[1])
        elif e[0] == 'group': s += _vars(e[2])
    return s


def _match(elems, text, toks, pos, end, env):
    """match `elems` against toks[pos:end]; returns the position after the match or None. Bindings go to env (depth 0: name -> (value,
    frag); repetitions: frozenset(names) -> [dict])."""
    T = T_(text, toks)
    for idx, e in enumerate(elems):
        if e[0] == 'lit':
            if pos >= end or T(pos) != e[1]:
                return None
            pos += 1
        elif e[0] == 'var':
            if pos >= end or toks[pos][0] != 'ident':
                return None
            env[e[1]] = (T(pos), e[2])
            pos += 1
        elif e[0] == 'group':
            if pos >= end or T(pos) != e[1]:
                return None
            c = L.match_close(text, toks, pos)
            if c >= end:
                return None
            if _match(e[2], text, toks, pos + 1, c, env) != c:
                return None
            pos = c + 1
        else:
            _, body, sep, op = e
            key = frozenset(_vars(body))
            reps = []
            while True:
                start = pos
                if reps and sep is not None:
                    if T(pos) != sep:
                        break
                    start = pos + 1
                sub = {}
                p2 = _match(body, text, toks, start, end, sub)
                if p2 is None or p2 == start and not body:
                    break
                if p2 == start:
                    break
                reps.append({k: v for k, v in sub.items()})
                pos = p2
                if op == '?':
                    break
            if op == '+' and not reps:
                return None
            if key:
                if key in env:
                    raise Undecided('macro_rules: two repetitions bind the same metavariables')
                env[key] = reps
    return pos


class Macro:
    pass


def find_macro(text, name):
    """the single-rule `macro_rules! name { (MATCHER) => { TRANSCRIBER } }` in `text`, and its statement invocations `name!( .. );`"""
    toks = L.code_tokens(text)
    T = T_(text, toks)
    d = None
    for i in range(len(toks) - 3):
        if T(i) == 'macro_rules' and T(i + 1) == '!' and T(i + 2) == name and T(i + 3) == '{':
            if d is not None:
                raise Undecided('macro_rules: macro %s is defined twice' % name)
            d = i
    if d is None:
        raise Undecided('macro_rules: no `macro_rules! %s` in the text' % name)
    dc = L.match_close(text, toks, d + 3)
    k = d + 4
    if T(k) != '(':
        raise Undecided('macro_rules: the rule of %s does not start with a parenthesised matcher' % name)
    mc = L.match_close(text, toks, k)
    if not (T(mc + 1) == '=' and T(mc + 2) == '>' and T(mc + 3) == '{'):
        raise Undecided('macro_rules: `=> {` expected after the matcher of %s' % name)
    tc = L.match_close(text, toks, mc + 3)
    if [T(j) for j in range(tc + 1, dc)] not in ([], [';']):
        raise Undecided('macro_rules: %s has more than one rule' % name)
    m = Macro()
    m.text, m.toks, m.name = text, toks, name
    m.def_span = (toks[d][1], toks[dc][2])
    m.matcher_norm = norm(text, toks, k + 1, mc)
    m.matcher = parse_matcher(text, toks, k + 1, mc)
    m.trans = (mc + 4, tc)
    m.invocations = []
    for i in range(len(toks) - 2):
        if T(i) == name and T(i + 1) == '!' and T(i + 2) == '(' and T(i - 1) != '!':
            pc = L.match_close(text, toks, i + 2)
            if T(pc + 1) != ';':
                raise Undecided('macro_rules: the invocation of %s is not a statement `%s!(..);`' % (name, name))
            env = {}
            if _match(m.matcher, text, toks, i + 3, pc, env) != pc:
                raise Undecided('macro_rules: the invocation of %s does not match its matcher with single-identifier fragments' % name)
            m.invocations.append(((toks[i][1], toks[pc + 1][2]), env))
    if not m.invocations:
        raise Undecided('macro_rules: macro %s is never invoked' % name)
    return m


def _transcribe(m, a, b, env, reps):
    """transcription of toks[a:b]; `env`: name -> value for the metavariables usable at this depth; `reps`: the repetition bindings
    (None inside a repetition)."""
    text, toks = m.text, m.toks
    T = T_(text, toks)
    out = []
    pos = toks[a][1] if a < b else 0
    k = a
    while k < b:
        if T(k) == '$':
            out.append(text[pos:toks[k][1]])
            if T(k + 1) == '(':
                if reps is None:
                    raise Undecided('macro_rules: nested repetition in the transcriber')
                gc = L.match_close(text, toks, k + 1)
                if T(gc + 1) in ('*', '+', '?'):
                    sep, after = '', gc + 2
                elif T(gc + 2) in ('*', '+'):
                    sep, after = T(gc + 1), gc + 3
                else:
                    raise Undecided('macro_rules: `$( .. )` without a repetition operator in the transcriber')
                used = {T(j + 1) for j in range(k + 2, gc) if T(j) == '$'}
                keys = [key for key in reps if used & key]
                if len(keys) != 1 or not (used - set(env)) <= keys[0]:
                    raise Undecided('macro_rules: a transcriber repetition must use the metavariables of exactly one matcher repetition')
                parts = []
                for arm in reps[keys[0]]:
                    e2 = dict(env)
                    e2.update({n: v[0] for n, v in arm.items()})
                    parts.append(text[toks[k + 1][2]:toks[k + 2][1]] + _transcribe(m, k + 2, gc, e2, None) + text[toks[gc - 1][2]:toks[gc][1]])
                out.append(sep.join(parts))
                pos = toks[after - 1][2]
                k = after
                continue
            name = T(k + 1)
            if toks[k + 1][0] != 'ident' or name not in env:
                raise Undecided('macro_rules: `$%s` in the transcriber is not a metavariable usable at this depth' % name)
            out.append(env[name])
            pos = toks[k + 1][2]
            k += 2
            continue
        k += 1
    out.append(text[pos:toks[b - 1][2]] if b > a else '')
    return ''.join(out)


def expand(text, name, expected_matcher=None):
    """-> (text with every `name!(..);` replaced by its expansion and the definition removed, number of invocations)"""
    m = find_macro(text, name)
    if expected_matcher is not None and m.matcher_norm != expected_matcher:
        raise Undecided('c24-macro-expand: the matcher of %s changed shape: %s' % (name, m.matcher_norm))
    toks = m.toks
    T = T_(text, toks)
    a, b = m.trans
    body_idents = {T(k) for k in range(a, b) if toks[k][0] == 'ident' and T(k - 1) != '$'}
    edits = [(m.def_span[0], m.def_span[1], '')]
    for span, env in m.invocations:
        top = {n: v[0] for n, v in env.items() if isinstance(n, str)}
        reps = {n: v for n, v in env.items() if not isinstance(n, str)}
        exprs = {v[0] for n, v in env.items() if isinstance(n, str) and v[1] == 'expr'}
        for arms in reps.values():
            for arm in arms:
                exprs |= {v[0] for v in arm.values() if v[1] == 'expr'}
        clash = body_idents & exprs
        if clash:
            raise Undecided('c24-macro-expand: transcriber identifier(s) %s equal a substituted expr fragment (hygiene)' % sorted(clash))
        exp = _transcribe(m, a, b, top, reps)
        edits.append((span[0], span[1], exp.strip() + ';'))
    for s, e, new in sorted(edits, reverse=True):
        text = text[:s] + new + text[e:]
    return text, len(m.invocations)


def table(text, name):
    """the bindings of the single invocation: (top-level {name: value}, {frozenset(names): [ {name: value} ]})"""
    m = find_macro(text, name)
    if len(m.invocations) != 1:
        raise Undecided('macro %s is invoked %d times' % (name, len(m.invocations)))
    env = m.invocations[0][1]
    return ({n: v[0] for n, v in env.items() if isinstance(n, str)},
            {n: [{k: v[0] for k, v in arm.items()} for arm in arms] for n, arms in env.items() if not isinstance(n, str)})
