"""unit c24_dispatch — C24 "every client request gets exactly one response": the ROUTING layer of emmylua_ls.

  * `on_request_handler` (handlers/request_handler.rs): one `dispatch_request!` invocation. The macro is expanded MECHANICALLY by
    rule `c24-macro-expand`, an implementation of this `macro_rules!` definition (the definition is read from the repository on
    every run; the rule refuses — Undecided — when the matcher changes shape or the transcriber uses anything but the four
    metavariables and one-level repetition).
  * `on_notification_handler` + `handle_cancel` (handlers/notification_handler.rs): one `dispatch_notification!` invocation, same rule
  * the queueing path: `LspServer::{wait_for_initialization, run}` (server/lsp_server.rs), `ServerMessageProcessor::{can_process_during_init,
    check_initialization_complete, process_message, process_pending_messages, handle_message}` (server/message_processor.rs); every OTHER
    method of these two impls becomes a generated shim without contract (`_havoc`), so that a new method which touches the queue breaks
    the callers' invariants (exit 1) instead of making the unit undecided
  * `ServerContext::{task, send, cancel, snapshot}` (context/mod.rs)
  * the `initialize` handshake: a slice of `run_ls` (server/mod.rs)
  * `ServerMessageProcessor::handle_message` (server/message_processor.rs): what an `Err` of the dispatcher would do

Verus verifies sequential code. As in unit c36_channel the async text is verified in its SEQUENTIAL SCHEDULE (rule family `async-seq`,
the three rules `async-seq-fn`, `async-seq-await`, `async-seq-spawn` are c36_channel's, loaded from its unit.py): a spawned task runs
its body to completion, exactly once, at the spawn point. The state shared behind `&self` (the client connection's channel and the
`cancellations` mutex) becomes the explicit ghost parameter `st` (rule `c24-shared-state`): `st.sent` is the log of every message
handed to a sender of the connection. What is proved is therefore WHICH responses are sent, not when."""
import glob
import importlib.util
import os
import re

from vc import extract as X
from vc import rustlex as L
from vc.assemble import REPO, VERIF
from vc.extract import Undecided
from vc.rules import rule

LS = 'crates/emmylua_ls/src/'
RH = LS + 'handlers/request_handler.rs'
NH = LS + 'handlers/notification_handler.rs'
LSRV = LS + 'server/lsp_server.rs'
CTX = LS + 'context/mod.rs'
SRV = LS + 'server/mod.rs'
MP = LS + 'server/message_processor.rs'
CONN = LS + 'server/connection.rs'

# rule family async-seq: ONE definition (unit c36_channel's); loading its unit.py registers the rules in the catalogue
_spec = importlib.util.spec_from_file_location('unit_c36_channel_for_c24', os.path.join(VERIF, 'units', 'c36_channel', 'unit.py'))
_c36 = importlib.util.module_from_spec(_spec)
_spec.loader.exec_module(_c36)


def _T(text, toks):
    return lambda i: L.tok_text(text, toks[i]) if 0 <= i < len(toks) else ''


def _norm(text, toks, a, b):
    return ' '.join(L.tok_text(text, toks[k]) for k in range(a, b))


# ---------------------------------------------------------------------------------------------
# rule c24-macro-expand: an implementation of the two dispatch macros' `macro_rules!` definitions (mrules.py)
# ---------------------------------------------------------------------------------------------
_ms = importlib.util.spec_from_file_location('c24_mrules', os.path.join(os.path.dirname(os.path.abspath(__file__)), 'mrules.py'))
M = importlib.util.module_from_spec(_ms)
_ms.loader.exec_module(M)

MATCHERS = {
    'dispatch_request': '$ request : expr , $ context : expr , { $ ( $ req_type : ty = > $ handler : expr ) , * $ ( , ) ? }',
    'dispatch_notification': '$ notification : expr , $ context : expr , { sync : { $ ( $ sync_notif : ty = > $ sync_handler : expr ) , * $ ( , ) ? } '
                             'async : { $ ( $ async_notif : ty = > $ async_handler : expr ) , * $ ( , ) ? } }',
}


@rule('c24-macro-expand')
def c24_macro_expand(text, name='dispatch_request', **_):
    """`m!(ARGS);` -> the transcription of the macro's single rule, computed from the `macro_rules! m` definition in the text (the
    repository's) by mrules.py: the arguments are matched against the matcher (literal tokens, `{..}` groups, `$x:expr` / `$x:ty`
    fragments, `$( .. ),*` and `$(,)?` repetitions), the transcriber is copied with every `$x` replaced by its fragment and every
    `$( .. )*` group repeated once per binding of the repetition whose metavariables it uses; the definition itself is then removed.
    This is macro_rules semantics for the subset used here: ONE rule whose matcher is literally the one recorded in MATCHERS (otherwise
    Undecided), fragments that are single identifiers (such an `expr` / `ty` fragment needs no grouping), one level of repetition.
    Hygiene: macro-local `let` / closure bindings cannot capture call-site identifiers; the rule checks that no identifier of the
    transcriber equals a substituted `expr` identifier, so textual substitution and hygienic expansion coincide. `return` / `?` inside
    the expansion leave the invoking fn (a macro is not a fn). The statement `m!(..);` becomes `EXPANSION;`."""
    return M.expand(text, name, MATCHERS[name])


# ---------------------------------------------------------------------------------------------
# other unit-local rules
# ---------------------------------------------------------------------------------------------
@rule('c24-match-const-chain')
def match_const_chain(text, **_):
    """`match E { P1 => B1 .. Pn => Bn  x => B }` with path patterns Pi naming constants (`<T>::METHOD`, `T::METHOD`), block bodies, no guards and
    a final identifier pattern -> `{ let x = E; if x == P1 B1 else if x == P2 B2 .. else B };`. Rust reference, path patterns: a
    constant pattern matches when the scrutinee is (structurally) equal to the constant's value; for `&str` both that and `==` are
    string equality; arms are tried in order, the first match wins; the identifier pattern binds the scrutinee. `x` is bound in front
    of the chain: the rule checks that `x` does not occur in B1..Bn, and the block scopes it. (Verus: associated constants in
    patterns are not supported.)"""
    toks = L.code_tokens(text)
    T = _T(text, toks)
    n = 0
    for i in range(len(toks)):
        if not (toks[i][0] == 'ident' and T(i) == 'match'):
            continue
        j = i + 1
        while j < len(toks) and T(j) != '{':
            if T(j) in ('(', '['):
                j = L.match_close(text, toks, j)
            j += 1
        bo, bc = j, L.match_close(text, toks, j)
        if not ((T(bo + 1) == '<' and T(bo + 4) == ':') or (toks[bo + 1][0] == 'ident' and T(bo + 2) == ':' and T(bo + 3) == ':')):
            continue                      # another match: its first pattern is not a path to a constant
        scrut = text[toks[i + 1][1]:toks[bo - 1][2]]
        arms = []
        k = bo + 1
        while k < bc:
            p0 = k
            while not (T(k) == '=' and T(k + 1) == '>'):
                if T(k) in ('{', '(', '[') or k >= bc:
                    raise Undecided('c24-match-const-chain: unexpected pattern')
                k += 1
            pat = (p0, k)
            k += 2
            if T(k) != '{':
                raise Undecided('c24-match-const-chain: an arm body is not a block')
            ec = L.match_close(text, toks, k)
            arms.append((pat, (k, ec)))
            k = ec + 1
            if T(k) == ',':
                k += 1
        (lp0, lp1), last_body = arms[-1]
        if lp1 - lp0 != 1 or toks[lp0][0] != 'ident':
            raise Undecided('c24-match-const-chain: the last arm is not an identifier pattern')
        x = T(lp0)
        chain = []
        for (p0, p1), (b0, b1) in arms[:-1]:
            pt = _norm(text, toks, p0, p1)
            if not re.fullmatch(r'(?:< \w+ >|\w+) : : [A-Z_]+', pt):
                raise Undecided('c24-match-const-chain: pattern `%s` is not an associated constant' % pt)
            if any(toks[q][0] == 'ident' and T(q) == x for q in range(b0, b1)):
                raise Undecided('c24-match-const-chain: `%s` occurs in an earlier arm' % x)
            chain.append('if %s == %s %s' % (x, text[toks[p0][1]:toks[p1 - 1][2]], text[toks[b0][1]:toks[b1][2]]))
        chain.append(text[toks[last_body[0]][1]:toks[last_body[1]][2]])
        new = '{ let %s = %s;\n        %s }' % (x, scrut, '\n        else '.join(chain))
        text = text[:toks[i][1]] + new + text[toks[bc][2]:]
        n += 1
        break
    return text, n


@rule('async-seq-closure')
def async_seq_closure(text, **_):
    """async-seq (a3): `|args| async move { BODY }` -> `|args| { BODY }`. A closure that returns an async block returns a future whose
    only observable behaviour, once awaited to completion, is that of BODY; in the sequential schedule the future is its output, so the
    closure returns BODY's value (the callee's `Fut: Future<Output = T>` parameter becomes `T`, rule `async-seq-future-param`).
    `move`: the block owns what it captures; a Verus closure captures by value whatever BODY uses by value."""
    toks = L.code_tokens(text)
    T = _T(text, toks)
    cuts = []
    for i in range(1, len(toks) - 2):
        if T(i) == 'async' and T(i + 1) == 'move' and T(i + 2) == '{' and T(i - 1) == '|':
            cuts.append((toks[i][1], toks[i + 2][1]))
    for a, b in reversed(cuts):
        text = text[:a] + text[b:]
    return text, len(cuts)


@rule('c24-no-async-left')
def c24_no_async_left(text, **_):
    """check only (changes nothing): after the async-seq rules no `async` / `.await` is left in the item — every suspension point and every
    async block of the text has been given its sequential meaning by a named rule."""
    toks = L.code_tokens(text)
    for t in toks:
        if t[0] == 'ident' and L.tok_text(text, t) in ('async', 'await'):
            raise Undecided('c24-no-async-left: `%s` remains at offset %d' % (L.tok_text(text, t), t[1]))
    return text, 1


@rule('async-seq-future-param')
def async_seq_future_param(text, **_):
    """async-seq (a4): `fn f<F, Fut>(..) where F: FnOnce(A) -> Fut + B, Fut: Future<Output = T> + B'` -> `fn f<F>(..) where
    F: FnOnce(A) -> T + B`: in the sequential schedule a future is awaited to completion where it is created, i.e. it is its output."""
    m = re.search(r'\bFut: Future<Output = ((?:[^<>]|<[^<>]*>)*)>[^,{]*,\s*', text)
    if not m:
        return text, 0
    out_ty = m.group(1)
    text = text[:m.start()] + text[m.end():]
    text, n1 = re.subn(r'<F, Fut>', '<F>', text, count=1)
    text, n2 = re.subn(r'-> Fut\b', '-> ' + out_ty, text)
    if n1 != 1 or n2 != 1 or re.search(r'\bFut\b', text):
        raise Undecided('async-seq-future-param: unexpected use of the future type parameter')
    return text, 1


@rule('c24-shared-state')
def c24_shared_state(text, calls=(), callees=(), **_):
    """state-passing form of the state shared behind `&self` (same technique as c36_channel's `async-seq-chan`): the log of the client
    connection's channel and the contents of the `cancellations` mutex become the explicit ghost parameter `st`. `st` is appended to
    the method calls `V.m(..)` for the listed (V, m) pairs — V is the last identifier of the receiver path —, to the calls of the
    listed free fns `callees`, and to nothing else."""
    n = 0
    while True:
        toks = L.code_tokens(text)
        T = _T(text, toks)
        hit = None
        for i in range(2, len(toks) - 1):
            if toks[i][0] != 'ident' or T(i + 1) != '(':
                continue
            if T(i - 1) == '.':
                if (T(i - 2), T(i)) not in calls:
                    continue
            elif not (T(i) in callees and T(i - 1) not in ('fn', ':')):
                continue
            c = L.match_close(text, toks, i + 1)
            if T(c - 1) == 'st':
                continue
            if T(c - 1) == ',':
                hit = (toks[c - 1][2], toks[c][1], ' st')
            else:
                hit = (toks[c][1], toks[c][1], 'st' if c == i + 2 else ', st')
            break
        if not hit:
            break
        text = text[:hit[0]] + hit[2] + text[hit[1]:]
        n += 1
    return text, n


@rule('c24-ghost-param')
def c24_ghost_param(text, **_):
    """callee side of `c24-shared-state`: the fn takes the shared state as a last parameter `st: &mut Shared` (specification only)."""
    sh = X.fn_shape(text)
    a, b = sh.params
    inner = text[a + 1:b - 1].rstrip()
    if inner.endswith(','):
        new = inner + ' st: &mut Shared'
    elif inner.strip():
        new = inner + ', st: &mut Shared'
    else:
        new = 'st: &mut Shared'
    return text[:a + 1] + new + text[b - 1:], 1


@rule('c24-matches-str-or')
def c24_matches_str_or(text, **_):
    """`matches!(E, "a" | "b" | ..)` with string-literal alternatives -> `{ let vx_m = E; vx_m == "a" || vx_m == "b" .. }` (std: `matches!` is
    `match E { P => true, _ => false }`; a string literal pattern matches a `&str` scrutinee exactly when the strings are equal)."""
    n = 0
    while True:
        toks = L.code_tokens(text)
        T = _T(text, toks)
        hit = None
        for i in range(len(toks) - 2):
            if T(i) == 'matches' and T(i + 1) == '!' and T(i + 2) == '(':
                c = L.match_close(text, toks, i + 2)
                k = i + 3
                while k < c and T(k) != ',':
                    if T(k) in ('(', '[', '{'):
                        k = L.match_close(text, toks, k)
                    k += 1
                pats = [j for j in range(k + 1, c) if T(j) != '|']
                if k >= c or not pats or any(toks[j][0] != 'str' for j in pats):
                    raise Undecided('c24-matches-str-or: not `matches!(E, "a" | "b")`')
                e = text[toks[i + 3][1]:toks[k - 1][2]]
                hit = (toks[i][1], toks[c][2], '{ let vx_m = %s; %s }' % (e, ' || '.join('vx_m == %s' % T(j) for j in pats)))
                break
        if not hit:
            break
        text = text[:hit[0]] + hit[2] + text[hit[1]:]
        n += 1
    return text, n


@rule('c24-mut-self-local')
def c24_mut_self_local(text, **_):
    """`fn f(mut self, ..) { BODY }` -> `fn f(self, ..) { let mut vx_self = self; BODY[self := vx_self] }`: a `mut` by-value parameter is a
    mutable local initialised with the argument; naming that local differently changes nothing. (Verus: `mut self` is not supported.)"""
    sh = X.fn_shape(text)
    toks = L.code_tokens(text)
    T = _T(text, toks)
    idx = [i for i in range(len(toks)) if toks[i][0] == 'ident' and T(i) == 'self']
    first = next((i for i in idx if sh.params[0] <= toks[i][1] < sh.params[1]), None)
    if first is None or T(first - 1) != 'mut' or T(first - 2) == '&':
        return text, 0
    edits = [(toks[first - 1][1], toks[first][2], 'self'), (sh.body_open + 1, sh.body_open + 1, '\n        let mut vx_self = self;')]
    for i in idx:
        if toks[i][1] > sh.body_open:
            edits.append((toks[i][1], toks[i][2], 'vx_self'))
    for a, b, new in sorted(edits, reverse=True):
        text = text[:a] + new + text[b:]
    return text, 1


@rule('c24-json-opaque')
def c24_json_opaque(text, **_):
    """`serde_json::json!({ .. })` -> `vx_json_value()`: the VALUE of the initialize result (capabilities, server name and version) is
    opaque; building it from Serialize values that serde_json can represent does not panic (the same value is built on every start)."""
    toks = L.code_tokens(text)
    T = _T(text, toks)
    for i in range(len(toks) - 5):
        if T(i) == 'serde_json' and T(i + 1) == ':' and T(i + 2) == ':' and T(i + 3) == 'json' and T(i + 4) == '!' and T(i + 5) == '(':
            c = L.match_close(text, toks, i + 5)
            return text[:toks[i][1]] + 'vx_json_value()' + text[toks[c][2]:], 1
    return text, 0


# ---------------------------------------------------------------------------------------------
# the routing table (read from the repository at load time): generated SHIMS + the spec fn `route`
# ---------------------------------------------------------------------------------------------
def _method_strings(names):
    """METHOD of every request type of the table: lsp_types (vendored crate source) or the repository (emmy/* requests)"""
    files = glob.glob(os.path.expanduser('~/.cargo/registry/src/*/emmy_lsp_types-0.1.0/src/**/*.rs'), recursive=True)
    files += glob.glob(os.path.join(REPO, LS, 'handlers', '**', '*.rs'), recursive=True)
    found = {}
    for f in sorted(files):
        try:
            src = open(f, encoding='utf-8').read()
        except OSError:
            continue
        for m in re.finditer(r'impl\s+(?:\w+::)*(?:Request|LspRequest|Notification|LspNotification)\s+for\s+(\w+)\s*\{[^{}]*?const\s+METHOD\s*:\s*&\'static\s+str\s*=\s*("[^"\\]*")\s*;', src):
            if m.group(1) in names:
                if found.get(m.group(1), m.group(2)) != m.group(2):
                    raise Undecided('two METHOD strings for %s' % m.group(1))
                found[m.group(1)] = m.group(2)
    missing = [n for n in names if n not in found]
    if missing:
        raise Undecided('METHOD string not found for request type(s) %s' % missing)
    return found


def _load():
    src = X.read_source(REPO, RH)
    fn = X.find_item(REPO, {'file': RH, 'kind': 'fn', 'name': 'on_request_handler'})
    sh = X.fn_shape(fn.raw)
    head = fn.raw[:sh.sig_end]
    body = fn.raw[sh.body_open + 1:sh.body_close]
    _, reps = M.table(fn.raw + '\n' + X.find_item(REPO, {'file': RH, 'kind': 'macro_rules', 'name': '!'}).raw, 'dispatch_request')
    arms = [(arm['req_type'], arm['handler']) for arm in reps[frozenset(('req_type', 'handler'))]]
    if len({t for t, _ in arms}) != len(arms) or len({h for _, h in arms}) != len(arms):
        raise Undecided('a request type or a handler occurs twice in the routing table')
    return head, body, arms


_HEAD, _BODY, ARMS = _load()


def _load_notifications():
    fn = X.find_item(REPO, {'file': NH, 'kind': 'fn', 'name': 'on_notification_handler'})
    sh = X.fn_shape(fn.raw)
    mac = X.find_item(REPO, {'file': NH, 'kind': 'macro_rules', 'name': '!'}).raw
    _, reps = M.table(fn.raw + '\n' + mac, 'dispatch_notification')
    sync = [(a['sync_notif'], a['sync_handler']) for a in reps.get(frozenset(('sync_notif', 'sync_handler')), [])]
    asyn = [(a['async_notif'], a['async_handler']) for a in reps.get(frozenset(('async_notif', 'async_handler')), [])]
    both = sync + asyn
    if len({t for t, _ in both}) != len(both) or len({h for _, h in both}) != len(both) or 'Cancel' in {t for t, _ in both}:
        raise Undecided('a notification type or a handler occurs twice in the notification table')
    return fn.raw[:sh.sig_end], fn.raw[sh.body_open + 1:sh.body_close], sync, asyn


_NHEAD, _NBODY, NSYNC, NASYNC = _load_notifications()
_METHODS = _method_strings([t for t, _ in ARMS] + [t for t, _ in NSYNC + NASYNC] + ['Cancel'])


def _generated():
    out = ['// ---- GENERATED by units/c24_dispatch/unit.py from the routing table of on_request_handler (%d entries) ----' % len(ARMS),
           '// per entry `T => h`: the request type T (lsp_types / emmy request; METHOD transcribed from its `impl Request for T`),',
           '// opaque parameter and result types, and the handler h as ONE uninterpreted shim shape: (snapshot, params, token) -> result']
    for t, h in ARMS:
        out.append('pub struct %s;' % t)
        out.append('#[verifier::external_body] pub struct P_%s { _p: () }' % t)
        out.append('#[verifier::external_body] pub struct R_%s { _p: () }' % t)
        out.append('impl LspRequest for %s { type Params = P_%s; type Result = R_%s; const METHOD: &\'static str = %s; }' % (t, t, t, _METHODS[t]))
        out.append('#[verifier::external_body] pub fn %s(context: ServerContextSnapshot, params: P_%s, cancel_token: CancellationToken) -> R_%s { unimplemented!() }' % (h, t, t))
    out.append('// ---- the notification table of on_notification_handler (%d sync, %d async entries) + Cancel ----' % (len(NSYNC), len(NASYNC)))
    out.append('pub struct Cancel;')
    out.append('impl LspNotification for Cancel { type Params = CancelParams; const METHOD: &\'static str = %s; }' % _METHODS['Cancel'])
    for t, h in NSYNC + NASYNC:
        out.append('pub struct %s;' % t)
        out.append('#[verifier::external_body] pub struct NP_%s { _p: () }' % t)
        out.append('impl LspNotification for %s { type Params = NP_%s; const METHOD: &\'static str = %s; }' % (t, t, _METHODS[t]))
        out.append('#[verifier::external_body] pub fn %s(context: ServerContextSnapshot, params: NP_%s) -> Option<()> { unimplemented!() }' % (h, t))
    out.append('')
    out.append('/// where the routing table sends a request: the FIRST entry whose METHOD is the request\'s method, and whether the params')
    out.append('/// deserialize as that entry\'s parameter type; Unknown when no entry matches ("registered methods" = the table)')
    out.append('pub open spec fn route(req: Request) -> Route {')
    for k, (t, _) in enumerate(ARMS):
        out.append('    %sif req.method@ == <%s>::METHOD@ { Route::Known(deserializes::<<%s as LspRequest>::Params>(req.params)) }' % ('else ' if k else '', t, t))
    out.append('    %s{ Route::Unknown }' % ('else ' if ARMS else ''))
    out.append('}')
    return '\n'.join(out)


def _template():
    with open(os.path.join(os.path.dirname(os.path.abspath(__file__)), 'template.rs'), encoding='utf-8') as f:
        t = f.read()
    if t.count('//@@GENERATED routing-table') != 1:
        raise Undecided('template.rs: marker for the generated routing table lost')
    t = t.replace('//@@GENERATED routing-table', _generated())
    for marker, file, impl in (('//@@GENERATED havoc ServerMessageProcessor', MP, 'ServerMessageProcessor'), ('//@@GENERATED havoc LspServer', LSRV, 'LspServer')):
        if t.count(marker) != 1:
            raise Undecided('template.rs: marker `%s` lost' % marker)
        known = {k.split('::')[1] for k in UNIT['items'] if k.startswith(impl + '::')}
        t = t.replace(marker, _havoc(file, impl, known))
    return t


# ---------------------------------------------------------------------------------------------
# contracts
# ---------------------------------------------------------------------------------------------
N = len(ARMS)
SPIN = '#[verifier::spinoff_prover]'

DISPATCH = {
    # host of the slice = the macro definition (hash-tracked raw text); head / tail = signature and body of on_request_handler, both
    # extracted above at load time (nothing is typed by hand). The assembled text is the fn with the macro defined locally in front of its use (macro_rules are textually
    # scoped; names in the transcriber resolve at the expansion site either way) — everything the expansion depends on is in one item.
    'src': {'kind': 'slice', 'name': 'on_request_handler', 'in': {'file': RH, 'kind': 'macro_rules', 'name': '!'},
            'from': r'\Amacro_rules!\s*dispatch_request\b', 'to': r'\}\s*\Z', 'head': _HEAD, 'tail': _BODY},
    'rules': ['c24-macro-expand', 'c24-match-const-chain',
              'async-seq-fn', 'async-seq-await', 'async-seq-closure', 'c24-no-async-left', 'c24-closure-contract',
              ('c24-shared-state', {'calls': (('server_context', 'task'), ('server_context', 'send'))}),
              'c24-ghost-param', 'c24-error-type-opaque', 'c24-log-drop'],
    'attrs': SPIN,
    'ret': 'r',
    'requires': 'ctx_wf(&*old(server_context), &*old(st))',
    'ensures': '''
            // the main loop goes on: an Err would propagate through handle_message / process_message / run / main_loop and end the server
            r is Ok /*@C24.dispatch.keeps-serving*/,
            // a registered method whose params deserialize: the log grew by exactly one response, carrying req.id (the handler's
            // result, or RequestCanceled when the token was cancelled)
            route(req) == Route::Known(true) ==> one_response(&*old(st), &*final(st), req.id) /*@C24.dispatch.exactly-one-response*/,
            // ... and a registered method is never answered "method not found"
            route(req) is Known ==> !one_error(&*old(st), &*final(st), req.id, ErrorCode::MethodNotFound as i32) /*@C24.dispatch.registered-method-routed*/,
            // a method that is not in the table: exactly one response, the MethodNotFound error for req.id
            route(req) is Unknown ==> one_error(&*old(st), &*final(st), req.id, ErrorCode::MethodNotFound as i32) /*@C24.dispatch.unknown-method-answered*/,
            // a registered method whose params are MALFORMED or MISSING: exactly one response for req.id, an error
            route(req) == Route::Known(false) ==> one_response(&*old(st), &*final(st), req.id) && last_is_error(&*final(st)) /*@C24.dispatch.malformed-params-answered*/,
            // bookkeeping: the task's cancellation entry is gone when the response is out; every other entry is untouched
            final(st).cancellations@ =~= (if route(req) == Route::Known(true) { old(st).cancellations@.remove(req.id) } else { old(st).cancellations@ }) /*@C24.dispatch.cancellation-entry-removed*/,
            same_ids(&*old(st), &*final(st)), ctx_wf(&*final(server_context), &*final(st))''',
}

TASK = {
    'src': {'file': CTX, 'kind': 'fn', 'impl': 'ServerContext', 'name': 'task'},
    'rules': ['async-seq-fn', 'async-seq-future-param', ('async-seq-await', {'count': 3}), ('async-seq-spawn', {'count': 1}),
              ('c24-shared-state', {'calls': (('cancellations', 'insert'), ('cancellations', 'remove'), ('sender', 'send'))}),
              'c24-no-async-left', 'c24-ghost-param'],
    'attrs': SPIN,
    'requires': '''
            ctx_wf(self, &*old(st)),
            forall|t: CancellationToken| call_requires(exec, (t,)),
            // the caller's side of "carries the request id": whatever response the closure builds is one for req_id
            forall|t: CancellationToken, x: Response| call_ensures(exec, (t,), Some(x)) ==> x.id == req_id''',
    'ensures': '''
            // the three-way branch: exactly one message is handed to the sender, a response for req_id
            one_response(&*old(st), &*final(st), req_id) /*@C24.task.exactly-one-send*/,
            // and it is RequestCanceled, or InternalError (the closure returned None), or the closure's response
            task_answer(final(st).sent@.last(), exec) /*@C24.task.answer-kind*/,
            final(st).cancellations@ =~= old(st).cancellations@.remove(req_id) /*@C24.task.cancellation-entry-removed*/,
            same_ids(&*old(st), &*final(st))''',
}

SEND = {
    'src': {'file': CTX, 'kind': 'fn', 'impl': 'ServerContext', 'name': 'send'},
    'rules': [('c24-shared-state', {'calls': (('sender', 'send'),), 'optional': True}), 'c24-ghost-param'],
    'requires': 'ctx_wf(self, &*old(st))',
    'ensures': '''
            final(st).sent@ == old(st).sent@.push(Message::Response(response)) /*@C24.send.exactly-one-send*/,
            final(st).cancellations == old(st).cancellations, same_ids(&*old(st), &*final(st))''',
}

CANCEL = {
    'src': {'file': CTX, 'kind': 'fn', 'impl': 'ServerContext', 'name': 'cancel'},
    'rules': ['async-seq-fn', ('async-seq-await', {'count': 1}),
              ('c24-shared-state', {'calls': (('cancellations', 'get'), ('sender', 'send'))}), 'c24-no-async-left', 'c24-ghost-param'],
    'requires': 'ctx_wf(self, &*old(st))',
    'ensures': '''
            // `$/cancelRequest` itself answers nothing (the cancelled task does: C24.task.exactly-one-send) and forgets nothing
            final(st).sent == old(st).sent /*@C24.cancel.sends-nothing*/,
            final(st).cancellations == old(st).cancellations, same_ids(&*old(st), &*final(st))''',
}

_RUN_LS = X.find_item(REPO, {'file': SRV, 'kind': 'fn', 'name': 'run_ls'}).raw
INITIALIZE = {
    'src': {'kind': 'slice', 'name': 'run_ls_initialize', 'in': {'file': SRV, 'kind': 'fn', 'name': 'run_ls'},
            # the handshake: from the first statement that deals with the `initialize` request to `initialize_finish`
            'from': r'let \(id, params\) = connection\.initialize_start\(\)\?;',
            'to': r'connection\.initialize_finish\(id, initialize_data\)\?;',
            'head': 'pub fn run_ls_initialize(connection: Connection, st: &mut Shared) -> Result<(), BoxedError>', 'tail': 'Ok(())'},
    'rules': [('c24-shared-state', {'calls': (('connection', 'initialize_start'), ('connection', 'initialize_finish'), ('sender', 'send')),
                                    'optional': True}),
              'c24-json-opaque', ('c24-format-opaque', {'optional': True}), ('c24-label-init-unwrap', {'optional': True})],
    'attrs': SPIN + '\n#[verifier::exec_allows_no_decreases_clause]',
    'ret': 'r',
    'requires': 'connection.sender.chan() == old(st).chan@',
    'ensures': '''
            // every `initialize` request handed out by the connection got exactly one response from this code, in order: a
            // malformed one its error, the well-formed one the InitializeResult (sent by initialize_finish)
            init_answered(&*old(st), &*final(st), false) /*@C24.initialize.exactly-one-response*/,
            r is Ok ==> final(st).sent@.len() > old(st).sent@.len()
                && (final(st).sent@.last() matches Message::Response(x) && x.error is None) /*@C24.initialize.handshake-completes*/''',
}
if re.search(r'while\s+initialize\.is_none\(\)', _RUN_LS):
    # the repaired shape (proposed_fix_initialize_params.diff): a loop that answers malformed `initialize` requests and waits for the next
    INITIALIZE['src']['from'] = r'let mut initialize = None;'
    INITIALIZE['loops'] = {0: '''invariant
                connection.sender.chan() == st.chan@, same_ids_but_init(&*old(st), &*st),
                init_answered(&*old(st), &*st, initialize is Some) /*@C24.initialize.exactly-one-response.inv*/,
                forall|x: (RequestId, InitializeParams)| initialize == Some(x) ==> st.init@.last() == x.0,'''}

HANDLE_MESSAGE = {
    'src': {'file': MP, 'kind': 'fn', 'impl': 'ServerMessageProcessor', 'name': 'handle_message'},
    'rules': ['async-seq-fn', ('async-seq-await', {'count': 5}), 'c24-no-async-left',
              ('c24-shared-state', {'calls': (('connection', 'handle_shutdown'),),
                                    'callees': ('on_request_handler', 'on_notification_handler', 'on_response_handler')}),
              'c24-ghost-param', 'c24-error-type-opaque'],
    'attrs': SPIN,
    'ret': 'r',
    'body_first': '// ghost: the log of handle_message calls (specification only)\nproof { st.handled@ = st.handled@.push(msg); }',
    'requires': 'ctx_wf(&*old(server_context), &*old(st))',
    'ensures': '''
            HANDLED_CLAUSE, same_ids_but_logs(&*old(st), &*final(st)), ctx_wf(&*final(server_context), &*final(st)),
            // a request other than `shutdown`: the main loop goes on (`run` leaves its loop on Ok(true) and ends the server with `?` on Err)
            (match msg { Message::Request(req) => req.method@ != "shutdown"@ ==> (r matches Ok(stop) && !stop), _ => true }) /*@C24.loop.keeps-serving*/,
            // ... and it is answered as the dispatcher answers it
            (match msg { Message::Request(req) => req.method@ != "shutdown"@ ==> answered(req, &*old(st), &*final(st)), _ => true }) /*@C24.loop.request-answered-once*/,
            // a notification never stops the loop
            (msg is Notification ==> r == Ok::<bool, BoxedError>(false)) /*@C24.loop.notification-keeps-serving*/,
            // `shutdown`: its one response (sent by handle_shutdown), then the server stops, as requested
            (match msg { Message::Request(req) => req.method@ == "shutdown"@ ==> one_response(&*old(st), &*final(st), req.id) && !(r matches Ok(false)),
                         _ => true }) /*@C24.loop.shutdown-answered-once*/''',
}

NOTIFY = {
    # same construction as DISPATCH: host = the macro definition, head / tail = signature and body of on_notification_handler
    'src': {'kind': 'slice', 'name': 'on_notification_handler', 'in': {'file': NH, 'kind': 'macro_rules', 'name': '!'},
            'from': r'\Amacro_rules!\s*dispatch_notification\b', 'to': r'\}\s*\Z', 'head': _NHEAD, 'tail': _NBODY},
    'rules': [('c24-macro-expand', {'name': 'dispatch_notification'}), 'c24-match-const-chain',
              'async-seq-fn', 'async-seq-await', ('async-seq-spawn', {'optional': True}), 'c24-no-async-left',
              ('c24-shared-state', {'callees': ('handle_cancel',), 'calls': (('server_context', 'send'), ('server_context', 'task')), 'optional': True}),
              'c24-ghost-param', 'c24-error-type-opaque', ('c24-log-drop', {'optional': True})],
    'attrs': SPIN,
    'ret': 'r',
    'requires': 'ctx_wf(&*old(server_context), &*old(st))',
    'ensures': '''
            // EVERY notification — any method, any params, malformed or absent — leaves the main loop running: an Err would propagate
            // through handle_message / process_message / run and end the server, so that no later request is answered
            r is Ok /*@C24.notification.keeps-serving*/,
            // the notification dispatcher hands no response to the connection (handlers are opaque: see trusted) and forgets no token
            final(st).sent == old(st).sent /*@C24.notification.sends-no-response*/,
            final(st).cancellations == old(st).cancellations /*@C24.notification.keeps-cancellation-entries*/,
            same_ids(&*old(st), &*final(st)), ctx_wf(&*final(server_context), &*final(st))''',
}

HANDLE_CANCEL = {
    'src': {'file': NH, 'kind': 'fn', 'name': 'handle_cancel'},
    'rules': ['async-seq-fn', ('async-seq-await', {'count': 1}), 'c24-no-async-left',
              ('c24-shared-state', {'calls': (('server_context', 'cancel'),)}), 'c24-ghost-param'],
    'requires': 'ctx_wf(&*old(server_context), &*old(st))',
    'ensures': '''
            final(st).sent == old(st).sent /*@C24.cancel.sends-nothing*/,
            final(st).cancellations == old(st).cancellations, same_ids(&*old(st), &*final(st)), ctx_wf(&*final(server_context), &*final(st))''',
}

HANDLED = 'final(st).handled@ == old(st).handled@.push(msg) && final(st).recv == old(st).recv'

CAN_PROCESS = {
    'src': {'file': MP, 'kind': 'fn', 'impl': 'ServerMessageProcessor', 'name': 'can_process_during_init'},
    'rules': ['c24-matches-str-or'],
    'ret': 'r',
    'ensures': """
            // what may be handled while the workspace is still loading: client responses, `$/cancelRequest`, `initialized`; every REQUEST waits
            r == allowed_during_init(*msg) /*@C24.pending.requests-are-deferred*/""",
}

CHECK_INIT = {
    'src': {'file': MP, 'kind': 'fn', 'impl': 'ServerMessageProcessor', 'name': 'check_initialization_complete'},
    'rules': ['c24-error-type-opaque'],
    'ret': 'r',
    'ensures': 'final(self).pending_messages == old(self).pending_messages /*@C24.pending.queue-untouched*/',
}

PROCESS_MESSAGE = {
    'src': {'file': MP, 'kind': 'fn', 'impl': 'ServerMessageProcessor', 'name': 'process_message'},
    'rules': ['async-seq-fn', ('async-seq-await', {'count': 1}), 'c24-no-async-left',
              ('c24-shared-state', {'calls': (('self', 'handle_message'),)}), 'c24-ghost-param', 'c24-error-type-opaque'],
    'ret': 'r',
    'requires': 'ctx_wf(&*old(server_context), &*old(st))',
    'ensures': """
            %s /*@C24.loop.message-handled-once*/,
            final(self).pending_messages == old(self).pending_messages, same_ids_but_logs(&*old(st), &*final(st)),
            ctx_wf(&*final(server_context), &*final(st)),
            (msg is Notification ==> r == Ok::<bool, BoxedError>(false)) /*@C24.loop.notification-keeps-serving*/,
            (match msg { Message::Request(req) => req.method@ != "shutdown"@ ==> (r matches Ok(stop) && !stop), _ => true }) /*@C24.loop.keeps-serving*/""" % HANDLED,
}

PROCESS_PENDING = {
    'src': {'file': MP, 'kind': 'fn', 'impl': 'ServerMessageProcessor', 'name': 'process_pending_messages'},
    'rules': ['async-seq-fn', ('async-seq-await', {'count': 1}), 'c24-no-async-left', 'c24-mem-take',
              ('c24-shared-state', {'calls': (('self', 'handle_message'),)}), 'c24-ghost-param', 'c24-error-type-opaque'],
    'attrs': SPIN + '\n#[verifier::loop_isolation(false)]',
    'ret': 'r',
    'requires': 'ctx_wf(&*old(server_context), &*old(st))',
    'ensures': """
            // every message queued during initialization is handed to handle_message exactly once, in queue order, nothing else is
            r == Ok::<bool, BoxedError>(false) ==> final(st).handled@ == old(st).handled@ + old(self).pending_messages@ /*@C24.pending.every-queued-request-processed-once*/,
            // (shutdown among them / an Err: a prefix of the queue, in order)
            exists|k: int| 0 <= k <= old(self).pending_messages@.len()
                && final(st).handled@ == old(st).handled@ + #[trigger] old(self).pending_messages@.take(k) /*@C24.pending.processed-in-order*/,
            final(self).pending_messages@.len() == 0, final(st).recv == old(st).recv, same_ids_but_logs(&*old(st), &*final(st)),
            ctx_wf(&*final(server_context), &*final(st))""",
    'body_first': 'let ghost h0 = st.handled@;',
    'iter_names': {0: 'it'},
    'loops': {0: """invariant
                ctx_wf(&*server_context, &*st), st.recv == old(st).recv, same_ids_but_logs(&*old(st), &*st),
                it.seq() =~= messages@, self.pending_messages@.len() == 0,
                messages@ == old(self).pending_messages@ /*@C24.pending.every-queued-request-processed-once.inv-whole-queue*/,
                st.handled@ == h0 + messages@.take(it.index@ as int) /*@C24.pending.every-queued-request-processed-once.inv*/,"""},
    'proof': [
        (r'if self\.handle_message\(msg, connection, server_context, st\)\? \{', 'before', """
                proof {
                    assert(messages@.take(it.index@ + 1) =~= messages@.take(it.index@ as int).push(msg));
                    assert(h0 + messages@.take(it.index@ + 1) =~= (h0 + messages@.take(it.index@ as int)).push(msg));
                }"""),
        (r'Ok\(false\)\s*\}\s*$', 'before', 'proof { assert(messages@.take(messages@.len() as int) =~= messages@); }'),
    ],
}

WAIT_INIT = {
    'src': {'file': LSRV, 'kind': 'fn', 'impl': 'LspServer', 'name': 'wait_for_initialization'},
    'rules': ['async-seq-fn', ('async-seq-await', {'count': 2}), 'c24-no-async-left',
              ('c24-shared-state', {'calls': (('connection', 'recv'), ('processor', 'handle_message'))}), 'c24-ghost-param', 'c24-error-type-opaque'],
    'attrs': SPIN + '\n#[verifier::exec_allows_no_decreases_clause]\n#[verifier::loop_isolation(false)]',
    'ret': 'r',
    'requires': 'ctx_wf(&old(self).server_context, &*old(st))',
    'ensures': """
            // Whatever arrives while the workspace loads (the messages received during the wait, in order): every message that must wait —
            // every REQUEST in particular — is appended to the queue exactly once, in arrival order, and nothing is ever removed from the
            // queue, whatever notifications (cancel included) arrive meanwhile; the others are handled at once, each once
            final(self).processor.pending_messages@ == old(self).processor.pending_messages@
                + deferred(new_recv(&*old(st), &*final(st))) /*@C24.pending.every-deferred-message-queued-once*/,
            final(st).handled@ == old(st).handled@ + immediate(new_recv(&*old(st), &*final(st))) /*@C24.pending.allowed-messages-handled-once*/,
            old(st).recv@.is_prefix_of(final(st).recv@), same_ids_but_logs(&*old(st), &*final(st)),
            ctx_wf(&final(self).server_context, &*final(st))""",
    'body_first': 'let ghost p0 = self.processor.pending_messages@; let ghost h0 = st.handled@; let ghost r0 = st.recv@.len() as int;\n'
                  'proof { assert(st.recv@.skip(r0) =~= Seq::<Message>::empty()); assert(p0 + Seq::<Message>::empty() =~= p0); assert(h0 + Seq::<Message>::empty() =~= h0); }',
    'loops': {0: """invariant
                ctx_wf(&self.server_context, &*st), same_ids_but_logs(&*old(st), &*st),
                r0 == old(st).recv@.len(), r0 <= st.recv@.len(), old(st).recv@.is_prefix_of(st.recv@),
                self.processor.pending_messages@ == p0 + deferred(st.recv@.skip(r0)) /*@C24.pending.every-deferred-message-queued-once.inv*/,
                st.handled@ == h0 + immediate(st.recv@.skip(r0)) /*@C24.pending.allowed-messages-handled-once.inv*/,"""},
    'proof': [
        (r'match tokio::time::timeout\(', 'before', 'let ghost recv_pre = st.recv@;'),
        (r'Ok\(Some\(msg\)\) => \{', 'after', """
                    proof {
                        assert(st.recv@ == recv_pre.push(msg));
                        assert(st.recv@.skip(r0) =~= recv_pre.skip(r0).push(msg));
                        lemma_split_push(recv_pre.skip(r0), msg);
                        assert(p0 + deferred(recv_pre.skip(r0)).push(msg) =~= (p0 + deferred(recv_pre.skip(r0))).push(msg));
                        assert(h0 + immediate(recv_pre.skip(r0)).push(msg) =~= (h0 + immediate(recv_pre.skip(r0))).push(msg));
                    }"""),
    ],
}

RUN = {
    'src': {'file': LSRV, 'kind': 'fn', 'impl': 'LspServer', 'name': 'run'},
    'rules': ['c24-mut-self-local', 'async-seq-fn', ('async-seq-await', {'count': 6}), 'c24-no-async-left',
              ('c24-shared-state', {'calls': (('vx_self', 'wait_for_initialization'), ('processor', 'process_pending_messages'), ('connection', 'recv'),
                                              ('processor', 'process_message'))}), 'c24-ghost-param', 'c24-error-type-opaque'],
    'attrs': SPIN + '\n#[verifier::exec_allows_no_decreases_clause]\n#[verifier::loop_isolation(false)]',
    'ret': 'r',
    'requires': 'ctx_wf(&self.server_context, &*old(st)), self.processor.pending_messages@.len() == 0',
    'ensures': """
            // The whole main loop, when it ends regularly (client gone / shutdown; an Err ends the server). With R = everything received, of
            // which the first n1 messages arrived while the workspace was loading: the messages handed to handle_message are, in this order,
            // the ones of R[..n1] that are allowed during initialization, then the ones of R[..n1] that had to wait (every request among
            // them), then R[n1..] — every message once, no message dropped or repeated, requests in arrival order — or, when a shutdown stops
            // the server, a prefix of that
            r is Ok ==> exists|n1: int| 0 <= n1 <= new_recv(&*old(st), &*final(st)).len()
                && final(st).handled@.skip(old(st).handled@.len() as int).is_prefix_of(
                    #[trigger] handling_order(new_recv(&*old(st), &*final(st)), n1)) /*@C24.pending.every-received-message-handled-once-in-order*/""",
    'body_first': 'let ghost h_base = st.handled@; let ghost q0 = st.recv@.len() as int;',
    'loops': {0: """invariant
                ctx_wf(&vx_self.server_context, &*st), same_ids_but_logs(&*old(st), &*st),
                q0 <= st.recv@.len(), 0 <= n1 <= st.recv@.skip(q0).len(), st.recv@.skip(q0).take(n1) == r1,
                st.handled@ == h_base + (immediate(r1) + deferred(r1) + st.recv@.skip(q0).skip(n1)) /*@C24.pending.every-received-message-handled-once-in-order.inv*/,"""},
    'proof': [
        (r'vx_self\.wait_for_initialization\(st\)\?;', 'after', """
        let ghost r1 = st.recv@.skip(q0); let ghost n1 = r1.len() as int; let ghost h1 = st.handled@;
        proof {
            assert(vx_self.processor.pending_messages@ =~= deferred(r1));
            assert(h1 == h_base + immediate(r1));
            assert(r1.take(n1) =~= r1); assert(r1.skip(n1) =~= Seq::<Message>::empty());
        }"""),
        (r'vx_self\.server_context\.close\(\);\s*return Ok\(\(\)\);', 'before', """
            proof {
                // a shutdown among the queued messages: a prefix of the queue was handled
                let k = choose|k: int| 0 <= k <= deferred(r1).len() && st.handled@ == h1 + #[trigger] deferred(r1).take(k);
                assert(st.recv@.skip(q0) == r1);
                lemma_prefix_concat(immediate(r1), deferred(r1), k) /*@C24.pending.every-received-message-handled-once-in-order.queue-prefix-handed-over*/;
                assert((h_base + immediate(r1) + deferred(r1).take(k)).skip(h_base.len() as int) =~= immediate(r1) + deferred(r1).take(k));
                assert(immediate(r1) + deferred(r1) + Seq::<Message>::empty() =~= immediate(r1) + deferred(r1));
                assert(handling_order(r1, n1) =~= immediate(r1) + deferred(r1));
                assert(st.handled@.skip(h_base.len() as int).is_prefix_of(handling_order(new_recv(&*old(st), &*st), n1)));
            }"""),
        (r'while let Some\(msg\) = vx_self\.connection\.recv\(st\)', 'before', """
        proof {
            assert(st.recv@.skip(q0) == r1);
            assert(st.handled@ == h1 + deferred(r1)) /*@C24.pending.every-received-message-handled-once-in-order.whole-queue-handed-over*/;
            assert(h_base + immediate(r1) + deferred(r1) =~= h_base + (immediate(r1) + deferred(r1) + r1.skip(n1)));
        }"""),
        (r'while let Some\(msg\) = vx_self\.connection\.recv\(st\)\s*\{', 'after', """
            proof {
                // `pre`: the receive log at the loop head (the invariant speaks about it), named through recv's postcondition
                let pre = choose|o: Seq<Message>| st.recv@ == #[trigger] o.push(msg) && q0 <= o.len() && n1 <= o.skip(q0).len()
                    && o.skip(q0).take(n1) == r1 && st.handled@ == h_base + (immediate(r1) + deferred(r1) + o.skip(q0).skip(n1));
                assert(st.recv@ == pre.push(msg));
                assert(st.recv@.skip(q0) =~= pre.skip(q0).push(msg));
                assert(st.recv@.skip(q0).take(n1) =~= pre.skip(q0).take(n1));
                assert(st.recv@.skip(q0).skip(n1) =~= pre.skip(q0).skip(n1).push(msg));
                assert((h_base + (immediate(r1) + deferred(r1) + pre.skip(q0).skip(n1))).push(msg)
                    =~= h_base + (immediate(r1) + deferred(r1) + pre.skip(q0).skip(n1).push(msg)));
            }"""),
        (r'vx_self\.server_context\.close\(\);\s*Ok\(\(\)\)\s*\}\s*$', 'before', """
        proof {
            let rr = st.recv@.skip(q0);
            assert((h_base + (immediate(r1) + deferred(r1) + rr.skip(n1))).skip(h_base.len() as int) =~= immediate(r1) + deferred(r1) + rr.skip(n1));
            assert(handling_order(rr, n1) == immediate(r1) + deferred(r1) + rr.skip(n1));
            let x = handling_order(rr, n1);
            assert(x.take(x.len() as int) =~= x);
            assert(st.handled@.skip(h_base.len() as int) =~= x);
            assert(st.handled@.skip(h_base.len() as int).is_prefix_of(handling_order(new_recv(&*old(st), &*st), n1)));
        }"""),
    ],
}


def _havoc(file, impl, known):
    """methods of `impl` that are NOT under contract in this unit: each becomes an opaque shim generated from its signature (any effect on
    what it can reach through its parameters, nothing on the ghost state) — a NEW method that touches the queue therefore breaks the
    callers' invariants instead of making the unit undecided"""
    src = X.read_source(REPO, file)
    toks = L.code_tokens(src)
    out = []
    for a, b in X._top_level_items(src, toks, 0, len(toks)):
        a2 = X._strip_attrs(src, toks, a, b)
        if a2 >= b: continue
        kind, name, kidx = X._header(src, toks, a2, b)
        if kind != 'impl' or name != impl: continue
        ob = next(j for j in range(kidx, b) if L.tok_text(src, toks[j]) == '{')
        for x, y in X._top_level_items(src, toks, ob + 1, L.match_close(src, toks, ob)):
            x2 = X._strip_attrs(src, toks, x, y)
            if x2 >= y: continue
            k2, fname, _ = X._header(src, toks, x2, y)
            if k2 != 'fn' or fname in known: continue
            raw = src[toks[x2][1]:toks[y - 1][2]]
            sig = raw[:X.fn_shape(raw).sig_end]
            sig = re.sub(r'^pub(\([^)]*\))?\s+', '', sig)
            sig = re.sub(r'\basync\s+fn\b', 'fn', sig)
            sig = re.sub(r'(?<![&\w])mut\s+(?=\w+\s*[:,)])', '', sig)      # `mut x: T` / `mut self`: the binding mode is the body's business
            sig = re.sub(r'Box<dyn Error \+ (?:Sync \+ Send|Send \+ Sync)>', 'BoxedError', sig)
            out.append('    /// NOT under contract (generated from the signature in %s): may do anything to what its parameters reach\n'
                       '    #[verifier::external_body]\n    pub %s { unimplemented!() }' % (file, sig))
    return '\n'.join(out)


UNIT = {
    'items': {
        'ServerContext': {'src': {'file': CTX, 'kind': 'struct', 'name': 'ServerContext'},
                          'rules': [('struct-fields', {'keep': ['conn', 'cancellations', 'inner']})]},
        'ServerContext::snapshot': {'src': {'file': CTX, 'kind': 'fn', 'impl': 'ServerContext', 'name': 'snapshot'}},
        'ServerContext::send': SEND,
        'ServerContext::task': TASK,
        'ServerContext::cancel': CANCEL,
        'on_request_handler': DISPATCH,
        'run_ls::initialize': INITIALIZE,
        'handle_cancel': HANDLE_CANCEL,
        'on_notification_handler': NOTIFY,
        'ServerMessageProcessor': {'src': {'file': MP, 'kind': 'struct', 'name': 'ServerMessageProcessor'},
                                   'rules': ['vis-pub', ('struct-fields', {'keep': ['initialization_complete', 'pending_messages', 'init_rx']})]},
        'LspServer': {'src': {'file': LSRV, 'kind': 'struct', 'name': 'LspServer'},
                      'rules': ['vis-pub', ('struct-fields', {'keep': ['connection', 'server_context', 'processor']})]},
        'ServerMessageProcessor::can_process_during_init': CAN_PROCESS,
        'ServerMessageProcessor::check_initialization_complete': CHECK_INIT,
        'ServerMessageProcessor::handle_message': HANDLE_MESSAGE,
        'ServerMessageProcessor::process_message': PROCESS_MESSAGE,
        'ServerMessageProcessor::process_pending_messages': PROCESS_PENDING,
        'LspServer::wait_for_initialization': WAIT_INIT,
        'LspServer::run': RUN,
    },
    'extra_rules': [
        ('c24-closure-contract', r'\|cancel_token\| \{',
         '|cancel_token: CancellationToken| -> (r: Option<Response>) ensures r matches Some(x) && x.id == id && x.error is None {',
         'contract overlay on the task closure (one per table entry): parameter type, named result and `ensures` are added, the body is kept '
         'verbatim and Verus checks the ensures against it'),
        ('c24-format-opaque', r'format!\("(?:[^"\\]|\\.)*"\)', 'vx_format()',
         '`format!("..{err}..")` -> `vx_format()`: the message TEXT of an error response is opaque (Display of a serde_json::Error does not panic)'),
        ('c24-label-init-unwrap', r'(serde_json::from_value\(params\)\.unwrap\(\);)', r'\1 /*@C24.initialize.exactly-one-response*/',
         'label only (a comment): the precondition of this `unwrap` is the property clause — a panic here ends the server before the '
         '`initialize` request got any response'),
        ('c24-mem-take', r'std::mem::take\(&mut self\.pending_messages\)', 'vx_mem_take(&mut self.pending_messages)',
         '`std::mem::take(&mut V)` on a Vec -> `vx_mem_take(&mut V)` (std doc: replaces V with `Default::default()`, the empty Vec, and returns the previous value)'),
        ('c24-error-type-opaque', r'Box<dyn Error \+ Sync \+ Send>', 'BoxedError',
         '`Box<dyn Error + Sync + Send>` -> `BoxedError` in a signature: the error VALUE is opaque, only Ok / Err is under contract'),
        ('c24-log-drop', r'\n[ \t]*(?:error|warn)!\((?:[^()"]|"(?:[^"\\]|\\.)*"|\((?:[^()"]|"(?:[^"\\]|\\.)*")*\))*\);', '',
         '`error!(..);` / `warn!(..);` of the `log` crate dropped: it formats its arguments (Display / Debug of strings and error values) and hands the '
         'line to the logger; no part of any claimed clause'),
    ],
    'allow': [r'external_body', r'uninterp'],
    'min_obligations': 60,
    'trusted': [
        'rule family async-seq = the SEQUENTIAL SCHEDULE of the async text (rules async-seq-fn / -await / -spawn are unit c36_channel\'s, loaded from its '
        'unit.py; -closure and -future-param are this unit\'s): `async fn` / `.await` are plain fns / calls; `tokio::spawn(async move { BODY })` runs BODY '
        'to completion, exactly once, at the spawn point; a closure returning an async block returns the block\'s value. ABSTRACTED AWAY: scheduling and '
        'interleaving; a task that PANICS (a panicking handler, or `serde_json::to_value(result).unwrap()` inside Response::new_ok) dies without sending '
        'anything — that request id gets no response (C25 / C12 territory); a task that is never polled (runtime shutdown); mutex contention',
        'the cancellation flag is modelled as ARBITRARY: CancellationToken::is_cancelled returns an unconstrained bool (a `$/cancelRequest` may be handled '
        'at any time while the task runs); `task` is proved to send exactly one response whatever it returns',
        'state-passing model (rules c24-shared-state / c24-ghost-param): the log `st.sent` records every message handed to a Sender of the client '
        'connection\'s channel BY THE CODE UNDER PROOF (and by lsp_server\'s initialize_finish / handle_shutdown on its behalf); crossbeam `send` = append '
        '(its Err, writer thread gone, is discarded by the callers); the contents of the `cancellations` tokio Mutex = `st.cancellations`, reached through '
        'the guard (DerefMut) with HashMap insert / remove / get semantics; precondition ctx_wf: the context\'s sender and mutex ARE the ones `st` describes '
        '(ServerContext::new builds them so; Arc::clone / Sender::clone keep the identity)',
        'lsp_server 0.7.9 shims, transcribed from its source: Request / Response / ResponseError / Notification / Message as data, ErrorCode discriminants, '
        'Response::new_err (body verified), Response::new_ok (result Some, error None; its unwrap not modelled), Request::extract (Ok iff method matches and '
        'the params deserialize, the id is the request\'s; MethodMismatch(req) / JsonError otherwise), Connection::initialize_start (hands out the next '
        '`initialize` request; the ServerNotInitialized replies it sends ITSELF to earlier requests are the library\'s and are not logged), '
        'Connection::initialize_finish (sends new_ok(id, result) once, then waits for `initialized`)',
        '`deserializes::<P>(v)` (= serde_json::from_value::<P>(v) is Ok) is uninterpreted: nothing is assumed about which JSON values deserialize',
        'the routing table (request type => handler) is READ from the invocation in the repository at load time; per entry the unit generates an opaque '
        'parameter / result type, the METHOD string (transcribed from the `impl Request for T` in emmy_lsp_types 0.1.0 / the repository) and ONE handler shim '
        'shape `h(snapshot, params, token) -> result` without contract; "registered method" = a method of this table (the spec fn `route` is generated from it, '
        'first match wins as in the code). METHOD strings are not assumed distinct',
        'macro expansion: rule c24-macro-expand implements macro_rules transcription for the single-rule, one-level-repetition shape of dispatch_request! '
        '(see its doc string); it is not rustc\'s expander. Cross-check: the END-TO-END replay (replay/c24) observes the same behaviour on the compiled server',
        'ghost logs (specification only): `st.recv` = every message AsyncConnection::recv handed to the main loop (appended by the shim), `st.handled` = '
        'every message handed to handle_message (appended by ONE ghost statement inserted at the top of its body, overlay `body_first`); the queueing '
        'clauses relate the two and `pending_messages`',
        'tokio::time::timeout(50 ms, recv()) in the sequential form `timeout(d, value)`: passes the value through; Err(Elapsed) only when recv produced '
        'nothing (tokio: UnboundedReceiver::recv is cancel safe, a timed-out recv has taken no message); oneshot::Receiver::try_recv unconstrained '
        '(initialization may complete at any iteration, or never); std::mem::take on a Vec (rule c24-mem-take); Vec::push / clear / into_iter: vstd',
        'notification handlers (on_did_change_text_document, ...) are opaque shims WITHOUT the ghost state: they are assumed to hand no RESPONSE to the '
        'connection (they publish notifications / send requests through ClientProxy); C24.notification.sends-no-response is about the dispatcher itself',
        'methods of impl ServerMessageProcessor / impl LspServer that are not under contract here (new, and anything added later) are generated shims '
        'with arbitrary effect on what their parameters reach and none on the ghost state (a method that SENDS something would need a contract)',
        'AsyncConnection::handle_shutdown is a SHIM in handle_message (contract written from its text: nothing sent and Ok(false) unless the method is '
        '`shutdown`; otherwise one new_ok response for req.id and Ok(true) / Err); ServerContext::close, on_notification_handler, on_response_handler: opaque',
        'initialize slice: serde_json::json!(..) and format!(..) values are opaque (rules c24-json-opaque / c24-format-opaque); server_capabilities(..) is an opaque shim',
        'error values (`Box<dyn Error + Sync + Send>`, ProtocolError) are opaque; only Ok / Err is under contract (rule c24-error-type-opaque)',
        '`error!(..)` log lines dropped (rule c24-log-drop); vstd: String::as_str / str equality / to_string, Option, Result::unwrap (requires Ok), Arc',
    ],
    'not_covered': [
        'real tokio scheduling: interleavings of the request tasks with the main loop, duplicate request ids in flight (the second task\'s token replaces the '
        'first in `cancellations`), back-pressure; the transport (reader / writer threads, framing, flushing)',
        'a handler that panics: its task dies without a response for that id (C25 / C12); the `None` (InternalError) branch of `task` is proved but is '
        'unreachable from the dispatcher (its closure always returns Some)',
        'what the notification HANDLERS do (document sync, diagnostics), client responses (on_response_handler: opaque, may return Err, which ends `run`)',
        'an in-flight request cancelled while it runs, observed on the real schedule (two responses from one task would need the task body to be '
        'racing with itself; the sequential `task` sends exactly one by C24.task.exactly-one-send): covered by the replay only; a `ResponseGuard`-style '
        'drop guard (seeded C24_2) introduces a struct with a closure field and a Drop impl — outside the unit: UNDECIDED there, FOUND by replay/c24',
        '`run` when it ends with Err (the server dies: by C24.dispatch.keeps-serving / C24.notification.keeps-serving / C24.loop.* only an Err of '
        'handle_shutdown, on_response_handler or check_initialization_complete can do that); main_loop (spawns initialized_handler), LspServer::new',
        'AsyncConnection::handle_shutdown\'s own text (tokio::time::timeout, match guards, boxed ExitError): shimmed, see trusted',
        'run_ls outside the handshake slice (transport selection, main_loop, threads.join)',
    ],
    'samples': [
        'on_request_handler(req): returns Ok(()) always; route(req)==Known(true) -> log grew by exactly one Response with id req.id, never MethodNotFound; '
        'route(req)==Unknown -> exactly one Response{id: req.id, error.code: -32601}; route(req)==Known(false) -> exactly one error Response for req.id '
        '[FAILS on the unrepaired tree: nothing is sent]',
        'ServerContext::task(req_id, exec): log grew by exactly one Response for req_id: RequestCanceled | InternalError | exec\'s response; cancellations == old.remove(req_id)',
        'ServerContext::cancel: sends nothing, forgets nothing; ServerContext::send: exactly the given response',
        'run_ls handshake: every initialize id handed out by the connection is answered exactly once, in order [unrepaired tree: `from_value(params).unwrap()` '
        'panics on params that do not deserialize -> no response, server dead]',
        'on_notification_handler(n): Ok(()) for EVERY notification (any method, malformed / absent params); log of sent messages and cancellation map unchanged',
        'wait_for_initialization: pending_messages == old ++ deferred(received during the wait), handled == old ++ immediate(received during the wait) '
        '(deferred / immediate = order-preserving filters by can_process_during_init; every Request is deferred)',
        'process_pending_messages: Ok(false) ==> handled == old ++ queue (each queued message once, in order); otherwise a prefix; queue empty afterwards',
        'run (Ok): handled_new is a prefix of immediate(R[..n1]) ++ deferred(R[..n1]) ++ R[n1..] for the received messages R (equal unless a shutdown stopped it)',
        'handle_message(Request(req)), req.method != "shutdown": Ok(false) (loop goes on) and `answered(req, ..)`; "shutdown": one response, not Ok(false)',
    ],
    'mutants': [
        {'name': 'unknown-method-not-answered', 'item': 'on_request_handler',
         'pattern': r'("handler not found"\.to_string\(\),\s*\);\s*)\$context\.send\(response\);', 'repl': r'\1',
         'expect': r'C24\.dispatch\.unknown-method-answered'},
        {'name': 'table-entry-dropped', 'item': 'on_request_handler',
         'pattern': r'HoverRequest => on_hover,', 'repl': '',
         # (METHOD strings are not known to be distinct, so the edit also shows as a hover request served by another entry's parameter type)
         'expect': r'C24\.dispatch\.(registered-method-routed|cancellation-entry-removed)'},
        {'name': 'task-sends-cancel-error-and-result', 'item': 'ServerContext::task',
         'pattern': r'\} else if let Some\(it\) = res \{', 'repl': '} if let Some(it) = res {', 'expect': r'C24\.task\.exactly-one-send'},
        {'name': 'task-silent-on-none', 'item': 'ServerContext::task',
         'pattern': r'("internal error"\.to_string\(\),\s*\);\s*)let _ = sender\.send\(Message::Response\(response\)\);', 'repl': r'\1',
         'expect': r'C24\.task\.exactly-one-send'},
        {'name': 'task-entry-not-removed', 'item': 'ServerContext::task',
         'pattern': r'\n\s*cancellations\.remove\(&req_id\);', 'repl': '', 'expect': r'C24\.task\.cancellation-entry-removed'},
        {'name': 'send-dropped', 'item': 'ServerContext::send',
         'pattern': r'let _ = self\.conn\.sender\.send\(Message::Response\(response\)\);', 'repl': '', 'expect': r'C24\.send\.exactly-one-send'},
        {'name': 'cancel-answers-itself', 'item': 'ServerContext::cancel',
         'pattern': r'cancel_token\.cancel\(\);',
         'repl': 'cancel_token.cancel(); let _ = self.conn.sender.send(Message::Response(Response::new_err(req_id.clone(), ErrorCode::RequestCanceled as i32, "cancel".to_string())));',
         'expect': r'C24\.cancel\.sends-nothing'},
        {'name': 'loop-stops-after-request', 'item': 'ServerMessageProcessor::handle_message',
         'pattern': r'Ok\(false\)\s*\}\s*$', 'repl': 'Ok(true)\n}', 'expect': r'C24\.loop\.keeps-serving'},
        # the seeded defect C24_3 reduced to its core: the sync group propagates the extraction error with `?`
        {'name': 'malformed-notification-ends-the-loop', 'item': 'on_notification_handler',
         'pattern': r'if let Ok\(params\) = (\$notification\.extract::<<\$sync_notif as LspNotification>::Params>\(<\$sync_notif>::METHOD\)) \{(\s*let snapshot = \$context\.snapshot\(\);\s*\$sync_handler\(snapshot, params\)\.await;)\s*\}',
         'repl': r'let params = \1?;\2', 'expect': r'C24\.notification\.keeps-serving'},
        {'name': 'cancel-notification-answers', 'item': 'on_notification_handler',
         'pattern': r'handle_cancel\(\$context, params\)\.await;',
         'repl': 'handle_cancel($context, params).await; $context.send(Response::new_err(RequestId::from(0), 0, "x".to_string()));',
         'expect': r'C24\.notification\.sends-no-response'},
        # the seeded defect C24_1 reduced to its core: something removes queued messages while the workspace loads
        {'name': 'queued-request-dropped', 'item': 'LspServer::wait_for_initialization',
         'pattern': r'self\.processor\.pending_messages\.push\(msg\);', 'repl': 'if self.processor.pending_messages.len() < 3 { self.processor.pending_messages.push(msg); }',
         'expect': r'C24\.pending\.every-deferred-message-queued-once'},
        {'name': 'queue-cleared-after-initialization', 'item': 'LspServer::run',
         'pattern': r'(self\.wait_for_initialization\(\)\.await\?;)', 'repl': r'\1 self.processor.pending_messages.clear();',
         'expect': r'C24\.pending\.every-received-message-handled-once-in-order'},
        {'name': 'queue-not-processed', 'item': 'ServerMessageProcessor::process_pending_messages',
         'pattern': r'(let messages = std::mem::take\(&mut self\.pending_messages\);)', 'repl': r'\1 let messages: Vec<Message> = Vec::new();',
         'expect': r'C24\.pending\.(every-queued-request-processed-once|processed-in-order)'},
        {'name': 'request-handled-during-initialization', 'item': 'ServerMessageProcessor::can_process_during_init',
         'pattern': r'Message::Request\(_\) => false', 'repl': 'Message::Request(_) => true', 'expect': r'C24\.pending\.requests-are-deferred'},
    ],
    # an edit that changes NOTHING (run by hand, must verify): `return Ok(());` removed from the arms' success path. A Rust match arm never
    # falls through into the next arm (the catch-all included): control leaves the `match`, reaches the fn's final `Ok(())` and returns the
    # same value; no second response can be sent on that way.
    'equivalent_edits': [
        {'name': 'arm-return-removed', 'item': 'on_request_handler', 'pattern': r'(\}\)\.await;\s*)return Ok\(\(\)\);', 'repl': r'\1'},
    ],
}
_MACRO = X.find_item(REPO, {'file': RH, 'kind': 'macro_rules', 'name': '!'}).raw
if 'InvalidParams' in _MACRO:
    # mutants of the REPAIRED dispatcher (proposed_fix_invalid_params.diff); on the unrepaired tree the clause fails without any edit
    UNIT['mutants'].append(
        {'name': 'invalid-params-answer-dropped', 'item': 'on_request_handler',
         'pattern': r'("invalid params"\.to_string\(\),\s*\);\s*)\$context\.send\(response\);', 'repl': r'\1',
         'expect': r'C24\.dispatch\.malformed-params-answered'})
if 'loops' in INITIALIZE:
    UNIT['mutants'].append(
        {'name': 'malformed-initialize-not-answered', 'item': 'run_ls::initialize',
         'pattern': r'let _ = connection\.sender\.send\(response\.into\(\)\);', 'repl': '',
         'expect': r'C24\.initialize\.exactly-one-response'})
    UNIT['mutants'].append(
        {'name': 'initialize-answered-twice', 'item': 'run_ls::initialize',
         'pattern': r'Ok\(initialization_params\) => initialize = Some\(\(id, initialization_params\)\),',
         'repl': 'Ok(initialization_params) => { let _ = connection.sender.send(Response::new_ok(id.clone(), 0u8).into()); initialize = Some((id, initialization_params)) }',
         'expect': r'C24\.initialize\.exactly-one-response'})
HANDLE_MESSAGE['ensures'] = HANDLE_MESSAGE['ensures'].replace('HANDLED_CLAUSE', HANDLED + ' /*@C24.loop.message-handled-once*/')
UNIT['template_text'] = _template()
