"""unit c24_dispatch — C24 "every client request gets exactly one response": the ROUTING layer of emmylua_ls.

  * `on_request_handler` (handlers/request_handler.rs): one `dispatch_request!` invocation. The macro is expanded MECHANICALLY by
    rule `c24-macro-expand`, an implementation of this `macro_rules!` definition (the definition is read from the repository on
    every run; the rule refuses — Undecided — when the matcher changes shape or the transcriber uses anything but the four
    metavariables and one-level repetition).
  * `ServerContext::{task, send, cancel, snapshot}` (context/mod.rs)
  * the `initialize` handshake: a slice of `run_ls` (server/mod.rs)
  * `ServerMessageProcessor::handle_message` (server/message_processor.rs): what an `Err` of the dispatcher would do

Verus verifies sequential code. As in unit c36_channel the async text is verified in its SEQUENTIAL SCHEDULE (rule family `async-seq`,
the three rules `async-seq-fn`, `async-seq-await`, `async-seq-spawn` are c36_channel's, loaded from its unit.py): a spawned task runs
its body to completion, exactly once, at the spawn point. The state shared behind `&self` (the client connection's channel and the
`cancellations` mutex) becomes the explicit ghost parameter `st` (rule `c24-shared-state`): `st.sent` is the log of every message
handed to a sender of the connection. What is proved is therefore WHICH responses are sent, not when."""
import glob
import importlib.util
import os
import re

from vc import extract as X
from vc import rustlex as L
from vc.assemble import REPO, VERIF
from vc.extract import Undecided
from vc.rules import rule

LS = 'crates/emmylua_ls/src/'
RH = LS + 'handlers/request_handler.rs'
CTX = LS + 'context/mod.rs'
SRV = LS + 'server/mod.rs'
MP = LS + 'server/message_processor.rs'
CONN = LS + 'server/connection.rs'

# rule family async-seq: ONE definition (unit c36_channel's); loading its unit.py registers the rules in the catalogue
_spec = importlib.util.spec_from_file_location('unit_c36_channel_for_c24', os.path.join(VERIF, 'units', 'c36_channel', 'unit.py'))
_c36 = importlib.util.module_from_spec(_spec)
_spec.loader.exec_module(_c36)


def _T(text, toks):
    return lambda i: L.tok_text(text, toks[i]) if 0 <= i < len(toks) else ''


def _norm(text, toks, a, b):
    return ' '.join(L.tok_text(text, toks[k]) for k in range(a, b))


# ---------------------------------------------------------------------------------------------
# rule c24-macro-expand: an implementation of `macro_rules! dispatch_request`
# ---------------------------------------------------------------------------------------------
MATCHER = '$ request : expr , $ context : expr , { $ ( $ req_type : ty = > $ handler : expr ) , * $ ( , ) ? }'


def _split_top(text, toks, a, b, sep):
    """split toks[a:b] at depth-0 occurrences of the token sequence `sep` (list of strings)"""
    parts, cur, k = [], a, a
    T = _T(text, toks)
    while k < b:
        t = T(k)
        if t in ('(', '[', '{'):
            k = L.match_close(text, toks, k) + 1
            continue
        if [T(k + j) for j in range(len(sep))] == sep and all(toks[k + j + 1][1] == toks[k + j][2] for j in range(len(sep) - 1)):
            parts.append((cur, k))
            k += len(sep)
            cur = k
            continue
        k += 1
    parts.append((cur, b))
    return parts


def parse_dispatch(text, name='dispatch_request'):
    """-> dict(def_span, matcher_ok, transcriber (text span), invocations [(span, request, context, [(ty, handler)])])"""
    toks = L.code_tokens(text)
    T = _T(text, toks)
    d = None
    for i in range(len(toks) - 3):
        if T(i) == 'macro_rules' and T(i + 1) == '!' and T(i + 2) == name and T(i + 3) == '{':
            if d is not None:
                raise Undecided('c24-macro-expand: macro %s is defined twice' % name)
            d = i
    if d is None:
        raise Undecided('c24-macro-expand: no `macro_rules! %s` in the text' % name)
    dc = L.match_close(text, toks, d + 3)
    # exactly one rule: ( MATCHER ) => { TRANSCRIBER } [;]
    k = d + 4
    if T(k) != '(':
        raise Undecided('c24-macro-expand: the macro rule does not start with a parenthesised matcher')
    mc = L.match_close(text, toks, k)
    if _norm(text, toks, k + 1, mc) != MATCHER:
        raise Undecided('c24-macro-expand: the matcher of %s changed shape: %s' % (name, _norm(text, toks, k + 1, mc)))
    if not (T(mc + 1) == '=' and T(mc + 2) == '>' and T(mc + 3) == '{'):
        raise Undecided('c24-macro-expand: `=> {` expected after the matcher')
    tc = L.match_close(text, toks, mc + 3)
    rest = [T(j) for j in range(tc + 1, dc)]
    if rest not in ([], [';']):
        raise Undecided('c24-macro-expand: the macro has more than one rule')
    res = {'def': (toks[d][1], toks[dc][2]), 'trans_toks': (mc + 4, tc), 'invocations': []}
    # invocations `name ! ( a , b , { T => h , ... } ) ;`
    for i in range(len(toks) - 2):
        if T(i) == name and T(i + 1) == '!' and T(i + 2) == '(' and T(i - 1) != '!':
            pc = L.match_close(text, toks, i + 2)
            if T(pc + 1) != ';':
                raise Undecided('c24-macro-expand: the invocation is not a statement `%s!(..);`' % name)
            args = _split_top(text, toks, i + 3, pc, [','])
            if len(args) != 3:
                raise Undecided('c24-macro-expand: the invocation has %d arguments' % len(args))
            simple = []
            for a, b in args[:2]:
                if b - a != 1 or toks[a][0] != 'ident':
                    raise Undecided('c24-macro-expand: an `expr` argument is not a plain identifier (textual substitution would need grouping)')
                simple.append(T(a))
            a, b = args[2]
            if T(a) != '{' or L.match_close(text, toks, a) != b - 1:
                raise Undecided('c24-macro-expand: third argument is not a braced table')
            arms = []
            for x, y in _split_top(text, toks, a + 1, b - 1, [',']):
                if x == y:
                    continue                      # `$(,)?`: trailing comma
                lr = _split_top(text, toks, x, y, ['=', '>'])
                if len(lr) != 2 or lr[0][1] - lr[0][0] != 1 or lr[1][1] - lr[1][0] != 1 \
                        or toks[lr[0][0]][0] != 'ident' or toks[lr[1][0]][0] != 'ident':
                    raise Undecided('c24-macro-expand: a table entry is not `TypeName => handler_name`: %s' % _norm(text, toks, x, y))
                arms.append((T(lr[0][0]), T(lr[1][0])))
            res['invocations'].append(((toks[i][1], toks[pc + 1][2]), simple[0], simple[1], arms))
    if not res['invocations']:
        raise Undecided('c24-macro-expand: macro %s is never invoked' % name)
    res['toks'] = toks
    return res


def _transcribe(text, toks, a, b, env, arms):
    """macro_rules transcription of toks[a:b] (source text preserved between tokens). `env`: the non-repeating metavariables,
    `arms`: list of dicts for the repeating ones (None inside a repetition)."""
    T = _T(text, toks)
    out = []
    pos = toks[a][1] if a < b else 0
    k = a
    while k < b:
        if T(k) == '$':
            out.append(text[pos:toks[k][1]])
            if T(k + 1) == '(':
                if arms is None:
                    raise Undecided('c24-macro-expand: nested repetition in the transcriber')
                gc = L.match_close(text, toks, k + 1)
                if T(gc + 1) in ('*', '+'):
                    sep, after = '', gc + 2
                elif T(gc + 2) in ('*', '+'):
                    sep, after = T(gc + 1), gc + 3
                else:
                    raise Undecided('c24-macro-expand: `$( .. )` without a repetition operator')
                used = {T(j + 1) for j in range(k + 2, gc) if T(j) == '$'}
                if not (used & set(arms[0].keys() if arms else {'req_type', 'handler'})):
                    raise Undecided('c24-macro-expand: a repetition that uses no repeating metavariable')
                reps = []
                for arm in arms:
                    e2 = dict(env)
                    e2.update(arm)
                    reps.append(text[toks[k + 1][2]:toks[k + 2][1]] + _transcribe(text, toks, k + 2, gc, e2, None)
                                + text[toks[gc - 1][2]:toks[gc][1]])
                out.append(sep.join(reps))
                pos = toks[after - 1][2]
                k = after
                continue
            name = T(k + 1)
            if toks[k + 1][0] != 'ident' or name not in env:
                raise Undecided('c24-macro-expand: `$%s` in the transcriber is not a metavariable of the matcher at this depth' % name)
            out.append(env[name])
            pos = toks[k + 1][2]
            k += 2
            continue
        k += 1
    out.append(text[pos:toks[b - 1][2]] if b > a else '')
    return ''.join(out)


@rule('c24-macro-expand')
def c24_macro_expand(text, name='dispatch_request', **_):
    """`dispatch_request!(R, C, { T1 => h1, .., Tn => hn });` -> the transcription of the macro's single rule, computed from the
    `macro_rules!` definition in the text (the repository's): `$request` := R, `$context` := C, every `$( .. )*` group repeated once per
    table entry with `$req_type` := Ti, `$handler` := hi; the definition itself is then removed. This is macro_rules semantics for the
    subset used here: ONE rule whose matcher is literally `($request:expr, $context:expr, { $($req_type:ty => $handler:expr),* $(,)? })`
    (otherwise Undecided), fragments that are single identifiers (an `expr` fragment that is one identifier needs no grouping), one level
    of repetition. Hygiene: macro-local `let`/closure bindings cannot capture call-site identifiers; the rule checks that no
    identifier of the transcriber equals a substituted `expr` identifier, so textual substitution and hygienic expansion coincide.
    `return` inside the expansion returns from the invoking fn (a macro is not a fn). The statement `m!(..);` becomes `EXPANSION;`."""
    p = parse_dispatch(text, name)
    toks = p['toks']
    T = _T(text, toks)
    a, b = p['trans_toks']
    body_idents = {T(k) for k in range(a, b) if toks[k][0] == 'ident' and T(k - 1) != '$'}
    edits = [(p['def'][0], p['def'][1], '')]
    for span, req, ctx, arms in p['invocations']:
        clash = body_idents & ({req, ctx} | {h for _, h in arms})
        if clash:
            raise Undecided('c24-macro-expand: transcriber identifier(s) %s equal a substituted expr fragment (hygiene)' % sorted(clash))
        env = {'request': req, 'context': ctx}
        exp = _transcribe(text, toks, a, b, env, [{'req_type': t, 'handler': h} for t, h in arms])
        edits.append((span[0], span[1], exp.strip() + ';'))
    for s, e, new in sorted(edits, reverse=True):
        text = text[:s] + new + text[e:]
    return text, len(p['invocations'])


# ---------------------------------------------------------------------------------------------
# other unit-local rules
# ---------------------------------------------------------------------------------------------
@rule('c24-match-const-chain')
def match_const_chain(text, **_):
    """`match E { P1 => B1 .. Pn => Bn  x => B }` with path patterns Pi naming constants (`<T>::METHOD`), block bodies, no guards and
    a final identifier pattern -> `{ let x = E; if x == P1 B1 else if x == P2 B2 .. else B };`. Rust reference, path patterns: a
    constant pattern matches when the scrutinee is (structurally) equal to the constant's value; for `&str` both that and `==` are
    string equality; arms are tried in order, the first match wins; the identifier pattern binds the scrutinee. `x` is bound in front
    of the chain: the rule checks that `x` does not occur in B1..Bn, and the block scopes it. (Verus: associated constants in
    patterns are not supported.)"""
    toks = L.code_tokens(text)
    T = _T(text, toks)
    n = 0
    for i in range(len(toks)):
        if not (toks[i][0] == 'ident' and T(i) == 'match'):
            continue
        j = i + 1
        while j < len(toks) and T(j) != '{':
            if T(j) in ('(', '['):
                j = L.match_close(text, toks, j)
            j += 1
        bo, bc = j, L.match_close(text, toks, j)
        if T(bo + 1) != '<':
            continue                      # another match
        scrut = text[toks[i + 1][1]:toks[bo - 1][2]]
        arms = []
        k = bo + 1
        while k < bc:
            p0 = k
            while not (T(k) == '=' and T(k + 1) == '>'):
                if T(k) in ('{', '(', '[') or k >= bc:
                    raise Undecided('c24-match-const-chain: unexpected pattern')
                k += 1
            pat = (p0, k)
            k += 2
            if T(k) != '{':
                raise Undecided('c24-match-const-chain: an arm body is not a block')
            ec = L.match_close(text, toks, k)
            arms.append((pat, (k, ec)))
            k = ec + 1
            if T(k) == ',':
                k += 1
        (lp0, lp1), last_body = arms[-1]
        if lp1 - lp0 != 1 or toks[lp0][0] != 'ident':
            raise Undecided('c24-match-const-chain: the last arm is not an identifier pattern')
        x = T(lp0)
        chain = []
        for (p0, p1), (b0, b1) in arms[:-1]:
            pt = _norm(text, toks, p0, p1)
            if not re.fullmatch(r'< \w+ > : : [A-Z_]+', pt):
                raise Undecided('c24-match-const-chain: pattern `%s` is not an associated constant' % pt)
            if any(toks[q][0] == 'ident' and T(q) == x for q in range(b0, b1)):
                raise Undecided('c24-match-const-chain: `%s` occurs in an earlier arm' % x)
            chain.append('if %s == %s %s' % (x, text[toks[p0][1]:toks[p1 - 1][2]], text[toks[b0][1]:toks[b1][2]]))
        chain.append(text[toks[last_body[0]][1]:toks[last_body[1]][2]])
        new = '{ let %s = %s;\n        %s }' % (x, scrut, '\n        else '.join(chain))
        text = text[:toks[i][1]] + new + text[toks[bc][2]:]
        n += 1
        break
    return text, n


@rule('async-seq-closure')
def async_seq_closure(text, **_):
    """async-seq (a3): `|args| async move { BODY }` -> `|args| { BODY }`. A closure that returns an async block returns a future whose
    only observable behaviour, once awaited to completion, is that of BODY; in the sequential schedule the future is its output, so the
    closure returns BODY's value (the callee's `Fut: Future<Output = T>` parameter becomes `T`, rule `async-seq-future-param`).
    `move`: the block owns what it captures; a Verus closure captures by value whatever BODY uses by value."""
    toks = L.code_tokens(text)
    T = _T(text, toks)
    cuts = []
    for i in range(1, len(toks) - 2):
        if T(i) == 'async' and T(i + 1) == 'move' and T(i + 2) == '{' and T(i - 1) == '|':
            cuts.append((toks[i][1], toks[i + 2][1]))
    for a, b in reversed(cuts):
        text = text[:a] + text[b:]
    return text, len(cuts)


@rule('c24-no-async-left')
def c24_no_async_left(text, **_):
    """check only (changes nothing): after the async-seq rules no `async` / `.await` is left in the item — every suspension point and every
    async block of the text has been given its sequential meaning by a named rule."""
    toks = L.code_tokens(text)
    for t in toks:
        if t[0] == 'ident' and L.tok_text(text, t) in ('async', 'await'):
            raise Undecided('c24-no-async-left: `%s` remains at offset %d' % (L.tok_text(text, t), t[1]))
    return text, 1


@rule('async-seq-future-param')
def async_seq_future_param(text, **_):
    """async-seq (a4): `fn f<F, Fut>(..) where F: FnOnce(A) -> Fut + B, Fut: Future<Output = T> + B'` -> `fn f<F>(..) where
    F: FnOnce(A) -> T + B`: in the sequential schedule a future is awaited to completion where it is created, i.e. it is its output."""
    m = re.search(r'\bFut: Future<Output = ((?:[^<>]|<[^<>]*>)*)>[^,{]*,\s*', text)
    if not m:
        return text, 0
    out_ty = m.group(1)
    text = text[:m.start()] + text[m.end():]
    text, n1 = re.subn(r'<F, Fut>', '<F>', text, count=1)
    text, n2 = re.subn(r'-> Fut\b', '-> ' + out_ty, text)
    if n1 != 1 or n2 != 1 or re.search(r'\bFut\b', text):
        raise Undecided('async-seq-future-param: unexpected use of the future type parameter')
    return text, 1


@rule('c24-shared-state')
def c24_shared_state(text, calls=(), callees=(), **_):
    """state-passing form of the state shared behind `&self` (same technique as c36_channel's `async-seq-chan`): the log of the client
    connection's channel and the contents of the `cancellations` mutex become the explicit ghost parameter `st`. `st` is appended to
    the method calls `V.m(..)` for the listed (V, m) pairs — V is the last identifier of the receiver path —, to the calls of the
    listed free fns `callees`, and to nothing else."""
    n = 0
    while True:
        toks = L.code_tokens(text)
        T = _T(text, toks)
        hit = None
        for i in range(2, len(toks) - 1):
            if toks[i][0] != 'ident' or T(i + 1) != '(':
                continue
            if T(i - 1) == '.':
                if (T(i - 2), T(i)) not in calls:
                    continue
            elif not (T(i) in callees and T(i - 1) not in ('fn', ':')):
                continue
            c = L.match_close(text, toks, i + 1)
            if T(c - 1) == 'st':
                continue
            if T(c - 1) == ',':
                hit = (toks[c - 1][2], toks[c][1], ' st')
            else:
                hit = (toks[c][1], toks[c][1], 'st' if c == i + 2 else ', st')
            break
        if not hit:
            break
        text = text[:hit[0]] + hit[2] + text[hit[1]:]
        n += 1
    return text, n


@rule('c24-ghost-param')
def c24_ghost_param(text, **_):
    """callee side of `c24-shared-state`: the fn takes the shared state as a last parameter `st: &mut Shared` (specification only)."""
    sh = X.fn_shape(text)
    a, b = sh.params
    inner = text[a + 1:b - 1].rstrip()
    if inner.endswith(','):
        new = inner + ' st: &mut Shared'
    elif inner.strip():
        new = inner + ', st: &mut Shared'
    else:
        new = 'st: &mut Shared'
    return text[:a + 1] + new + text[b - 1:], 1


@rule('c24-json-opaque')
def c24_json_opaque(text, **_):
    """`serde_json::json!({ .. })` -> `vx_json_value()`: the VALUE of the initialize result (capabilities, server name and version) is
    opaque; building it from Serialize values that serde_json can represent does not panic (the same value is built on every start)."""
    toks = L.code_tokens(text)
    T = _T(text, toks)
    for i in range(len(toks) - 5):
        if T(i) == 'serde_json' and T(i + 1) == ':' and T(i + 2) == ':' and T(i + 3) == 'json' and T(i + 4) == '!' and T(i + 5) == '(':
            c = L.match_close(text, toks, i + 5)
            return text[:toks[i][1]] + 'vx_json_value()' + text[toks[c][2]:], 1
    return text, 0


# ---------------------------------------------------------------------------------------------
# the routing table (read from the repository at load time): generated SHIMS + the spec fn `route`
# ---------------------------------------------------------------------------------------------
def _method_strings(names):
    """METHOD of every request type of the table: lsp_types (vendored crate source) or the repository (emmy/* requests)"""
    files = glob.glob(os.path.expanduser('~/.cargo/registry/src/*/emmy_lsp_types-0.1.0/src/**/*.rs'), recursive=True)
    files += glob.glob(os.path.join(REPO, LS, 'handlers', '**', '*.rs'), recursive=True)
    found = {}
    for f in sorted(files):
        try:
            src = open(f, encoding='utf-8').read()
        except OSError:
            continue
        for m in re.finditer(r'impl\s+(?:\w+::)*(?:Request|LspRequest)\s+for\s+(\w+)\s*\{[^{}]*?const\s+METHOD\s*:\s*&\'static\s+str\s*=\s*("[^"\\]*")\s*;', src):
            if m.group(1) in names:
                if found.get(m.group(1), m.group(2)) != m.group(2):
                    raise Undecided('two METHOD strings for %s' % m.group(1))
                found[m.group(1)] = m.group(2)
    missing = [n for n in names if n not in found]
    if missing:
        raise Undecided('METHOD string not found for request type(s) %s' % missing)
    return found


def _load():
    src = X.read_source(REPO, RH)
    fn = X.find_item(REPO, {'file': RH, 'kind': 'fn', 'name': 'on_request_handler'})
    sh = X.fn_shape(fn.raw)
    head = fn.raw[:sh.sig_end]
    body = fn.raw[sh.body_open + 1:sh.body_close]
    p = parse_dispatch(fn.raw + '\n' + X.find_item(REPO, {'file': RH, 'kind': 'macro_rules', 'name': '!'}).raw)
    if len(p['invocations']) != 1:
        raise Undecided('on_request_handler invokes dispatch_request! %d times' % len(p['invocations']))
    arms = p['invocations'][0][3]
    if len({t for t, _ in arms}) != len(arms) or len({h for _, h in arms}) != len(arms):
        raise Undecided('a request type or a handler occurs twice in the routing table')
    return head, body, arms


_HEAD, _BODY, ARMS = _load()
_METHODS = _method_strings([t for t, _ in ARMS])


def _generated():
    out = ['// ---- GENERATED by units/c24_dispatch/unit.py from the routing table of on_request_handler (%d entries) ----' % len(ARMS),
           '// per entry `T => h`: the request type T (lsp_types / emmy request; METHOD transcribed from its `impl Request for T`),',
           '// opaque parameter and result types, and the handler h as ONE uninterpreted shim shape: (snapshot, params, token) -> result']
    for t, h in ARMS:
        out.append('pub struct %s;' % t)
        out.append('#[verifier::external_body] pub struct P_%s { _p: () }' % t)
        out.append('#[verifier::external_body] pub struct R_%s { _p: () }' % t)
        out.append('impl LspRequest for %s { type Params = P_%s; type Result = R_%s; const METHOD: &\'static str = %s; }' % (t, t, t, _METHODS[t]))
        out.append('#[verifier::external_body] pub fn %s(context: ServerContextSnapshot, params: P_%s, cancel_token: CancellationToken) -> R_%s { unimplemented!() }' % (h, t, t))
    out.append('')
    out.append('/// where the routing table sends a request: the FIRST entry whose METHOD is the request\'s method, and whether the params')
    out.append('/// deserialize as that entry\'s parameter type; Unknown when no entry matches ("registered methods" = the table)')
    out.append('pub open spec fn route(req: Request) -> Route {')
    for k, (t, _) in enumerate(ARMS):
        out.append('    %sif req.method@ == <%s>::METHOD@ { Route::Known(deserializes::<<%s as LspRequest>::Params>(req.params)) }' % ('else ' if k else '', t, t))
    out.append('    %s{ Route::Unknown }' % ('else ' if ARMS else ''))
    out.append('}')
    return '\n'.join(out)


def _template():
    with open(os.path.join(os.path.dirname(os.path.abspath(__file__)), 'template.rs'), encoding='utf-8') as f:
        t = f.read()
    if t.count('//@@GENERATED routing-table') != 1:
        raise Undecided('template.rs: marker for the generated routing table lost')
    return t.replace('//@@GENERATED routing-table', _generated())


# ---------------------------------------------------------------------------------------------
# contracts
# ---------------------------------------------------------------------------------------------
N = len(ARMS)
SPIN = '#[verifier::spinoff_prover]'

DISPATCH = {
    # host of the slice = the macro definition (hash-tracked raw text); head / tail = signature and body of on_request_handler, both
    # extracted above at load time (nothing is typed by hand). The assembled text is the fn with the macro defined locally in front of its use (macro_rules are textually
    # scoped; names in the transcriber resolve at the expansion site either way) — everything the expansion depends on is in one item.
    'src': {'kind': 'slice', 'name': 'on_request_handler', 'in': {'file': RH, 'kind': 'macro_rules', 'name': '!'},
            'from': r'\Amacro_rules!\s*dispatch_request\b', 'to': r'\}\s*\Z', 'head': _HEAD, 'tail': _BODY},
    'rules': ['c24-macro-expand', 'c24-match-const-chain',
              'async-seq-fn', 'async-seq-await', 'async-seq-closure', 'c24-no-async-left', 'c24-closure-contract',
              ('c24-shared-state', {'calls': (('server_context', 'task'), ('server_context', 'send'))}),
              'c24-ghost-param', 'c24-error-type-opaque', 'c24-log-drop'],
    'attrs': SPIN,
    'ret': 'r',
    'requires': 'ctx_wf(&*old(server_context), &*old(st))',
    'ensures': '''
            // the main loop goes on: an Err would propagate through handle_message / process_message / run / main_loop and end the server
            r is Ok /*@C24.dispatch.keeps-serving*/,
            // a registered method whose params deserialize: the log grew by exactly one response, carrying req.id (the handler's
            // result, or RequestCanceled when the token was cancelled)
            route(req) == Route::Known(true) ==> one_response(&*old(st), &*final(st), req.id) /*@C24.dispatch.exactly-one-response*/,
            // ... and a registered method is never answered "method not found"
            route(req) is Known ==> !one_error(&*old(st), &*final(st), req.id, ErrorCode::MethodNotFound as i32) /*@C24.dispatch.registered-method-routed*/,
            // a method that is not in the table: exactly one response, the MethodNotFound error for req.id
            route(req) is Unknown ==> one_error(&*old(st), &*final(st), req.id, ErrorCode::MethodNotFound as i32) /*@C24.dispatch.unknown-method-answered*/,
            // a registered method whose params are MALFORMED or MISSING: exactly one response for req.id, an error
            route(req) == Route::Known(false) ==> one_response(&*old(st), &*final(st), req.id) && last_is_error(&*final(st)) /*@C24.dispatch.malformed-params-answered*/,
            // bookkeeping: the task's cancellation entry is gone when the response is out; every other entry is untouched
            final(st).cancellations@ =~= (if route(req) == Route::Known(true) { old(st).cancellations@.remove(req.id) } else { old(st).cancellations@ }) /*@C24.dispatch.cancellation-entry-removed*/,
            same_ids(&*old(st), &*final(st)), ctx_wf(&*final(server_context), &*final(st))''',
}

TASK = {
    'src': {'file': CTX, 'kind': 'fn', 'impl': 'ServerContext', 'name': 'task'},
    'rules': ['async-seq-fn', 'async-seq-future-param', ('async-seq-await', {'count': 3}), ('async-seq-spawn', {'count': 1}),
              ('c24-shared-state', {'calls': (('cancellations', 'insert'), ('cancellations', 'remove'), ('sender', 'send'))}),
              'c24-no-async-left', 'c24-ghost-param'],
    'attrs': SPIN,
    'requires': '''
            ctx_wf(self, &*old(st)),
            forall|t: CancellationToken| call_requires(exec, (t,)),
            // the caller's side of "carries the request id": whatever response the closure builds is one for req_id
            forall|t: CancellationToken, x: Response| call_ensures(exec, (t,), Some(x)) ==> x.id == req_id''',
    'ensures': '''
            // the three-way branch: exactly one message is handed to the sender, a response for req_id
            one_response(&*old(st), &*final(st), req_id) /*@C24.task.exactly-one-send*/,
            // and it is RequestCanceled, or InternalError (the closure returned None), or the closure's response
            task_answer(final(st).sent@.last(), exec) /*@C24.task.answer-kind*/,
            final(st).cancellations@ =~= old(st).cancellations@.remove(req_id) /*@C24.task.cancellation-entry-removed*/,
            same_ids(&*old(st), &*final(st))''',
}

SEND = {
    'src': {'file': CTX, 'kind': 'fn', 'impl': 'ServerContext', 'name': 'send'},
    'rules': [('c24-shared-state', {'calls': (('sender', 'send'),), 'optional': True}), 'c24-ghost-param'],
    'requires': 'ctx_wf(self, &*old(st))',
    'ensures': '''
            final(st).sent@ == old(st).sent@.push(Message::Response(response)) /*@C24.send.exactly-one-send*/,
            final(st).cancellations == old(st).cancellations, same_ids(&*old(st), &*final(st))''',
}

CANCEL = {
    'src': {'file': CTX, 'kind': 'fn', 'impl': 'ServerContext', 'name': 'cancel'},
    'rules': ['async-seq-fn', ('async-seq-await', {'count': 1}),
              ('c24-shared-state', {'calls': (('cancellations', 'get'), ('sender', 'send'))}), 'c24-no-async-left', 'c24-ghost-param'],
    'requires': 'ctx_wf(self, &*old(st))',
    'ensures': '''
            // `$/cancelRequest` itself answers nothing (the cancelled task does: C24.task.exactly-one-send) and forgets nothing
            final(st).sent == old(st).sent /*@C24.cancel.sends-nothing*/,
            final(st).cancellations == old(st).cancellations, same_ids(&*old(st), &*final(st))''',
}

_RUN_LS = X.find_item(REPO, {'file': SRV, 'kind': 'fn', 'name': 'run_ls'}).raw
INITIALIZE = {
    'src': {'kind': 'slice', 'name': 'run_ls_initialize', 'in': {'file': SRV, 'kind': 'fn', 'name': 'run_ls'},
            # the handshake: from the first statement that deals with the `initialize` request to `initialize_finish`
            'from': r'let \(id, params\) = connection\.initialize_start\(\)\?;',
            'to': r'connection\.initialize_finish\(id, initialize_data\)\?;',
            'head': 'pub fn run_ls_initialize(connection: Connection, st: &mut Shared) -> Result<(), BoxedError>', 'tail': 'Ok(())'},
    'rules': [('c24-shared-state', {'calls': (('connection', 'initialize_start'), ('connection', 'initialize_finish'), ('sender', 'send')),
                                    'optional': True}),
              'c24-json-opaque', ('c24-format-opaque', {'optional': True}), ('c24-label-init-unwrap', {'optional': True})],
    'attrs': SPIN + '\n#[verifier::exec_allows_no_decreases_clause]',
    'ret': 'r',
    'requires': 'connection.sender.chan() == old(st).chan@',
    'ensures': '''
            // every `initialize` request handed out by the connection got exactly one response from this code, in order: a
            // malformed one its error, the well-formed one the InitializeResult (sent by initialize_finish)
            init_answered(&*old(st), &*final(st), false) /*@C24.initialize.exactly-one-response*/,
            r is Ok ==> final(st).sent@.len() > old(st).sent@.len()
                && (final(st).sent@.last() matches Message::Response(x) && x.error is None) /*@C24.initialize.handshake-completes*/''',
}
if re.search(r'while\s+initialize\.is_none\(\)', _RUN_LS):
    # the repaired shape (proposed_fix_initialize_params.diff): a loop that answers malformed `initialize` requests and waits for the next
    INITIALIZE['src']['from'] = r'let mut initialize = None;'
    INITIALIZE['loops'] = {0: '''invariant
                connection.sender.chan() == st.chan@, same_ids_but_init(&*old(st), &*st),
                init_answered(&*old(st), &*st, initialize is Some) /*@C24.initialize.exactly-one-response.inv*/,
                forall|x: (RequestId, InitializeParams)| initialize == Some(x) ==> st.init@.last() == x.0,'''}

HANDLE_MESSAGE = {
    'src': {'file': MP, 'kind': 'fn', 'impl': 'ServerMessageProcessor', 'name': 'handle_message'},
    'rules': ['async-seq-fn', ('async-seq-await', {'count': 5}), 'c24-no-async-left',
              ('c24-shared-state', {'calls': (('connection', 'handle_shutdown'),),
                                    'callees': ('on_request_handler', 'on_notification_handler', 'on_response_handler')}),
              'c24-ghost-param', 'c24-error-type-opaque'],
    'attrs': SPIN,
    'ret': 'r',
    'requires': 'ctx_wf(&*old(server_context), &*old(st))',
    'ensures': '''
            // a request other than `shutdown`: the main loop goes on (`run` leaves its loop on Ok(true) and ends the server with `?` on Err)
            (match msg { Message::Request(req) => req.method@ != "shutdown"@ ==> (r matches Ok(stop) && !stop), _ => true }) /*@C24.loop.keeps-serving*/,
            // ... and it is answered as the dispatcher answers it
            (match msg { Message::Request(req) => req.method@ != "shutdown"@ ==> answered(req, &*old(st), &*final(st)), _ => true }) /*@C24.loop.request-answered-once*/,
            // `shutdown`: its one response (sent by handle_shutdown), then the server stops, as requested
            (match msg { Message::Request(req) => req.method@ == "shutdown"@ ==> one_response(&*old(st), &*final(st), req.id) && !(r matches Ok(false)),
                         _ => true }) /*@C24.loop.shutdown-answered-once*/''',
}

UNIT = {
    'items': {
        'ServerContext': {'src': {'file': CTX, 'kind': 'struct', 'name': 'ServerContext'},
                          'rules': [('struct-fields', {'keep': ['conn', 'cancellations', 'inner']})]},
        'ServerContext::snapshot': {'src': {'file': CTX, 'kind': 'fn', 'impl': 'ServerContext', 'name': 'snapshot'}},
        'ServerContext::send': SEND,
        'ServerContext::task': TASK,
        'ServerContext::cancel': CANCEL,
        'on_request_handler': DISPATCH,
        'run_ls::initialize': INITIALIZE,
        'ServerMessageProcessor::handle_message': HANDLE_MESSAGE,
    },
    'extra_rules': [
        ('c24-closure-contract', r'\|cancel_token\| \{',
         '|cancel_token: CancellationToken| -> (r: Option<Response>) ensures r matches Some(x) && x.id == id && x.error is None {',
         'contract overlay on the task closure (one per table entry): parameter type, named result and `ensures` are added, the body is kept '
         'verbatim and Verus checks the ensures against it'),
        ('c24-format-opaque', r'format!\("(?:[^"\\]|\\.)*"\)', 'vx_format()',
         '`format!("..{err}..")` -> `vx_format()`: the message TEXT of an error response is opaque (Display of a serde_json::Error does not panic)'),
        ('c24-label-init-unwrap', r'(serde_json::from_value\(params\)\.unwrap\(\);)', r'\1 /*@C24.initialize.exactly-one-response*/',
         'label only (a comment): the precondition of this `unwrap` is the property clause — a panic here ends the server before the '
         '`initialize` request got any response'),
        ('c24-error-type-opaque', r'Box<dyn Error \+ Sync \+ Send>', 'BoxedError',
         '`Box<dyn Error + Sync + Send>` -> `BoxedError` in a signature: the error VALUE is opaque, only Ok / Err is under contract'),
        ('c24-log-drop', r'\n[ \t]*error!\((?:[^()"]|"(?:[^"\\]|\\.)*"|\((?:[^()"]|"(?:[^"\\]|\\.)*")*\))*\);', '',
         '`error!(..);` of the `log` crate dropped: it formats its arguments (Display / Debug of strings and error values) and hands the '
         'line to the logger; no part of any claimed clause'),
    ],
    'allow': [r'external_body', r'uninterp'],
    'min_obligations': 40,
    'trusted': [
        'rule family async-seq = the SEQUENTIAL SCHEDULE of the async text (rules async-seq-fn / -await / -spawn are unit c36_channel\'s, loaded from its '
        'unit.py; -closure and -future-param are this unit\'s): `async fn` / `.await` are plain fns / calls; `tokio::spawn(async move { BODY })` runs BODY '
        'to completion, exactly once, at the spawn point; a closure returning an async block returns the block\'s value. ABSTRACTED AWAY: scheduling and '
        'interleaving; a task that PANICS (a panicking handler, or `serde_json::to_value(result).unwrap()` inside Response::new_ok) dies without sending '
        'anything — that request id gets no response (C25 / C12 territory); a task that is never polled (runtime shutdown); mutex contention',
        'the cancellation flag is modelled as ARBITRARY: CancellationToken::is_cancelled returns an unconstrained bool (a `$/cancelRequest` may be handled '
        'at any time while the task runs); `task` is proved to send exactly one response whatever it returns',
        'state-passing model (rules c24-shared-state / c24-ghost-param): the log `st.sent` records every message handed to a Sender of the client '
        'connection\'s channel BY THE CODE UNDER PROOF (and by lsp_server\'s initialize_finish / handle_shutdown on its behalf); crossbeam `send` = append '
        '(its Err, writer thread gone, is discarded by the callers); the contents of the `cancellations` tokio Mutex = `st.cancellations`, reached through '
        'the guard (DerefMut) with HashMap insert / remove / get semantics; precondition ctx_wf: the context\'s sender and mutex ARE the ones `st` describes '
        '(ServerContext::new builds them so; Arc::clone / Sender::clone keep the identity)',
        'lsp_server 0.7.9 shims, transcribed from its source: Request / Response / ResponseError / Notification / Message as data, ErrorCode discriminants, '
        'Response::new_err (body verified), Response::new_ok (result Some, error None; its unwrap not modelled), Request::extract (Ok iff method matches and '
        'the params deserialize, the id is the request\'s; MethodMismatch(req) / JsonError otherwise), Connection::initialize_start (hands out the next '
        '`initialize` request; the ServerNotInitialized replies it sends ITSELF to earlier requests are the library\'s and are not logged), '
        'Connection::initialize_finish (sends new_ok(id, result) once, then waits for `initialized`)',
        '`deserializes::<P>(v)` (= serde_json::from_value::<P>(v) is Ok) is uninterpreted: nothing is assumed about which JSON values deserialize',
        'the routing table (request type => handler) is READ from the invocation in the repository at load time; per entry the unit generates an opaque '
        'parameter / result type, the METHOD string (transcribed from the `impl Request for T` in emmy_lsp_types 0.1.0 / the repository) and ONE handler shim '
        'shape `h(snapshot, params, token) -> result` without contract; "registered method" = a method of this table (the spec fn `route` is generated from it, '
        'first match wins as in the code). METHOD strings are not assumed distinct',
        'macro expansion: rule c24-macro-expand implements macro_rules transcription for the single-rule, one-level-repetition shape of dispatch_request! '
        '(see its doc string); it is not rustc\'s expander. Cross-check: the END-TO-END replay (replay/c24) observes the same behaviour on the compiled server',
        'AsyncConnection::handle_shutdown is a SHIM in handle_message (contract written from its text: nothing sent and Ok(false) unless the method is '
        '`shutdown`; otherwise one new_ok response for req.id and Ok(true) / Err); ServerContext::close, on_notification_handler, on_response_handler: opaque',
        'initialize slice: serde_json::json!(..) and format!(..) values are opaque (rules c24-json-opaque / c24-format-opaque); server_capabilities(..) is an opaque shim',
        'error values (`Box<dyn Error + Sync + Send>`, ProtocolError) are opaque; only Ok / Err is under contract (rule c24-error-type-opaque)',
        '`error!(..)` log lines dropped (rule c24-log-drop); vstd: String::as_str / str equality / to_string, Option, Result::unwrap (requires Ok), Arc',
    ],
    'not_covered': [
        'real tokio scheduling: interleavings of the request tasks with the main loop, duplicate request ids in flight (the second task\'s token replaces the '
        'first in `cancellations`), back-pressure; the transport (reader / writer threads, framing, flushing)',
        'a handler that panics: its task dies without a response for that id (C25 / C12); the `None` (InternalError) branch of `task` is proved but is '
        'unreachable from the dispatcher (its closure always returns Some)',
        'notifications (on_notification_handler, incl. routing of `$/cancelRequest` to ServerContext::cancel) and client responses (on_response_handler)',
        'the main loop around handle_message (LspServer::run / wait_for_initialization / process_pending_messages): by reading, `?` on an Err of '
        'handle_message ends `run`, hence the server; Ok(false) continues; requests that arrive during initialization are queued and dispatched afterwards',
        'AsyncConnection::handle_shutdown\'s own text (tokio::time::timeout, match guards, boxed ExitError): shimmed, see trusted',
        'run_ls outside the handshake slice (transport selection, main_loop, threads.join)',
    ],
    'samples': [
        'on_request_handler(req): returns Ok(()) always; route(req)==Known(true) -> log grew by exactly one Response with id req.id, never MethodNotFound; '
        'route(req)==Unknown -> exactly one Response{id: req.id, error.code: -32601}; route(req)==Known(false) -> exactly one error Response for req.id '
        '[FAILS on the unrepaired tree: nothing is sent]',
        'ServerContext::task(req_id, exec): log grew by exactly one Response for req_id: RequestCanceled | InternalError | exec\'s response; cancellations == old.remove(req_id)',
        'ServerContext::cancel: sends nothing, forgets nothing; ServerContext::send: exactly the given response',
        'run_ls handshake: every initialize id handed out by the connection is answered exactly once, in order [unrepaired tree: `from_value(params).unwrap()` '
        'panics on params that do not deserialize -> no response, server dead]',
        'handle_message(Request(req)), req.method != "shutdown": Ok(false) (loop goes on) and `answered(req, ..)`; "shutdown": one response, not Ok(false)',
    ],
    'mutants': [
        {'name': 'unknown-method-not-answered', 'item': 'on_request_handler',
         'pattern': r'("handler not found"\.to_string\(\),\s*\);\s*)\$context\.send\(response\);', 'repl': r'\1',
         'expect': r'C24\.dispatch\.unknown-method-answered'},
        {'name': 'table-entry-dropped', 'item': 'on_request_handler',
         'pattern': r'HoverRequest => on_hover,', 'repl': '',
         # (METHOD strings are not known to be distinct, so the edit also shows as a hover request served by another entry's parameter type)
         'expect': r'C24\.dispatch\.(registered-method-routed|cancellation-entry-removed)'},
        {'name': 'task-sends-cancel-error-and-result', 'item': 'ServerContext::task',
         'pattern': r'\} else if let Some\(it\) = res \{', 'repl': '} if let Some(it) = res {', 'expect': r'C24\.task\.exactly-one-send'},
        {'name': 'task-silent-on-none', 'item': 'ServerContext::task',
         'pattern': r'("internal error"\.to_string\(\),\s*\);\s*)let _ = sender\.send\(Message::Response\(response\)\);', 'repl': r'\1',
         'expect': r'C24\.task\.exactly-one-send'},
        {'name': 'task-entry-not-removed', 'item': 'ServerContext::task',
         'pattern': r'\n\s*cancellations\.remove\(&req_id\);', 'repl': '', 'expect': r'C24\.task\.cancellation-entry-removed'},
        {'name': 'send-dropped', 'item': 'ServerContext::send',
         'pattern': r'let _ = self\.conn\.sender\.send\(Message::Response\(response\)\);', 'repl': '', 'expect': r'C24\.send\.exactly-one-send'},
        {'name': 'cancel-answers-itself', 'item': 'ServerContext::cancel',
         'pattern': r'cancel_token\.cancel\(\);',
         'repl': 'cancel_token.cancel(); let _ = self.conn.sender.send(Message::Response(Response::new_err(req_id.clone(), ErrorCode::RequestCanceled as i32, "cancel".to_string())));',
         'expect': r'C24\.cancel\.sends-nothing'},
        {'name': 'loop-stops-after-request', 'item': 'ServerMessageProcessor::handle_message',
         'pattern': r'Ok\(false\)\s*\}\s*$', 'repl': 'Ok(true)\n}', 'expect': r'C24\.loop\.keeps-serving'},
    ],
    # an edit that changes NOTHING (run by hand, must verify): `return Ok(());` removed from the arms' success path. A Rust match arm never
    # falls through into the next arm (the catch-all included): control leaves the `match`, reaches the fn's final `Ok(())` and returns the
    # same value; no second response can be sent on that way.
    'equivalent_edits': [
        {'name': 'arm-return-removed', 'item': 'on_request_handler', 'pattern': r'(\}\)\.await;\s*)return Ok\(\(\)\);', 'repl': r'\1'},
    ],
}
_MACRO = X.find_item(REPO, {'file': RH, 'kind': 'macro_rules', 'name': '!'}).raw
if 'InvalidParams' in _MACRO:
    # mutants of the REPAIRED dispatcher (proposed_fix_invalid_params.diff); on the unrepaired tree the clause fails without any edit
    UNIT['mutants'].append(
        {'name': 'invalid-params-answer-dropped', 'item': 'on_request_handler',
         'pattern': r'("invalid params"\.to_string\(\),\s*\);\s*)\$context\.send\(response\);', 'repl': r'\1',
         'expect': r'C24\.dispatch\.malformed-params-answered'})
if 'loops' in INITIALIZE:
    UNIT['mutants'].append(
        {'name': 'malformed-initialize-not-answered', 'item': 'run_ls::initialize',
         'pattern': r'let _ = connection\.sender\.send\(response\.into\(\)\);', 'repl': '',
         'expect': r'C24\.initialize\.exactly-one-response'})
    UNIT['mutants'].append(
        {'name': 'initialize-answered-twice', 'item': 'run_ls::initialize',
         'pattern': r'Ok\(initialization_params\) => initialize = Some\(\(id, initialization_params\)\),',
         'repl': 'Ok(initialization_params) => { let _ = connection.sender.send(Response::new_ok(id.clone(), 0u8).into()); initialize = Some((id, initialization_params)) }',
         'expect': r'C24\.initialize\.exactly-one-response'})
UNIT['template_text'] = _template()
