"""unit c24_dispatch — C24 "every client request gets exactly one response": the ROUTING layer of emmylua_ls.

  * `on_request_handler` (handlers/request_handler.rs): one `dispatch_request!` invocation. The macro is expanded MECHANICALLY by
    rule `c24-macro-expand`, an implementation of this `macro_rules!` definition (the definition is read from the repository on
    every run; the rule refuses — Undecided — when the matcher changes shape or the transcriber uses anything but the four
    metavariables and one-level repetition).
  * `ServerContext::{task, send, cancel, snapshot}` (context/mod.rs)
  * the `initialize` handshake: a slice of `run_ls` (server/mod.rs)
  * `ServerMessageProcessor::handle_message` (server/message_processor.rs): what an `Err` of the dispatcher would do

Verus verifies sequential code. As in unit c36_channel the async text is verified in its SEQUENTIAL SCHEDULE (rule family `async-seq`,
the three rules `async-seq-fn`, `async-seq-await`, `async-seq-spawn` are c36_channel's, loaded from its unit.py): a spawned task runs
its body to completion, exactly once, at the spawn point. The state shared behind `&self` (the client connection's channel and the
`cancellations` mutex) becomes the explicit ghost parameter `st` (rule `c24-shared-state`): `st.sent` is the log of every message
handed to a sender of the connection. What is proved is therefore WHICH responses are sent, not when."""
import glob
import importlib.util
import os
import re

from vc import extract as X
from vc import rustlex as L
from vc.assemble import REPO, VERIF
from vc.extract import Undecided
from vc.rules import rule

LS = 'crates/emmylua_ls/src/'
RH = LS + 'handlers/request_handler.rs'
CTX = LS + 'context/mod.rs'
SRV = LS + 'server/mod.rs'
MP = LS + 'server/message_processor.rs'
CONN = LS + 'server/connection.rs'

# rule family async-seq: ONE definition (unit c36_channel's); loading its unit.py registers the rules in the catalogue
_spec = importlib.util.spec_from_file_location('unit_c36_channel_for_c24', os.path.join(VERIF, 'units', 'c36_channel', 'unit.py'))
_c36 = importlib.util.module_from_spec(_spec)
_spec.loader.exec_module(_c36)


def _T(text, toks):
    return lambda i: L.tok_text(text, toks[i]) if 0 <= i < len(toks) else ''


def _norm(text, toks, a, b):
    return ' '.join(L.tok_text(text, toks[k]) for k in range(a, b))


# ---------------------------------------------------------------------------------------------
# rule c24-macro-expand: an implementation of `macro_rules! dispatch_request`
# ---------------------------------------------------------------------------------------------
MATCHER = '$ request : expr , $ context : expr , { $ ( $ req_type : ty = > $ handler : expr ) , * $ ( , ) ? }'


def _split_top(text, toks, a, b, sep):
    """split toks[a:b] at depth-0 occurrences of the token sequence `sep` (list of strings)"""
    parts, cur, k = [], a, a
    T = _T(text, toks)
    while k < b:
        t = T(k)
        if t in ('(', '[', '{'):
            k = L.match_close(text, toks, k) + 1
            continue
        if [T(k + j) for j in range(len(sep))] == sep and all(toks[k + j + 1][1] == toks[k + j][2] for j in range(len(sep) - 1)):
            parts.append((cur, k))
            k += len(sep)
            cur = k
            continue
        k += 1
    parts.append((cur, b))
    return parts


def parse_dispatch(text, name='dispatch_request'):
    """-> dict(def_span, matcher_ok, transcriber (text span), invocations [(span, request, context, [(ty, handler)])])"""
    toks = L.code_tokens(text)
    T = _T(text, toks)
    d = None
    for i in range(len(toks) - 3):
        if T(i) == 'macro_rules' and T(i + 1) == '!' and T(i + 2) == name and T(i + 3) == '{':
            if d is not None:
                raise Undecided('c24-macro-expand: macro %s is defined twice' % name)
            d = i
    if d is None:
        raise Undecided('c24-macro-expand: no `macro_rules! %s` in the text' % name)
    dc = L.match_close(text, toks, d + 3)
    # exactly one rule: ( MATCHER ) => { TRANSCRIBER } [;]
    k = d + 4
    if T(k) != '(':
        raise Undecided('c24-macro-expand: the macro rule does not start with a parenthesised matcher')
    mc = L.match_close(text, toks, k)
    if _norm(text, toks, k + 1, mc) != MATCHER:
        raise Undecided('c24-macro-expand: the matcher of %s changed shape: %s' % (name, _norm(text, toks, k + 1, mc)))
    if not (T(mc + 1) == '=' and T(mc + 2) == '>' and T(mc + 3) == '{'):
        raise Undecided('c24-macro-expand: `=> {` expected after the matcher')
    tc = L.match_close(text, toks, mc + 3)
    rest = [T(j) for j in range(tc + 1, dc)]
    if rest not in ([], [';']):
        raise Undecided('c24-macro-expand: the macro has more than one rule')
    res = {'def': (toks[d][1], toks[dc][2]), 'trans_toks': (mc + 4, tc), 'invocations': []}
    # invocations `name ! ( a , b , { T => h , ... } ) ;`
    for i in range(len(toks) - 2):
        if T(i) == name and T(i + 1) == '!' and T(i + 2) == '(' and T(i - 1) != '!':
            pc = L.match_close(text, toks, i + 2)
            if T(pc + 1) != ';':
                raise Undecided('c24-macro-expand: the invocation is not a statement `%s!(..);`' % name)
            args = _split_top(text, toks, i + 3, pc, [','])
            if len(args) != 3:
                raise Undecided('c24-macro-expand: the invocation has %d arguments' % len(args))
            simple = []
            for a, b in args[:2]:
                if b - a != 1 or toks[a][0] != 'ident':
                    raise Undecided('c24-macro-expand: an `expr` argument is not a plain identifier (textual substitution would need grouping)')
                simple.append(T(a))
            a, b = args[2]
            if T(a) != '{' or L.match_close(text, toks, a) != b - 1:
                raise Undecided('c24-macro-expand: third argument is not a braced table')
            arms = []
            for x, y in _split_top(text, toks, a + 1, b - 1, [',']):
                if x == y:
                    continue                      # `$(,)?`: trailing comma
                lr = _split_top(text, toks, x, y, ['=', '>'])
                if len(lr) != 2 or lr[0][1] - lr[0][0] != 1 or lr[1][1] - lr[1][0] != 1 \
                        or toks[lr[0][0]][0] != 'ident' or toks[lr[1][0]][0] != 'ident':
                    raise Undecided('c24-macro-expand: a table entry is not `TypeName => handler_name`: %s' % _norm(text, toks, x, y))
                arms.append((T(lr[0][0]), T(lr[1][0])))
            res['invocations'].append(((toks[i][1], toks[pc + 1][2]), simple[0], simple[1], arms))
    if not res['invocations']:
        raise Undecided('c24-macro-expand: macro %s is never invoked' % name)
    res['toks'] = toks
    return res


def _transcribe(text, toks, a, b, env, arms):
    """macro_rules transcription of toks[a:b] (source text preserved between tokens). `env`: the non-repeating metavariables,
    `arms`: list of dicts for the repeating ones (None inside a repetition)."""
    T = _T(text, toks)
    out = []
    pos = toks[a][1] if a < b else 0
    k = a
    while k < b:
        if T(k) == '$':
            out.append(text[pos:toks[k][1]])
            if T(k + 1) == '(':
                if arms is None:
                    raise Undecided('c24-macro-expand: nested repetition in the transcriber')
                gc = L.match_close(text, toks, k + 1)
                if T(gc + 1) in ('*', '+'):
                    sep, after = '', gc + 2
                elif T(gc + 2) in ('*', '+'):
                    sep, after = T(gc + 1), gc + 3
                else:
                    raise Undecided('c24-macro-expand: `$( .. )` without a repetition operator')
                used = {T(j + 1) for j in range(k + 2, gc) if T(j) == '$'}
                if not (used & set(arms[0].keys() if arms else {'req_type', 'handler'})):
                    raise Undecided('c24-macro-expand: a repetition that uses no repeating metavariable')
                reps = []
                for arm in arms:
                    e2 = dict(env)
                    e2.update(arm)
                    reps.append(text[toks[k + 1][2]:toks[k + 2][1]] + _transcribe(text, toks, k + 2, gc, e2, None)
                                + text[toks[gc - 1][2]:toks[gc][1]])
                out.append(sep.join(reps))
                pos = toks[after - 1][2]
                k = after
                continue
            name = T(k + 1)
            if toks[k + 1][0] != 'ident' or name not in env:
                raise Undecided('c24-macro-expand: `$%s` in the transcriber is not a metavariable of the matcher at this depth' % name)
            out.append(env[name])
            pos = toks[k + 1][2]
            k += 2
            continue
        k += 1
    out.append(text[pos:toks[b - 1][2]] if b > a else '')
    return ''.join(out)


@rule('c24-macro-expand')
def c24_macro_expand(text, name='dispatch_request', **_):
    """`dispatch_request!(R, C, { T1 => h1, .., Tn => hn });` -> the transcription of the macro's single rule, computed from the
    `macro_rules!` definition in the text (the repository's): `$request` := R, `$context` := C, every `$( .. )*` group repeated once per
    table entry with `$req_type` := Ti, `$handler` := hi; the definition itself is then removed. This is macro_rules semantics for the
    subset used here: ONE rule whose matcher is literally `($request:expr, $context:expr, { $($req_type:ty => $handler:expr),* $(,)? })`
    (otherwise Undecided), fragments that are single identifiers (an `expr` fragment that is one identifier needs no grouping), one level
    of repetition. Hygiene: macro-local `let`/closure bindings cannot capture call-site identifiers; the rule checks that no
    identifier of the transcriber equals a substituted `expr` identifier, so textual substitution and hygienic expansion coincide.
    `return` inside the expansion returns from the invoking fn (a macro is not a fn). The statement `m!(..);` becomes `EXPANSION;`."""
    p = parse_dispatch(text, name)
    toks = p['toks']
    T = _T(text, toks)
    a, b = p['trans_toks']
    body_idents = {T(k) for k in range(a, b) if toks[k][0] == 'ident' and T(k - 1) != '$'}
    edits = [(p['def'][0], p['def'][1], '')]
    for span, req, ctx, arms in p['invocations']:
        clash = body_idents & ({req, ctx} | {h for _, h in arms})
        if clash:
            raise Undecided('c24-macro-expand: transcriber identifier(s) %s equal a substituted expr fragment (hygiene)' % sorted(clash))
        env = {'request': req, 'context': ctx}
        exp = _transcribe(text, toks, a, b, env, [{'req_type': t, 'handler': h} for t, h in arms])
        edits.append((span[0], span[1], exp.strip() + ';'))
    for s, e, new in sorted(edits, reverse=True):
        text = text[:s] + new + text[e:]
    return text, len(p['invocations'])


# ---------------------------------------------------------------------------------------------
# other unit-local rules
# ---------------------------------------------------------------------------------------------
@rule('c24-match-const-chain')
def match_const_chain(text, **_):
    """`match E { P1 => B1 .. Pn => Bn  x => B }` with path patterns Pi naming constants (`<T>::METHOD`), block bodies, no guards and
    a final identifier pattern -> `{ let x = E; if x == P1 B1 else if x == P2 B2 .. else B };`. Rust reference, path patterns: a
    constant pattern matches when the scrutinee is (structurally) equal to the constant's value; for `&str` both that and `==` are
    string equality; arms are tried in order, the first match wins; the identifier pattern binds the scrutinee. `x` is bound in front
    of the chain: the rule checks that `x` does not occur in B1..Bn, and the block scopes it. (Verus: associated constants in
    patterns are not supported.)"""
    toks = L.code_tokens(text)
    T = _T(text, toks)
    n = 0
    for i in range(len(toks)):
        if not (toks[i][0] == 'ident' and T(i) == 'match'):
            continue
        j = i + 1
        while j < len(toks) and T(j) != '{':
            if T(j) in ('(', '['):
                j = L.match_close(text, toks, j)
            j += 1
        bo, bc = j, L.match_close(text, toks, j)
        if T(bo + 1) != '<':
            continue                      # another match
        scrut = text[toks[i + 1][1]:toks[bo - 1][2]]
        arms = []
        k = bo + 1
        while k < bc:
            p0 = k
            while not (T(k) == '=' and T(k + 1) == '>'):
                if T(k) in ('{', '(', '[') or k >= bc:
                    raise Undecided('c24-match-const-chain: unexpected pattern')
                k += 1
            pat = (p0, k)
            k += 2
            if T(k) != '{':
                raise Undecided('c24-match-const-chain: an arm body is not a block')
            ec = L.match_close(text, toks, k)
            arms.append((pat, (k, ec)))
            k = ec + 1
            if T(k) == ',':
                k += 1
        (lp0, lp1), last_body = arms[-1]
        if lp1 - lp0 != 1 or toks[lp0][0] != 'ident':
            raise Undecided('c24-match-const-chain: the last arm is not an identifier pattern')
        x = T(lp0)
        chain = []
        for (p0, p1), (b0, b1) in arms[:-1]:
            pt = _norm(text, toks, p0, p1)
            if not re.fullmatch(r'< \w+ > : : [A-Z_]+', pt):
                raise Undecided('c24-match-const-chain: pattern `%s` is not an associated constant' % pt)
            if any(toks[q][0] == 'ident' and T(q) == x for q in range(b0, b1)):
                raise Undecided('c24-match-const-chain: `%s` occurs in an earlier arm' % x)
            chain.append('if %s == %s %s' % (x, text[toks[p0][1]:toks[p1 - 1][2]], text[toks[b0][1]:toks[b1][2]]))
        chain.append(text[toks[last_body[0]][1]:toks[last_body[1]][2]])
        new = '{ let %s = %s;\n        %s }' % (x, scrut, '\n        else '.join(chain))
        text = text[:toks[i][1]] + new + text[toks[bc][2]:]
        n += 1
        break
    return text, n


@rule('async-seq-closure')
def async_seq_closure(text, **_):
    """async-seq (a3): `|args| async move { BODY }` -> `|args| { BODY }`. A closure that returns an async block returns a future whose
    only observable behaviour, once awaited to completion, is that of BODY; in the sequential schedule the future is its output, so the
    closure returns BODY's value (the callee's `Fut: Future<Output = T>` parameter becomes `T`, rule `async-seq-future-param`).
    `move`: the block owns what it captures; a Verus closure captures by value whatever BODY uses by value."""
    toks = L.code_tokens(text)
    T = _T(text, toks)
    cuts = []
    for i in range(1, len(toks) - 2):
        if T(i) == 'async' and T(i + 1) == 'move' and T(i + 2) == '{' and T(i - 1) == '|':
            cuts.append((toks[i][1], toks[i + 2][1]))
    for a, b in reversed(cuts):
        text = text[:a] + text[b:]
    return text, len(cuts)


@rule('async-seq-future-param')
def async_seq_future_param(text, **_):
    """async-seq (a4): `fn f<F, Fut>(..) where F: FnOnce(A) -> Fut + B, Fut: Future<Output = T> + B'` -> `fn f<F>(..) where
    F: FnOnce(A) -> T + B`: in the sequential schedule a future is awaited to completion where it is created, i.e. it is its output."""
    m = re.search(r'\bFut: Future<Output = ((?:[^<>]|<[^<>]*>)*)>[^,{]*,\s*', text)
    if not m:
        return text, 0
    out_ty = m.group(1)
    text = text[:m.start()] + text[m.end():]
    text, n1 = re.subn(r'<F, Fut>', '<F>', text, count=1)
    text, n2 = re.subn(r'-> Fut\b', '-> ' + out_ty, text)
    if n1 != 1 or n2 != 1 or re.search(r'\bFut\b', text):
        raise Undecided('async-seq-future-param: unexpected use of the future type parameter')
    return text, 1


@rule('c24-shared-state')
def c24_shared_state(text, calls=(), **_):
    """state-passing form of the state shared behind `&self` (same technique as c36_channel's `async-seq-chan`): the log of the client
    connection's channel and the contents of the `cancellations` mutex become the explicit ghost parameter `st`. `st` is appended to
    the method calls `V.m(..)` for the listed (V, m) pairs — V is the last identifier of the receiver path — and to nothing else."""
    n = 0
    while True:
        toks = L.code_tokens(text)
        T = _T(text, toks)
        hit = None
        for i in range(2, len(toks) - 1):
            if toks[i][0] != 'ident' or T(i + 1) != '(' or T(i - 1) != '.':
                continue
            if (T(i - 2), T(i)) not in calls:
                continue
            c = L.match_close(text, toks, i + 1)
            if T(c - 1) == 'st':
                continue
            if T(c - 1) == ',':
                hit = (toks[c - 1][2], toks[c][1], ' st')
            else:
                hit = (toks[c][1], toks[c][1], 'st' if c == i + 2 else ', st')
            break
        if not hit:
            break
        text = text[:hit[0]] + hit[2] + text[hit[1]:]
        n += 1
    return text, n


@rule('c24-ghost-param')
def c24_ghost_param(text, **_):
    """callee side of `c24-shared-state`: the fn takes the shared state as a last parameter `st: &mut Shared` (specification only)."""
    sh = X.fn_shape(text)
    a, b = sh.params
    inner = text[a + 1:b - 1].rstrip()
    if inner.endswith(','):
        new = inner + ' st: &mut Shared'
    elif inner.strip():
        new = inner + ', st: &mut Shared'
    else:
        new = 'st: &mut Shared'
    return text[:a + 1] + new + text[b - 1:], 1


# ---------------------------------------------------------------------------------------------
# the routing table (read from the repository at load time): generated SHIMS + the spec fn `route`
# ---------------------------------------------------------------------------------------------
def _method_strings(names):
    """METHOD of every request type of the table: lsp_types (vendored crate source) or the repository (emmy/* requests)"""
    files = glob.glob(os.path.expanduser('~/.cargo/registry/src/*/emmy_lsp_types-0.1.0/src/**/*.rs'), recursive=True)
    files += glob.glob(os.path.join(REPO, LS, 'handlers', '**', '*.rs'), recursive=True)
    found = {}
    for f in sorted(files):
        try:
            src = open(f, encoding='utf-8').read()
        except OSError:
            continue
        for m in re.finditer(r'impl\s+(?:\w+::)*(?:Request|LspRequest)\s+for\s+(\w+)\s*\{[^{}]*?const\s+METHOD\s*:\s*&\'static\s+str\s*=\s*("[^"\\]*")\s*;', src):
            if m.group(1) in names:
                if found.get(m.group(1), m.group(2)) != m.group(2):
                    raise Undecided('two METHOD strings for %s' % m.group(1))
                found[m.group(1)] = m.group(2)
    missing = [n for n in names if n not in found]
    if missing:
        raise Undecided('METHOD string not found for request type(s) %s' % missing)
    return found


def _load():
    src = X.read_source(REPO, RH)
    fn = X.find_item(REPO, {'file': RH, 'kind': 'fn', 'name': 'on_request_handler'})
    sh = X.fn_shape(fn.raw)
    head = fn.raw[:sh.sig_end]
    body = fn.raw[sh.body_open + 1:sh.body_close]
    p = parse_dispatch(fn.raw + '\n' + X.find_item(REPO, {'file': RH, 'kind': 'macro_rules', 'name': '!'}).raw)
    if len(p['invocations']) != 1:
        raise Undecided('on_request_handler invokes dispatch_request! %d times' % len(p['invocations']))
    arms = p['invocations'][0][3]
    if len({t for t, _ in arms}) != len(arms) or len({h for _, h in arms}) != len(arms):
        raise Undecided('a request type or a handler occurs twice in the routing table')
    return head, body, arms


_HEAD, _BODY, ARMS = _load()
_METHODS = _method_strings([t for t, _ in ARMS])


def _generated():
    out = ['// ---- GENERATED by units/c24_dispatch/unit.py from the routing table of on_request_handler (%d entries) ----' % len(ARMS),
           '// per entry `T => h`: the request type T (lsp_types / emmy request; METHOD transcribed from its `impl Request for T`),',
           '// opaque parameter and result types, and the handler h as ONE uninterpreted shim shape: (snapshot, params, token) -> result']
    for t, h in ARMS:
        out.append('pub struct %s;' % t)
        out.append('#[verifier::external_body] pub struct P_%s { _p: () }' % t)
        out.append('#[verifier::external_body] pub struct R_%s { _p: () }' % t)
        out.append('impl LspRequest for %s { type Params = P_%s; type Result = R_%s; const METHOD: &\'static str = %s; }' % (t, t, t, _METHODS[t]))
        out.append('#[verifier::external_body] pub fn %s(context: ServerContextSnapshot, params: P_%s, cancel_token: CancellationToken) -> R_%s { unimplemented!() }' % (h, t, t))
    out.append('')
    out.append('/// where the routing table sends a request: the FIRST entry whose METHOD is the request\'s method, and whether the params')
    out.append('/// deserialize as that entry\'s parameter type; Unknown when no entry matches ("registered methods" = the table)')
    out.append('pub open spec fn route(req: Request) -> Route {')
    for k, (t, _) in enumerate(ARMS):
        out.append('    %sif req.method@ == <%s>::METHOD@ { Route::Known(deserializes::<<%s as LspRequest>::Params>(req.params)) }' % ('else ' if k else '', t, t))
    out.append('    %s{ Route::Unknown }' % ('else ' if ARMS else ''))
    out.append('}')
    return '\n'.join(out)


def _template():
    with open(os.path.join(os.path.dirname(os.path.abspath(__file__)), 'template.rs'), encoding='utf-8') as f:
        t = f.read()
    if t.count('//@@GENERATED routing-table') != 1:
        raise Undecided('template.rs: marker for the generated routing table lost')
    return t.replace('//@@GENERATED routing-table', _generated())


# ---------------------------------------------------------------------------------------------
# contracts
# ---------------------------------------------------------------------------------------------
N = len(ARMS)
SPIN = '#[verifier::spinoff_prover]'

DISPATCH = {
    # host of the slice = the macro definition (hash-tracked raw text); head / tail = signature and body of on_request_handler, both
    # extracted above at load time (nothing is typed by hand). The assembled text is the fn with the macro defined locally in front of its use (macro_rules are textually
    # scoped; names in the transcriber resolve at the expansion site either way) — everything the expansion depends on is in one item.
    'src': {'kind': 'slice', 'name': 'on_request_handler', 'in': {'file': RH, 'kind': 'macro_rules', 'name': '!'},
            'from': r'\Amacro_rules!\s*dispatch_request\b', 'to': r'\}\s*\Z', 'head': _HEAD, 'tail': _BODY},
    'rules': ['c24-macro-expand', 'c24-match-const-chain',
              'async-seq-fn', ('async-seq-await', {'count': N}), ('async-seq-closure', {'count': N}),
              ('c24-closure-contract', {'count': N}),
              ('c24-shared-state', {'calls': (('server_context', 'task'), ('server_context', 'send'))}),
              'c24-ghost-param', 'c24-error-type-opaque', 'c24-log-drop'],
    'attrs': SPIN,
    'ret': 'r',
    'requires': 'ctx_wf(&*old(server_context), &*old(st))',
    'ensures': '''
            // the main loop goes on: an Err would propagate through handle_message / process_message / run / main_loop and end the server
            r is Ok /*@C24.dispatch.keeps-serving*/,
            // a registered method whose params deserialize: the log grew by exactly one response, carrying req.id (the handler's
            // result, or RequestCanceled when the token was cancelled)
            route(req) == Route::Known(true) ==> one_response(&*old(st), &*final(st), req.id) /*@C24.dispatch.exactly-one-response*/,
            // a method that is not in the table: exactly one response, the MethodNotFound error for req.id
            route(req) is Unknown ==> one_error(&*old(st), &*final(st), req.id, ErrorCode::MethodNotFound as i32) /*@C24.dispatch.unknown-method-answered*/,
            // a registered method whose params are MALFORMED or MISSING: exactly one response for req.id, an error
            route(req) == Route::Known(false) ==> one_response(&*old(st), &*final(st), req.id) && last_is_error(&*final(st)) /*@C24.dispatch.malformed-params-answered*/,
            // bookkeeping: no cancellation entry is left behind for this request; the others are untouched
            final(st).cancellations@ =~= old(st).cancellations@.remove(req.id) /*@C24.dispatch.cancellation-entry-removed*/,
            same_ids(&*old(st), &*final(st)), ctx_wf(&*final(server_context), &*final(st))''',
}

TASK = {
    'src': {'file': CTX, 'kind': 'fn', 'impl': 'ServerContext', 'name': 'task'},
    'rules': ['async-seq-fn', 'async-seq-future-param', ('async-seq-await', {'count': 3}), ('async-seq-spawn', {'count': 1}),
              ('c24-shared-state', {'calls': (('cancellations', 'insert'), ('cancellations', 'remove'), ('sender', 'send'))}),
              'c24-ghost-param'],
    'attrs': SPIN,
    'requires': '''
            ctx_wf(self, &*old(st)),
            forall|t: CancellationToken| call_requires(exec, (t,)),
            // the caller's side of "carries the request id": whatever response the closure builds is one for req_id
            forall|t: CancellationToken, x: Response| call_ensures(exec, (t,), Some(x)) ==> x.id == req_id''',
    'ensures': '''
            // the three-way branch: exactly one message is handed to the sender, a response for req_id
            one_response(&*old(st), &*final(st), req_id) /*@C24.task.exactly-one-send*/,
            // and it is RequestCanceled, or InternalError (the closure returned None), or the closure's response
            task_answer(final(st).sent@.last(), exec) /*@C24.task.answer-kind*/,
            final(st).cancellations@ =~= old(st).cancellations@.remove(req_id) /*@C24.task.cancellation-entry-removed*/,
            same_ids(&*old(st), &*final(st))''',
}

SEND = {
    'src': {'file': CTX, 'kind': 'fn', 'impl': 'ServerContext', 'name': 'send'},
    'rules': [('c24-shared-state', {'calls': (('sender', 'send'),)}), 'c24-ghost-param'],
    'requires': 'ctx_wf(self, &*old(st))',
    'ensures': '''
            final(st).sent@ == old(st).sent@.push(Message::Response(response)) /*@C24.send.exactly-one-send*/,
            final(st).cancellations == old(st).cancellations, same_ids(&*old(st), &*final(st))''',
}

CANCEL = {
    'src': {'file': CTX, 'kind': 'fn', 'impl': 'ServerContext', 'name': 'cancel'},
    'rules': ['async-seq-fn', ('async-seq-await', {'count': 1}),
              ('c24-shared-state', {'calls': (('cancellations', 'get'),)}), 'c24-ghost-param'],
    'requires': 'ctx_wf(self, &*old(st))',
    'ensures': '''
            // `$/cancelRequest` itself answers nothing (the cancelled task does: C24.task.exactly-one-send) and forgets nothing
            final(st).sent == old(st).sent /*@C24.cancel.sends-nothing*/,
            final(st).cancellations == old(st).cancellations, same_ids(&*old(st), &*final(st))''',
}

UNIT = {
    'items': {
        'ServerContext': {'src': {'file': CTX, 'kind': 'struct', 'name': 'ServerContext'},
                          'rules': [('struct-fields', {'keep': ['conn', 'cancellations', 'inner']})]},
        'ServerContext::snapshot': {'src': {'file': CTX, 'kind': 'fn', 'impl': 'ServerContext', 'name': 'snapshot'}},
        'ServerContext::send': SEND,
        'ServerContext::task': TASK,
        'ServerContext::cancel': CANCEL,
        'on_request_handler': DISPATCH,
    },
    'extra_rules': [
        ('c24-closure-contract', r'\|cancel_token\| \{',
         '|cancel_token: CancellationToken| -> (r: Option<Response>) ensures r matches Some(x) && x.id == id && x.error is None {',
         'contract overlay on the task closure (one per table entry): parameter type, named result and `ensures` are added, the body is kept '
         'verbatim and Verus checks the ensures against it'),
        ('c24-error-type-opaque', r'Box<dyn Error \+ Sync \+ Send>', 'BoxedError',
         '`Box<dyn Error + Sync + Send>` -> `BoxedError` in a signature: the error VALUE is opaque, only Ok / Err is under contract'),
        ('c24-log-drop', r'\n[ \t]*error!\((?:[^()"]|"(?:[^"\\]|\\.)*"|\((?:[^()"]|"(?:[^"\\]|\\.)*")*\))*\);', '',
         '`error!(..);` of the `log` crate dropped: it formats its arguments (Display / Debug of strings and error values) and hands the '
         'line to the logger; no part of any claimed clause'),
    ],
    'allow': [r'external_body', r'uninterp'],
    'min_obligations': 12,
    'trusted': [],
    'not_covered': [],
    'mutants': [],
}
UNIT['template_text'] = _template()
