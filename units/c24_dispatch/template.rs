// unit c24_dispatch — C24 "every client request gets exactly one response": the routing layer of emmylua_ls.
//   * `on_request_handler` = ONE `dispatch_request!` invocation, expanded mechanically from the repository's macro definition
//   * `ServerContext::{snapshot, send, task, cancel}`
//   * the `initialize` handshake (slice of `run_ls`), `ServerMessageProcessor::handle_message`, `AsyncConnection::handle_shutdown`
// The async text is verified in its SEQUENTIAL SCHEDULE (rule family `async-seq`, see unit.py and unit c36_channel); the state
// shared behind `&self` is the explicit ghost parameter `st`. What is proved is WHICH responses are sent, not when.
use vstd::prelude::*;
use std::sync::Arc;
verus! {

// ---- shims: lsp_server message types, transcribed as data (all fields are public in lsp-server 0.7.9) ----------------------
/// lsp_server::RequestId: an i32 or a string behind a private enum; Clone / Eq / Hash. Opaque here, `clone` yields an equal id.
#[verifier::external_body]
pub struct RequestId { _p: () }
impl Clone for RequestId {
    #[verifier::external_body]
    fn clone(&self) -> (r: RequestId) ensures r == *self { unimplemented!() }
}
/// serde_json::Value (opaque)
#[verifier::external_body]
pub struct Value { _p: () }
pub struct Request { pub id: RequestId, pub method: String, pub params: Value }
pub struct ResponseError { pub code: i32, pub message: String, pub data: Option<Value> }
pub struct Response { pub id: RequestId, pub result: Option<Value>, pub error: Option<ResponseError> }
pub struct Notification { pub method: String, pub params: Value }
pub enum Message { Request(Request), Response(Response), Notification(Notification) }
/// lsp_server::ErrorCode, discriminants transcribed (msg.rs)
#[derive(Clone, Copy)]
pub enum ErrorCode {
    ParseError = -32700, InvalidRequest = -32600, MethodNotFound = -32601, InvalidParams = -32602, InternalError = -32603,
    ServerErrorStart = -32099, ServerErrorEnd = -32000, ServerNotInitialized = -32002, UnknownErrorCode = -32001,
    RequestCanceled = -32800, ContentModified = -32801, ServerCancelled = -32802, RequestFailed = -32803,
}
/// serde_json::Error (opaque)
#[verifier::external_body]
#[derive(Debug)]
pub struct SerdeError { _p: () }
#[verifier::reject_recursive_types(T)]
pub enum ExtractError<T> { MethodMismatch(T), JsonError { method: String, error: SerdeError } }

/// "serde_json::from_value::<P>(v) is Ok": whether a JSON value deserializes as P. Uninterpreted: nothing is assumed about it.
pub uninterp spec fn deserializes<P>(v: Value) -> bool;

impl Response {
    /// `Response { id, result: Some(serde_json::to_value(result).unwrap()), error: None }`. NOT modelled: the unwrap (a result type whose
    /// Serialize impl fails, e.g. a map with non-string keys, would panic inside the task).
    #[verifier::external_body]
    pub fn new_ok<R>(id: RequestId, result: R) -> (r: Response)
        ensures r.id == id, r.result is Some, r.error is None,
    { unimplemented!() }
    /// the body is lsp_server's
    pub fn new_err(id: RequestId, code: i32, message: String) -> (r: Response)
        ensures r.id == id, r.result is None, r.error matches Some(e) && e.code == code,
    {
        let error = ResponseError { code, message, data: None };
        Response { id, result: None, error: Some(error) }
    }
}
impl Request {
    /// lsp_server (msg.rs): `if self.method != method { return Err(MethodMismatch(self)) }  match serde_json::from_value(self.params)
    /// { Ok(params) => Ok((self.id, params)), Err(error) => Err(JsonError { method: self.method, error }) }`
    #[verifier::external_body]
    pub fn extract<P>(self, method: &str) -> (r: Result<(RequestId, P), ExtractError<Request>>)
        ensures
            self.method@ != method@ ==> (r matches Err(e) && e == ExtractError::MethodMismatch(self)),
            self.method@ == method@ && deserializes::<P>(self.params) ==> (r matches Ok(x) && x.0 == self.id),
            self.method@ == method@ && !deserializes::<P>(self.params) ==> (r matches Err(e) && e is JsonError),
    { unimplemented!() }
}
impl Notification {
    /// lsp_server (msg.rs): as Request::extract, without an id
    #[verifier::external_body]
    pub fn extract<P>(self, method: &str) -> (r: Result<P, ExtractError<Notification>>)
        ensures
            self.method@ != method@ ==> (r matches Err(e) && e == ExtractError::MethodMismatch(self)),
            self.method@ == method@ ==> (r is Ok <==> deserializes::<P>(self.params)),
            self.method@ == method@ && r is Err ==> (r matches Err(e) && e is JsonError),
    { unimplemented!() }
}
/// lsp_types::{CancelParams, NumberOrString}
pub enum NumberOrString { Number(i32), String(String) }
pub struct CancelParams { pub id: NumberOrString }
impl vstd::std_specs::convert::FromSpecImpl<i32> for RequestId {
    open spec fn obeys_from_spec() -> bool { false }
    uninterp spec fn from_spec(v: i32) -> RequestId;
}
impl From<i32> for RequestId {
    #[verifier::external_body]
    fn from(v: i32) -> RequestId { unimplemented!() }
}
impl vstd::std_specs::convert::FromSpecImpl<String> for RequestId {
    open spec fn obeys_from_spec() -> bool { false }
    uninterp spec fn from_spec(v: String) -> RequestId;
}
impl From<String> for RequestId {
    #[verifier::external_body]
    fn from(v: String) -> RequestId { unimplemented!() }
}
impl From<Response> for Message {
    fn from(r: Response) -> (m: Message) ensures m == Message::Response(r) { Message::Response(r) }
}
impl vstd::std_specs::convert::FromSpecImpl<Response> for Message {
    open spec fn obeys_from_spec() -> bool { true }
    open spec fn from_spec(v: Response) -> Message { Message::Response(v) }
}
pub mod lsp_server {
    pub use super::{ErrorCode, Message, Request, RequestId, Response, Connection};
}
pub mod serde_json {
    pub use super::Value;
    /// serde_json::from_value: Ok exactly when the value deserializes as T
    #[verifier::external_body]
    pub fn from_value<T>(value: Value) -> (r: Result<T, super::SerdeError>)
        ensures r is Ok <==> super::deserializes::<T>(value),
    { unimplemented!() }
}

// ---- the shared state, sequential model (rule `c24-shared-state`) ------------------------------------------------------------
/// What lives behind `&self` of ServerContext and of the connection, as an explicit parameter:
///  `sent`  every message handed to a Sender of the CLIENT connection's channel, in order (what the writer thread does with it is
///          the transport, not covered); `chan` identifies that channel;
///  `cancellations` the contents of the `cancellations` mutex (token ids); `mx` identifies the mutex;
///  `init`  the ids of the `initialize` requests that `Connection::initialize_start` has handed out so far.
pub struct Shared {
    pub chan: Ghost<int>,
    pub sent: Ghost<Seq<Message>>,
    pub mx: Ghost<int>,
    pub cancellations: Ghost<Map<RequestId, int>>,
    pub init: Ghost<Seq<RequestId>>,
    /// every message `AsyncConnection::recv` has handed to the main loop, in order
    pub recv: Ghost<Seq<Message>>,
    /// every message that was handed to `handle_message`, in call order (appended by a ghost statement at the top of its body)
    pub handled: Ghost<Seq<Message>>,
}
pub open spec fn same_ids(a: &Shared, b: &Shared) -> bool {
    a.chan == b.chan && a.mx == b.mx && a.init == b.init && a.recv == b.recv && a.handled == b.handled
}
/// the identities of the channel and the mutex (the two logs `recv` / `handled` and everything else may differ)
pub open spec fn same_ids_but_logs(a: &Shared, b: &Shared) -> bool { a.chan == b.chan && a.mx == b.mx }

/// crossbeam_channel::Sender / Receiver of the connection
#[verifier::external_body]
#[verifier::reject_recursive_types(T)]
pub struct Sender<T> { _p: core::marker::PhantomData<T> }
#[verifier::external_body]
#[verifier::reject_recursive_types(T)]
pub struct Receiver<T> { _p: core::marker::PhantomData<T> }
#[verifier::external_body]
#[verifier::reject_recursive_types(T)]
pub struct SendError<T> { _p: core::marker::PhantomData<T> }
impl<T> Sender<T> {
    pub uninterp spec fn chan(&self) -> int;
    /// `Clone for Sender`: another handle of the same channel
    #[verifier::external_body]
    pub fn clone(&self) -> (r: Sender<T>) ensures r.chan() == self.chan() { unimplemented!() }
}
impl Sender<Message> {
    /// crossbeam: hands the message to the (unbounded) channel; Err only when the receiving side (the writer thread) is gone. Either
    /// way the message has been handed over ONCE: that is what the log records. The callers discard the result (`let _ =`).
    #[verifier::external_body]
    pub fn send(&self, msg: Message, st: &mut Shared) -> (r: Result<(), SendError<Message>>)
        requires self.chan() == old(st).chan@,
        ensures final(st).sent@ == old(st).sent@.push(msg), final(st).cancellations == old(st).cancellations, same_ids(&*old(st), &*final(st)),
    { unimplemented!() }
}
impl<T> Receiver<T> {
    #[verifier::external_body]
    pub fn clone(&self) -> (r: Receiver<T>) { unimplemented!() }
}
/// lsp_server::Connection { pub sender, pub receiver }
pub struct Connection { pub sender: Sender<Message>, pub receiver: Receiver<Message> }

/// lsp_server::ProtocolError (opaque); `?` boxes it into the fn's `Box<dyn Error>`
#[verifier::external_body]
pub struct ProtocolError { _p: () }
impl vstd::std_specs::convert::FromSpecImpl<ProtocolError> for BoxedError {
    open spec fn obeys_from_spec() -> bool { false }
    uninterp spec fn from_spec(v: ProtocolError) -> BoxedError;
}
impl From<ProtocolError> for BoxedError {
    #[verifier::external_body]
    fn from(e: ProtocolError) -> BoxedError { unimplemented!() }
}
impl Connection {
    /// lsp_server (lib.rs, `initialize_start_while`): waits for the first `initialize` request and returns its id and params; a request
    /// that arrives earlier is answered BY THE LIBRARY with a ServerNotInitialized error (those replies are the library's and are not
    /// logged in `sent`); Err when the client disconnects or sends something else. Ghost: the id handed out is appended to `st.init`.
    #[verifier::external_body]
    pub fn initialize_start(&self, st: &mut Shared) -> (r: Result<(RequestId, Value), ProtocolError>)
        ensures final(st).sent == old(st).sent, same_ids_but_init(&*old(st), &*final(st)),
            r matches Ok(x) ==> final(st).init@ == old(st).init@.push(x.0),
            r is Err ==> final(st).init == old(st).init,
    { unimplemented!() }
    /// lsp_server: `let resp = Response::new_ok(initialize_id, initialize_result); self.sender.send(resp.into()).unwrap();` then waits for
    /// the `initialized` notification (Err when something else arrives or the client disconnects)
    #[verifier::external_body]
    pub fn initialize_finish(&self, initialize_id: RequestId, initialize_result: Value, st: &mut Shared) -> (r: Result<(), ProtocolError>)
        requires self.sender.chan() == old(st).chan@,
        ensures same_ids(&*old(st), &*final(st)), final(st).cancellations == old(st).cancellations,
            final(st).sent@ == old(st).sent@.push(final(st).sent@.last()),
            final(st).sent@.last() matches Message::Response(x) && x.id == initialize_id && x.error is None && x.result is Some,
    { unimplemented!() }
}
pub struct InitializeParams { pub capabilities: ClientCapabilities }
#[verifier::external_body]
pub struct ClientCapabilities { _p: () }
#[verifier::external_body]
pub struct ServerCapabilities { _p: () }
/// the repository's `server_capabilities` (handlers/mod.rs, generated by `capabilities!`): opaque here
#[verifier::external_body]
pub fn server_capabilities(client_capabilities: &ClientCapabilities) -> ServerCapabilities { unimplemented!() }
#[verifier::external_body]
pub fn vx_json_value() -> Value { unimplemented!() }
#[verifier::external_body]
pub fn vx_format() -> String { unimplemented!() }

/// tokio::sync::Mutex around the cancellation map. `lock().await` yields the guard (sequential schedule: it is free); the guard's
/// HashMap methods (reached through DerefMut in the source) read and write `st.cancellations`.
#[verifier::external_body]
#[verifier::reject_recursive_types(T)]
pub struct Mutex<T> { _p: core::marker::PhantomData<T> }
#[verifier::external_body]
#[verifier::reject_recursive_types(T)]
pub struct MutexGuard<T> { _p: core::marker::PhantomData<T> }
/// std HashMap, only as the type parameter of the mutex
#[verifier::external_body]
#[verifier::reject_recursive_types(K)]
#[verifier::reject_recursive_types(V)]
pub struct HashMap<K, V> { _p: core::marker::PhantomData<(K, V)> }
impl<T> Mutex<T> {
    pub uninterp spec fn id(&self) -> int;
    #[verifier::external_body]
    pub fn lock(&self) -> (g: MutexGuard<T>) ensures g.mx() == self.id() { unimplemented!() }
}
impl<T> MutexGuard<T> {
    pub uninterp spec fn mx(&self) -> int;
}
impl MutexGuard<HashMap<RequestId, CancellationToken>> {
    /// HashMap::insert
    #[verifier::external_body]
    pub fn insert(&mut self, k: RequestId, v: CancellationToken, st: &mut Shared) -> (r: Option<CancellationToken>)
        requires old(self).mx() == old(st).mx@,
        ensures final(self).mx() == old(self).mx(), final(st).cancellations@ == old(st).cancellations@.insert(k, v.id()),
            final(st).sent == old(st).sent, same_ids(&*old(st), &*final(st)),
    { unimplemented!() }
    /// HashMap::remove
    #[verifier::external_body]
    pub fn remove(&mut self, k: &RequestId, st: &mut Shared) -> (r: Option<CancellationToken>)
        requires old(self).mx() == old(st).mx@,
        ensures final(self).mx() == old(self).mx(), final(st).cancellations@ == old(st).cancellations@.remove(*k),
            final(st).sent == old(st).sent, same_ids(&*old(st), &*final(st)),
    { unimplemented!() }
    /// HashMap::get
    #[verifier::external_body]
    pub fn get(&self, k: &RequestId, st: &mut Shared) -> (r: Option<&CancellationToken>)
        requires self.mx() == old(st).mx@,
        ensures *final(st) == *old(st),
            r is Some <==> old(st).cancellations@.contains_key(*k),
            r matches Some(t) ==> t.id() == old(st).cancellations@[*k],
    { unimplemented!() }
}
/// tokio_util::sync::CancellationToken. Its flag is shared with every clone and can be set by `cancel` at ANY time (the
/// `$/cancelRequest` notification is handled by the main loop while the task runs): `is_cancelled` is an arbitrary bool here.
#[verifier::external_body]
pub struct CancellationToken { _p: () }
impl CancellationToken {
    pub uninterp spec fn id(&self) -> int;
    #[verifier::external_body]
    pub fn new() -> CancellationToken { unimplemented!() }
    #[verifier::external_body]
    pub fn clone(&self) -> (r: CancellationToken) ensures r.id() == self.id() { unimplemented!() }
    #[verifier::external_body]
    pub fn is_cancelled(&self) -> bool { unimplemented!() }
    #[verifier::external_body]
    pub fn cancel(&self) { }
}

// ---- shims: the rest of what the extracted fns touch ---------------------------------------------------------------------------
#[verifier::external_body]
pub struct ServerContextInner { _p: () }
#[verifier::external_body]
pub struct ServerContextSnapshot { _p: () }
impl ServerContextSnapshot {
    #[verifier::external_body]
    pub fn new(inner: Arc<ServerContextInner>) -> ServerContextSnapshot { unimplemented!() }
}
/// `Box<dyn Error + Sync + Send>`: the error value is opaque (rule `c24-error-type-opaque`)
#[verifier::external_body]
pub struct BoxedError { _p: () }
/// `?` on an ExtractError boxes it (`impl Error for ExtractError<Request / Notification>` in lsp_server)
impl<T> vstd::std_specs::convert::FromSpecImpl<ExtractError<T>> for BoxedError {
    open spec fn obeys_from_spec() -> bool { false }
    uninterp spec fn from_spec(v: ExtractError<T>) -> BoxedError;
}
impl<T> From<ExtractError<T>> for BoxedError {
    #[verifier::external_body]
    fn from(e: ExtractError<T>) -> BoxedError { unimplemented!() }
}
/// lsp_types::request::Request (imported as LspRequest) and lsp_types::notification::Notification (imported as LspNotification)
pub trait LspRequest { type Params; type Result; const METHOD: &'static str; }
pub trait LspNotification { type Params; const METHOD: &'static str; }

pub enum Route { Known(bool), Unknown }

//@@GENERATED routing-table

// ---- property vocabulary ----------------------------------------------------------------------------------------------------------
/// the log grew by EXACTLY ONE message
pub open spec fn grew_by_one(a: &Shared, b: &Shared) -> bool {
    b.sent@ == a.sent@.push(b.sent@.last())
}
/// the log grew by EXACTLY ONE message, and it is a response carrying `id`
pub open spec fn one_response(a: &Shared, b: &Shared, id: RequestId) -> bool {
    grew_by_one(a, b) && (b.sent@.last() matches Message::Response(x) && x.id == id)
}
pub open spec fn is_error(x: Response, code: i32) -> bool {
    x.result is None && (x.error matches Some(e) && e.code == code)
}
/// the log grew by exactly one message: the error response `code` for `id`
pub open spec fn one_error(a: &Shared, b: &Shared, id: RequestId, code: i32) -> bool {
    grew_by_one(a, b) && (b.sent@.last() matches Message::Response(x) && x.id == id && is_error(x, code))
}
pub open spec fn last_is_error(b: &Shared) -> bool {
    b.sent@.len() > 0 && (b.sent@.last() matches Message::Response(x) && x.error is Some)
}
/// The handshake code answered, in order and each once, the `initialize` requests the connection handed out since `a`: what it added to
/// the log is one response per handed-out id (`pending`: the last one handed out is not answered yet).
pub open spec fn init_answered(a: &Shared, b: &Shared, pending: bool) -> bool {
    let (s0, i0) = (a.sent@.len() as int, a.init@.len() as int);
    // the old log and the old hand-outs are still there
    &&& s0 <= b.sent@.len() && (forall|j: int| 0 <= j < s0 ==> #[trigger] b.sent@[j] == a.sent@[j])
    &&& i0 <= b.init@.len() && (forall|j: int| 0 <= j < i0 ==> #[trigger] b.init@[j] == a.init@[j])
    // as many new responses as new hand-outs (one less while the last one is pending) ...
    &&& b.init@.len() - i0 == b.sent@.len() - s0 + (if pending { 1int } else { 0int })
    // ... and the k-th new message is a response for the k-th id handed out
    &&& forall|j: int| s0 <= j < b.sent@.len() ==> (#[trigger] b.sent@[j] matches Message::Response(x) && x.id == b.init@[j - s0 + i0])
}
pub open spec fn same_ids_but_init(a: &Shared, b: &Shared) -> bool {
    a.chan == b.chan && a.mx == b.mx && a.cancellations == b.cancellations && a.recv == b.recv && a.handled == b.handled
}
/// the context's handles are the ones the shared state describes
pub open spec fn ctx_wf(ctx: &ServerContext, st: &Shared) -> bool {
    ctx.conn.sender.chan() == st.chan@ && ctx.cancellations.id() == st.mx@
}
/// what `task` may answer: RequestCanceled, InternalError, or a response the closure returned
pub open spec fn task_answer<F: FnOnce(CancellationToken) -> Option<Response>>(m: Message, exec: F) -> bool {
    m matches Message::Response(x) && (
        is_error(x, ErrorCode::RequestCanceled as i32)
        || is_error(x, ErrorCode::InternalError as i32)
        || exists|t: CancellationToken| call_ensures(exec, (t,), Some(x)))
}

/// what the dispatcher owes a request, by case (the three property clauses of `on_request_handler`)
pub open spec fn answered(req: Request, a: &Shared, b: &Shared) -> bool {
    match route(req) {
        Route::Known(true) => one_response(a, b, req.id),
        Route::Known(false) => one_response(a, b, req.id) && last_is_error(b),
        Route::Unknown => one_error(a, b, req.id, ErrorCode::MethodNotFound as i32),
    }
}

// ---- shims for handle_message: what it calls besides the dispatcher -------------------------------------------------------------------
#[verifier::external_body]
pub struct AsyncConnection { _p: () }
impl AsyncConnection {
    /// server/connection.rs: `self.receiver.recv().await` on the tokio channel fed by the reader thread: the next client message, None when
    /// the client is gone. Ghost: the message handed out is appended to `st.recv`. (tokio: this recv is cancel safe — when the surrounding
    /// `timeout` elapses no message has been taken; the shim of `timeout` below says so.)
    #[verifier::external_body]
    pub fn recv(&mut self, st: &mut Shared) -> (r: Option<Message>)
        ensures
            final(st).sent == old(st).sent, final(st).cancellations == old(st).cancellations, final(st).handled == old(st).handled,
            final(st).chan == old(st).chan, final(st).mx == old(st).mx, final(st).init == old(st).init,
            match r { Some(m) => final(st).recv@ == old(st).recv@.push(m), None => final(st).recv == old(st).recv },
    { unimplemented!() }
    /// server/connection.rs, by its text (NOT under proof here): `if req.method != "shutdown" { return Ok(false); }` — nothing sent;
    /// otherwise `Response::new_ok(req.id.clone(), ())` is handed to the connection's sender, once, and the fn returns Ok(true) after the
    /// `exit` notification, or Err (unexpected message / closed channel / 30 s timeout). Never Ok(false) for `shutdown`.
    #[verifier::external_body]
    pub fn handle_shutdown(&mut self, req: &Request, st: &mut Shared) -> (r: Result<bool, BoxedError>)
        ensures
            req.method@ != "shutdown"@ ==> r == Ok::<bool, BoxedError>(false) && *final(st) == *old(st),
            req.method@ == "shutdown"@ ==> !(r matches Ok(false)) && one_response(&*old(st), &*final(st), req.id)
                && final(st).cancellations == old(st).cancellations && same_ids(&*old(st), &*final(st)),
    { unimplemented!() }
}
impl ServerContext {
    /// drops the file watcher; sends nothing
    #[verifier::external_body]
    pub fn close(&self) { }
}
/// client responses (answers to the server's own requests): opaque
#[verifier::external_body]
pub fn on_response_handler(response: Response, server_context: &mut ServerContext, st: &mut Shared) -> (r: Result<(), BoxedError>)
    ensures *final(server_context) == *old(server_context), same_ids(&*old(st), &*final(st)),
{ unimplemented!() }
pub mod context { pub use super::ServerContext; }
pub mod tokio { pub mod time {
    #[verifier::external_body]
    pub struct Duration { _p: () }
    impl Duration {
        #[verifier::external_body]
        pub fn from_millis(ms: u64) -> Duration { unimplemented!() }
    }
    #[verifier::external_body]
    pub struct Elapsed { _p: () }
    /// tokio::time::timeout around a (cancel-safe) `recv`, sequential form: the value the future produced is passed through; `Err(Elapsed)`
    /// only when the future had produced nothing — a message that `recv` handed out is never dropped by the timeout
    #[verifier::external_body]
    pub fn timeout<T>(duration: Duration, value: Option<T>) -> (r: Result<Option<T>, Elapsed>)
        ensures r matches Ok(x) ==> x == value, r is Err ==> value is None,
    { unimplemented!() }
} }
pub mod oneshot {
    /// tokio::sync::oneshot::Receiver: only `try_recv` is used (completion signal of the initialization task)
    #[verifier::external_body]
    #[verifier::reject_recursive_types(T)]
    pub struct Receiver<T> { _p: core::marker::PhantomData<T> }
    impl<T> Receiver<T> {
        #[verifier::external_body]
        pub fn try_recv(&mut self) -> Result<T, error::TryRecvError> { unimplemented!() }
    }
    pub mod error { pub enum TryRecvError { Empty, Closed } }
}
/// std::mem::take on a Vec (rule c24-mem-take)
#[verifier::external_body]
pub fn vx_mem_take<T>(v: &mut Vec<T>) -> (r: Vec<T>)
    ensures r@ == old(v)@, final(v)@.len() == 0,
{ unimplemented!() }

// ---- the queueing path: vocabulary -------------------------------------------------------------------------------------------------------
/// can_process_during_init, as documented there: client responses, `$/cancelRequest` and `initialized` are handled while the workspace
/// loads; every request (and every other notification) waits in `pending_messages`
pub open spec fn allowed_during_init(m: Message) -> bool {
    match m {
        Message::Response(_) => true,
        Message::Notification(n) => n.method@ == "$/cancelRequest"@ || n.method@ == "initialized"@,
        Message::Request(_) => false,
    }
}
/// the messages of `s` that have to wait, in order / the ones handled at once, in order
pub open spec fn deferred(s: Seq<Message>) -> Seq<Message>
    decreases s.len()
{
    if s.len() == 0 { Seq::empty() }
    else if allowed_during_init(s.last()) { deferred(s.drop_last()) }
    else { deferred(s.drop_last()).push(s.last()) }
}
pub open spec fn immediate(s: Seq<Message>) -> Seq<Message>
    decreases s.len()
{
    if s.len() == 0 { Seq::empty() }
    else if allowed_during_init(s.last()) { immediate(s.drop_last()).push(s.last()) }
    else { immediate(s.drop_last()) }
}
pub proof fn lemma_split_push(s: Seq<Message>, m: Message)
    ensures
        deferred(s.push(m)) == (if allowed_during_init(m) { deferred(s) } else { deferred(s).push(m) }),
        immediate(s.push(m)) == (if allowed_during_init(m) { immediate(s).push(m) } else { immediate(s) }),
{
    assert(s.push(m).drop_last() =~= s);
    assert(s.push(m).last() == m);
}
pub proof fn lemma_prefix_concat(a: Seq<Message>, b: Seq<Message>, k: int)
    requires 0 <= k <= b.len(),
    ensures (a + b.take(k)).is_prefix_of(a + b),
{
    assert((a + b).take((a + b.take(k)).len() as int) =~= a + b.take(k));
}
pub open spec fn new_recv(a: &Shared, b: &Shared) -> Seq<Message> { b.recv@.skip(a.recv@.len() as int) }
/// the order in which the main loop hands the received messages `r` to handle_message when the first `n1` of them arrive during
/// initialization: the allowed ones of those at once, then the queued ones, then the rest as it arrives
pub open spec fn handling_order(r: Seq<Message>, n1: int) -> Seq<Message> {
    immediate(r.take(n1)) + deferred(r.take(n1)) + r.skip(n1)
}

// ---- extracted from /repo ---------------------------------------------------------------------------------------------------------
//@@ ServerContext
impl ServerContext {
    //@@ ServerContext::snapshot
    //@@ ServerContext::send
    //@@ ServerContext::task
    //@@ ServerContext::cancel
}

//@@ on_request_handler

//@@ run_ls::initialize

//@@ handle_cancel

//@@ on_notification_handler

//@@ ServerMessageProcessor
//@@ LspServer
impl ServerMessageProcessor {
    //@@ ServerMessageProcessor::can_process_during_init
    //@@ ServerMessageProcessor::check_initialization_complete
    //@@ ServerMessageProcessor::handle_message
    //@@ ServerMessageProcessor::process_message
    //@@ ServerMessageProcessor::process_pending_messages
//@@GENERATED havoc ServerMessageProcessor
}
impl LspServer {
    //@@ LspServer::wait_for_initialization
    //@@ LspServer::run
//@@GENERATED havoc LspServer
}

} // verus!
fn main() {}
