//@@GENERATED routing-table
