// ---------------------------------------------------------------------------------------------
// C02 / H-EV: `l3::events_ok` (units/c01_green/iface.rs: every non-zero `parent` link of a `NodeStart` points to a LATER
// event that is a `NodeStart`) is an invariant of every function under contract in this unit. Lemmas, all bodies verified.
// ---------------------------------------------------------------------------------------------

/// the empty event list (state of a fresh `LuaParser`, precondition of `parse_chunk`)
pub proof fn lemma_evok_empty(ev: Seq<MarkEvent>)
    requires
        ev.len() == 0,
    ensures
        l3::events_ok(ev),
{
}

/// appending an event that carries no parent link (`EatToken`, `NodeEnd`, `Trivia`, `NodeStart { parent: 0 }`;
/// `ns_parent` is 0 for the non-`NodeStart` variants) keeps `events_ok`: old links stay in range and their targets are untouched
pub broadcast proof fn lemma_evok_push(ev: Seq<MarkEvent>, e: MarkEvent)
    requires
        l3::events_ok(ev),
        ns_parent(e) == 0,
    ensures
        #[trigger] l3::events_ok(ev.push(e)),
{
    let b = ev.push(e);
    assert forall|i: int| 0 <= i < b.len() implies (#[trigger] b[i] matches MarkEvent::NodeStart { parent, .. } ==> parent == 0 || (i < parent < b.len()
        && b[parent as int] is NodeStart)) by {
        if i < ev.len() {
            assert(b[i] == ev[i]);
            let q = ns_parent(ev[i]);
            if ev[i] is NodeStart && q != 0 {
                assert(b[q as int] == ev[q as int]);
            }
        }
    }
}

/// rewriting the `NodeStart` at `pos` (every other event untouched, `alters_start`) keeps `events_ok` if its `parent` link
/// is either unchanged (`set_kind`, `undo`, `complete` of an empty node: they write `kind` only) or set to a LATER position
/// that holds a `NodeStart` (`precede`). Links that point TO `pos` stay valid because `pos` is still a `NodeStart`.
/// (Stated as an implication, without `requires`: at a call site inside a mutated function the failure is then reported at
/// the labelled postcondition, not at the lemma call.)
pub open spec fn evok_alter_pre(a: Seq<MarkEvent>, b: Seq<MarkEvent>, pos: int) -> bool {
    &&& l3::events_ok(a)
    &&& alters_start(a, b, pos)
    &&& (ns_parent(b[pos]) == ns_parent(a[pos]) || (pos < ns_parent(b[pos]) < a.len() && a[ns_parent(b[pos]) as int] is NodeStart))
}

pub proof fn lemma_evok_alter(a: Seq<MarkEvent>, b: Seq<MarkEvent>, pos: int)
    ensures
        evok_alter_pre(a, b, pos) ==> l3::events_ok(b),
{
    if evok_alter_pre(a, b, pos) {
        assert forall|i: int| 0 <= i < b.len() implies (#[trigger] b[i] matches MarkEvent::NodeStart { parent, .. } ==> parent == 0 || (i < parent < b.len()
            && b[parent as int] is NodeStart)) by {
            let q = ns_parent(b[i]);
            if b[i] is NodeStart && q != 0 {
                if i != pos {
                    assert(b[i] == a[i]);
                }
                // in both cases a[q] is a NodeStart with i < q < len: either the old link of a[i], or the third conjunct
                assert(a[i] is NodeStart);
                assert(i < q < a.len() && a[q as int] is NodeStart);
                if q != pos {
                    assert(b[q as int] == a[q as int]);
                }
            }
        }
    }
}
