"""unit c01_parser — link L2 of C01 (the parser emits every lexer token exactly once, in order) and the
parser-driver / marker part of C02 (no panic, `bump` makes progress, `parse_chunk` terminates)."""
import re
from vc.rules import rule
from vc import rustlex as L
from vc.extract import Undecided

P = 'crates/emmylua_parser/src/parser/lua_parser.rs'
M = 'crates/emmylua_parser/src/parser/marker.rs'
TK = 'crates/emmylua_parser/src/kind/lua_token_kind.rs'
SK = 'crates/emmylua_parser/src/kind/lua_syntax_kind.rs'
TD = 'crates/emmylua_parser/src/lexer/token_data.rs'
TR = 'crates/emmylua_parser/src/text/text_range.rs'
G = 'crates/emmylua_parser/src/grammar/lua/mod.rs'


# ---------------------------------------------------------------------------------------------
# unit-local rule: contract overlay for the methods of a trait (the framework overlay only reaches
# `fn` items; a trait is extracted as one item)
# ---------------------------------------------------------------------------------------------
@rule('trait-spec-overlay')
def trait_spec_overlay(text, ghost='', methods=None, **_):
    """Specification overlay for a `trait` item extracted as a whole: inserts ghost `spec fn`
    declarations after the opening brace and, per named method, a result name `(r: T)` and
    `requires`/`ensures` clauses between the signature and the body (or the `;`). Only ghost text is
    added: every executable token of the trait is kept, in order (the rule checks that deleting what it
    inserted gives back the extracted text)."""
    methods = methods or {}
    toks = L.code_tokens(text)
    ob = next(i for i, t in enumerate(toks) if L.tok_text(text, t) == '{')
    cb = L.match_close(text, toks, ob)
    edits = [(toks[ob][2], toks[ob][2], '\n' + ghost.rstrip() + '\n')] if ghost else []
    n = 0
    k = ob + 1
    while k < cb:
        t = L.tok_text(text, toks[k])
        if t in ('(', '[', '{'):
            k = L.match_close(text, toks, k) + 1
            continue
        if t == 'fn' and toks[k][0] == 'ident':
            name = L.tok_text(text, toks[k + 1])
            j = k + 2
            while L.tok_text(text, toks[j]) != '(':
                j += 1
            pc = L.match_close(text, toks, j)
            j = pc + 1
            ret = None
            if L.tok_text(text, toks[j]) == '-' and L.tok_text(text, toks[j + 1]) == '>':
                rs = j + 2
                j = rs
                while L.tok_text(text, toks[j]) not in ('{', ';'):
                    j = L.match_close(text, toks, j) + 1 if L.tok_text(text, toks[j]) in ('(', '[') else j + 1
                ret = (toks[rs][1], toks[j - 1][2])
            while L.tok_text(text, toks[j]) not in ('{', ';'):
                j += 1
            sig_end = toks[j - 1][2]
            cfg = methods.get(name)
            if cfg:
                n += 1
                if cfg.get('ret'):
                    if ret is None:
                        raise Undecided('trait-spec-overlay: %s returns ()' % name)
                    edits.append((ret[0], ret[1], '(%s: %s)' % (cfg['ret'], text[ret[0]:ret[1]])))
                c = ''
                if cfg.get('requires'):
                    c += '\n        requires\n            ' + cfg['requires'].strip().rstrip(',') + ','
                if cfg.get('ensures'):
                    c += '\n        ensures\n            ' + cfg['ensures'].strip().rstrip(',') + ','
                if cfg.get('body_first'):
                    if L.tok_text(text, toks[j]) != '{':
                        raise Undecided('trait-spec-overlay: %s has no body' % name)
                    edits.append((toks[j][2], toks[j][2], '\n' + cfg['body_first'].strip() + '\n'))
                edits.append((sig_end, sig_end, c + '\n    '))
            k = L.match_close(text, toks, j) + 1 if L.tok_text(text, toks[j]) == '{' else j + 1
            continue
        k += 1
    if n != len(methods):
        raise Undecided('trait-spec-overlay: only %d of %d methods found' % (n, len(methods)))
    out = text
    for pos, end, new in sorted(edits, key=lambda e: (e[0], e[1]), reverse=True):
        out = out[:pos] + new + out[end:]
    return out, max(n, 1)


def p_fn(name, **kw):
    d = {'src': {'file': P, 'kind': 'fn', 'impl': 'LuaParser', 'name': name}}
    d.update(kw)
    return d


def pc_fn(name, **kw):
    d = {'src': {'file': P, 'kind': 'fn', 'impl': 'MarkerEventContainer for LuaParser', 'name': name}, 'pub': False}
    d.update(kw)
    return d


def m_fn(owner, name, **kw):
    d = {'src': {'file': M, 'kind': 'fn', 'impl': owner, 'name': name}}
    d.update(kw)
    return d


DERIVE = '#[derive(Clone, Copy, PartialEq, Eq)]'

EV0 = 'old(p).sp_events()'
EV1 = 'final(p).sp_events()'
FRAME_P = ('final(p).sp_rest() == old(p).sp_rest(),\n'
           '            eaten(final(p).sp_events()) == eaten(old(p).sp_events()) /*@C01.marker.frame*/,\n'
           '            ev_mono(old(p).sp_events(), final(p).sp_events()) /*@C02.marker.nodestart-stable*/')
FRAME_SELF = ('final(self).sp_rest() == old(self).sp_rest(),\n'
              '            eaten(final(self).sp_events()) == eaten(old(self).sp_events()) /*@C01.marker.frame*/,\n'
              '            ev_mono(old(self).sp_events(), final(self).sp_events()) /*@C02.marker.nodestart-stable*/')

TRAIT_GHOST = """
    // ghost interface added by rule `trait-spec-overlay` (specification only)
    spec fn sp_events(&self) -> Seq<MarkEvent>;
    spec fn sp_level(&self) -> nat;
    spec fn sp_rest(&self) -> Rest;
"""

TRAIT_METHODS = {
    'get_mark_level': {'ret': 'r', 'ensures': 'r == self.sp_level()'},
    'incr_mark_level': {
        'requires': 'old(self).sp_level() < usize::MAX',
        'ensures': 'final(self).sp_level() == old(self).sp_level() + 1, final(self).sp_events() == old(self).sp_events(), final(self).sp_rest() == old(self).sp_rest()'},
    'decr_mark_level': {
        'requires': 'old(self).sp_level() > 0',
        'ensures': 'final(self).sp_level() == old(self).sp_level() - 1, final(self).sp_events() == old(self).sp_events(), final(self).sp_rest() == old(self).sp_rest()'},
    'get_events': {
        'ret': 'r',
        'ensures': 'r@ == old(self).sp_events(), final(self).sp_events() == final(r)@, final(self).sp_level() == old(self).sp_level(), final(self).sp_rest() == old(self).sp_rest()'},
    'mark': {
        'ret': 'm',
        'requires': 'old(self).sp_level() <= old(self).sp_events().len()',
        'ensures': """final(self).sp_events() == old(self).sp_events().push(MarkEvent::NodeStart { kind, parent: 0 }),
            m.position == old(self).sp_events().len(),
            final(self).sp_level() == old(self).sp_level() + 1,
            """ + FRAME_SELF,
        'body_first': 'broadcast use lemma_eaten_push;'},
    'push_node_end': {
        'requires': 'old(self).sp_level() > 0',
        'ensures': """final(self).sp_events() == old(self).sp_events().push(MarkEvent::NodeEnd),
            final(self).sp_level() == old(self).sp_level() - 1,
            """ + FRAME_SELF,
        'body_first': 'broadcast use lemma_eaten_push;'},
}

MARKER_OK = 'self.position < old(p).sp_events().len(), old(p).sp_events()[self.position as int] is NodeStart'

PARSER_FRAME = ('same_cursor(final(self), old(self)),\n'
                '            ev_mono(old(self).events@, final(self).events@),\n'
                '            final(self).mark_level >= old(self).mark_level,\n'
                '            lvl_ok(final(self))')

PTT_INV = """
invariant
    start == old(self).token_index, start < next_index <= self.tokens@.len(), start <= i <= next_index,
    tokens_ok(self.tokens@),
    forall|q: int| start < q < next_index ==> sp_trivia(self.tokens@[q].kind),
    k == (if sp_trivia(self.tokens@[start as int].kind) { start as int } else { start + 1 }),
    same_cursor(self, old(self)), ev_mono(old(self).events@, self.events@), self.mark_level >= old(self).mark_level, lvl_ok(self),
    // doc_tokens is the pending, not yet emitted, contiguous slice tokens[j .. e)
    ({ let e = if i < k { k } else { i as int }; let j = e - doc_tokens@.len();
       &&& k <= j
       &&& doc_tokens@ == self.tokens@.subrange(j, e)
       &&& emits(eaten(self.events@), ranges(self.tokens@).take(j), doc_mode(self)) }),
    doc_tokens@.len() > 0 ==> sp_comment(doc_tokens@[0].kind),
    0 <= line_count <= i - start,
"""

UNIT = {
    'items': {
        'LuaTokenKind': {'src': {'file': TK, 'kind': 'enum', 'name': 'LuaTokenKind'}, 'attrs': DERIVE},
        'LuaSyntaxKind': {'src': {'file': SK, 'kind': 'enum', 'name': 'LuaSyntaxKind'}, 'attrs': DERIVE},
        'SourceRange': {'src': {'file': TR, 'kind': 'struct', 'name': 'SourceRange'}, 'attrs': DERIVE},
        'SourceRange::EMPTY': {'src': {'file': TR, 'kind': 'const', 'impl': 'SourceRange', 'name': 'EMPTY'}},
        'LuaTokenData': {'src': {'file': TD, 'kind': 'struct', 'name': 'LuaTokenData'}, 'attrs': DERIVE},
        'MarkEvent': {'src': {'file': M, 'kind': 'enum', 'name': 'MarkEvent'}},
        'MarkerEventContainer': {
            'src': {'file': M, 'kind': 'trait', 'name': 'MarkerEventContainer'},
            'rules': ['vis-pub', ('trait-spec-overlay', {'ghost': TRAIT_GHOST, 'methods': TRAIT_METHODS})],
        },
        'Marker': {'src': {'file': M, 'kind': 'struct', 'name': 'Marker'}, 'rules': ['vis-pub']},
        'Marker::new': m_fn('Marker', 'new', ret='r', ensures='r.position == position'),
        'Marker::set_kind': m_fn(
            'Marker', 'set_kind',
            requires='old(self).position < old(p).sp_events().len(), old(p).sp_events()[old(self).position as int] is NodeStart',
            ensures="""final(self).position == old(self).position,
            alters_start(old(p).sp_events(), final(p).sp_events(), old(self).position as int),
            ns_kind(final(p).sp_events()[old(self).position as int]) == kind,
            ns_parent(final(p).sp_events()[old(self).position as int]) == ns_parent(old(p).sp_events()[old(self).position as int]),
            final(p).sp_level() == old(p).sp_level(),
            """ + FRAME_P,
            proof=[(r'_ => unreachable!\(\),\s*\}', 'after',
                    'proof { lemma_alters_frame(old(p).sp_events(), p.sp_events(), self.position as int); }')]),
        'Marker::complete': m_fn(
            'Marker', 'complete', ret='cm',
            requires=MARKER_OK + ',\n        old(p).sp_events().len() != self.position + 1 ==> old(p).sp_level() > 0',
            ensures="""old(p).sp_events().len() == self.position + 1 ==> (
                alters_start(old(p).sp_events(), final(p).sp_events(), self.position as int)
                && ns_kind(final(p).sp_events()[self.position as int]) is None
                && final(p).sp_level() == old(p).sp_level() && cm.start == 0 && cm.kind is None),
            old(p).sp_events().len() != self.position + 1 ==> (
                final(p).sp_events() == old(p).sp_events().push(MarkEvent::NodeEnd)
                && final(p).sp_level() == old(p).sp_level() - 1 && cm.start == self.position
                && cm.kind == ns_kind(old(p).sp_events()[self.position as int])),
            cm.start == self.position || cm.start == 0,
            old(p).sp_level() <= old(p).sp_events().len() ==> final(p).sp_level() <= final(p).sp_events().len(),
            """ + FRAME_P,
            proof=[(r'return CompleteMarker \{', 'before',
                    'proof { lemma_alters_frame(old(p).sp_events(), p.sp_events(), self.position as int); }')]),
        'Marker::undo': m_fn(
            'Marker', 'undo', ret='cm',
            requires=MARKER_OK,
            ensures="""alters_start(old(p).sp_events(), final(p).sp_events(), self.position as int),
            ns_kind(final(p).sp_events()[self.position as int]) is None,
            final(p).sp_level() == old(p).sp_level(),
            cm.start == self.position, cm.kind is None,
            """ + FRAME_P,
            proof=[(r'_ => unreachable!\(\),\s*\}', 'after',
                    'proof { lemma_alters_frame(old(p).sp_events(), p.sp_events(), self.position as int); }')]),
        'CompleteMarker': {'src': {'file': M, 'kind': 'struct', 'name': 'CompleteMarker'}, 'rules': ['vis-pub', ('struct-fields', {})]},
        'CompleteMarker::precede': m_fn(
            'CompleteMarker', 'precede', ret='m',
            requires='self.start < old(p).sp_events().len(), old(p).sp_events()[self.start as int] is NodeStart, old(p).sp_level() <= old(p).sp_events().len()',
            ensures="""final(p).sp_events().len() == old(p).sp_events().len() + 2,
            final(p).sp_events()[old(p).sp_events().len() as int] == (MarkEvent::NodeStart { kind, parent: 0 }),
            final(p).sp_events()[old(p).sp_events().len() as int + 1] is Trivia,
            forall|i: int| 0 <= i < old(p).sp_events().len() && i != self.start ==> #[trigger] final(p).sp_events()[i] == old(p).sp_events()[i],
            final(p).sp_events()[self.start as int] is NodeStart,
            ns_kind(final(p).sp_events()[self.start as int]) == ns_kind(old(p).sp_events()[self.start as int]),
            ns_parent(final(p).sp_events()[self.start as int]) == old(p).sp_events().len(),
            m.position == old(p).sp_events().len(),
            final(p).sp_level() == old(p).sp_level() + 1,
            """ + FRAME_P,
            body_first='broadcast use lemma_eaten_push;',
            proof=[(r'let m = p\.mark\(kind\);', 'after', 'let ghost ev1 = p.sp_events();'),
                   (r'_ => unreachable!\(\),\s*\}', 'after',
                    'proof { lemma_alters_frame(ev1, p.sp_events(), self.start as int); }')]),
        'CompleteMarker::empty': m_fn('CompleteMarker', 'empty', ret='r', ensures='r.start == 0, r.kind is None'),
        'CompleteMarker::is_invalid': m_fn('CompleteMarker', 'is_invalid', ret='r', ensures='r == (self.kind is None)'),
        'LuaParser': {'src': {'file': P, 'kind': 'struct', 'name': 'LuaParser'},
                      'rules': [('struct-fields', {'keep': ['events', 'tokens', 'token_index', 'current_token', 'mark_level', 'parse_config']})]},
        'LuaParser::get_mark_level': pc_fn('get_mark_level'),
        'LuaParser::incr_mark_level': pc_fn('incr_mark_level'),
        'LuaParser::decr_mark_level': pc_fn('decr_mark_level'),
        'LuaParser::get_events': pc_fn('get_events'),
        'LuaParser::init': p_fn(
            'init',
            requires='tokens_ok(old(self).tokens@), old(self).token_index == 0, eaten(old(self).events@).len() == 0, lvl_ok(old(self))',
            ensures="""inv(final(self)) /*@C01.init.establishes-inv*/,
            final(self).tokens@ == old(self).tokens@, final(self).parse_config == old(self).parse_config,
            ev_mono(old(self).events@, final(self).events@),
            final(self).mark_level >= old(self).mark_level,
            final(self).token_index == final(self).tokens@.len() || !sp_trivia(final(self).current_token)""",
            proof=[(r'if is_trivia_kind\(self\.current_token\) \{', 'before',
                    'proof { assert(eaten(self.events@) =~= ranges(self.tokens@).take(0)); }')]),
        'LuaParser::current_token': p_fn('current_token', ret='r', ensures='r == self.current_token'),
        'LuaParser::current_token_index': p_fn('current_token_index', ret='r', ensures='r == self.token_index'),
        'LuaParser::current_token_range': p_fn(
            'current_token_range', ret='r',
            ensures="""self.token_index < self.tokens@.len() ==> r == self.tokens@[self.token_index as int].range,
            self.token_index >= self.tokens@.len() && self.tokens@.len() > 0 ==> r == self.tokens@.last().range"""),
        'LuaParser::previous_token_range': p_fn(
            'previous_token_range', requires='self.token_index <= self.tokens@.len()',
            loops={0: 'invariant prev_index < self.tokens@.len(),\ndecreases prev_index'}),
        'LuaParser::set_current_token_kind': p_fn(
            'set_current_token_kind',
            requires='inv(old(self)), !(kind is None), !(kind is TkEof)',
            ensures="""inv(final(self)) /*@C01.set-kind.keeps-inv*/,
            final(self).events@ == old(self).events@, final(self).mark_level == old(self).mark_level,
            final(self).token_index == old(self).token_index, final(self).parse_config == old(self).parse_config,
            final(self).tokens@.len() == old(self).tokens@.len(),
            ranges(final(self).tokens@) == ranges(old(self).tokens@)""",
            proof=[(r'self\.current_token = kind;', 'after',
                    'proof { assert(ranges(self.tokens@) =~= ranges(old(self).tokens@)); }')]),
        'LuaParser::bump': p_fn(
            'bump',
            requires='inv(old(self)), old(self).token_index < old(self).tokens@.len()',
            ensures="""inv(final(self)) /*@C01.bump.emits-each-token-once*/,
            final(self).token_index > old(self).token_index || old(self).token_index >= old(self).tokens@.len() /*@C02.bump.progress*/,
            final(self).tokens@ == old(self).tokens@, final(self).parse_config == old(self).parse_config,
            ev_mono(old(self).events@, final(self).events@),
            final(self).mark_level >= old(self).mark_level,
            final(self).token_index == final(self).tokens@.len() || !sp_trivia(final(self).current_token)""",
            body_first='broadcast use lemma_eaten_push;',
            proof=[(r'let mut next_index = self\.token_index \+ 1;', 'before',
                    """proof {
                if !sp_invalid(old(self).current_token) {
                    lemma_emits_push_one(eaten(old(self).events@), ranges(self.tokens@), self.token_index as int, doc_mode(self));
                }
            }""")]),
        'LuaParser::peek_next_token': p_fn('peek_next_token', ret='r', requires='self.token_index < usize::MAX',
                                           ensures='!sp_trivia(r)'),
        'LuaParser::peek_nth_token': p_fn(
            'peek_nth_token', ret='r',
            requires='self.token_index <= self.tokens@.len(), self.tokens@.len() + n < usize::MAX',
            loops={0: 'invariant index <= self.tokens@.len() + VERUS_ghost_iter.index(), VERUS_ghost_iter.index() <= n + 1, VERUS_ghost_iter.seq().len() == n + 1,'}),
        'LuaParser::skip_trivia': p_fn(
            'skip_trivia',
            ensures="""*final(index) >= *old(index),
            *old(index) >= self.tokens@.len() ==> *final(index) == *old(index),
            *old(index) < self.tokens@.len() ==> *final(index) <= self.tokens@.len(),
            forall|j: int| *old(index) <= j < *final(index) ==> sp_trivia(#[trigger] self.tokens@[j].kind),
            *final(index) < self.tokens@.len() ==> !sp_trivia(self.tokens@[*final(index) as int].kind) /*@C01.skip_trivia.stops-at-non-trivia*/""",
            loops={0: """invariant_except_break
    *index < self.tokens@.len(), kind == self.tokens@[*index as int].kind,
invariant
    *old(index) <= *index <= self.tokens@.len(),
    forall|j: int| *old(index) <= j < *index ==> sp_trivia(#[trigger] self.tokens@[j].kind),
ensures
    *index >= self.tokens@.len() || !sp_trivia(self.tokens@[*index as int].kind),
decreases self.tokens@.len() - *index"""}),
        'LuaParser::parse_trivia_tokens': p_fn(
            'parse_trivia_tokens',
            requires="""tokens_ok(old(self).tokens@), lvl_ok(old(self)),
            old(self).token_index < next_index <= old(self).tokens@.len(),
            forall|q: int| old(self).token_index < q < next_index ==> sp_trivia(old(self).tokens@[q].kind),
            emits(eaten(old(self).events@),
                  ranges(old(self).tokens@).take(if sp_trivia(old(self).tokens@[old(self).token_index as int].kind) { old(self).token_index as int } else { old(self).token_index + 1 }),
                  doc_mode(old(self)))""",
            ensures="""emits(eaten(final(self).events@), ranges(final(self).tokens@).take(next_index as int), doc_mode(final(self))) /*@C01.trivia.emits-run*/,
            """ + PARSER_FRAME,
            body_first="""broadcast use lemma_eaten_push;
        let ghost k: int = if sp_trivia(self.tokens@[self.token_index as int].kind) { self.token_index as int } else { self.token_index + 1 };""",
            loops={0: PTT_INV,
                   1: 'invariant -1 <= temp_index <= i - 2, i < self.tokens@.len(), self.tokens@.len() < 0x7fff_ffff,\ndecreases temp_index + 1'},
        ),
        'LuaParser::parse_comments': p_fn('parse_comments'),
        'is_trivia_kind': {'src': {'file': P, 'kind': 'fn', 'name': 'is_trivia_kind'}, 'ret': 'r',
                           'ensures': 'r == sp_trivia(kind) /*@C01.kinds.trivia-set*/'},
        'is_invalid_kind': {'src': {'file': P, 'kind': 'fn', 'name': 'is_invalid_kind'}, 'ret': 'r',
                            'ensures': 'r == sp_invalid(kind) /*@C01.kinds.invalid-set*/'},
        'parse_chunk': {'src': {'file': G, 'kind': 'fn', 'name': 'parse_chunk'}, 'rules': ['c01-drop-error-report'],
                        'loops': {0: 'decreases p.tokens@.len() - p.token_index'}},
    },
    'extra_rules': [
        ('c01-drop-error-report',
         r'// Provide more detailed error information\s*let error_msg = match p\.current_token\(\) \{.*?\n            \};\s*p\.push_error\(LuaParseError::syntax_error_from\(&error_msg, error_range\)\);',
         '',
         'parse_chunk: the construction of the i18n error message (`t!(..)`, reads `p.current_token()` only) and '
         '`p.push_error(..)` (pushes onto `errors`, a field projected out of LuaParser; no other state is touched) are removed',
         re.S),
    ],
    'allow': [r'external_body', r'uninterp spec fn sp_'],
    'min_obligations': 10,
    'trusted': [],
    'mutants': [],
}
