"""unit c01_parser — link L2 of C01 (the parser emits every lexer token exactly once, in order) and the
parser-driver / marker part of C02 (no panic, `bump` makes progress, `parse_chunk` terminates), and hypothesis H-EV of
c01_compose: `events_ok` (units/c01_green/iface.rs, pasted verbatim into `mod l3`; precondition of LuaTreeBuilder::build:
a non-zero `parent` link of a NodeStart points to a LATER NodeStart) is preserved by every function under contract here and
holds at the exit of parse_chunk — modulo the ASSUMED contracts of the two external_body shims parse_stats and
LuaDocParser::parse, which now also assume preservation of events_ok."""
import re
from vc.rules import rule
from vc import rustlex as L
from vc.extract import Undecided

P = 'crates/emmylua_parser/src/parser/lua_parser.rs'
M = 'crates/emmylua_parser/src/parser/marker.rs'
TK = 'crates/emmylua_parser/src/kind/lua_token_kind.rs'
SK = 'crates/emmylua_parser/src/kind/lua_syntax_kind.rs'
TD = 'crates/emmylua_parser/src/lexer/token_data.rs'
TR = 'crates/emmylua_parser/src/text/text_range.rs'
G = 'crates/emmylua_parser/src/grammar/lua/mod.rs'


# ---------------------------------------------------------------------------------------------
# unit-local rule: contract overlay for the methods of a trait (the framework overlay only reaches
# `fn` items; a trait is extracted as one item)
# ---------------------------------------------------------------------------------------------
@rule('trait-spec-overlay')
def trait_spec_overlay(text, ghost='', methods=None, **_):
    """Specification overlay for a `trait` item extracted as a whole: inserts ghost `spec fn`
    declarations after the opening brace and, per named method, a result name `(r: T)` and
    `requires`/`ensures` clauses between the signature and the body (or the `;`), and proof blocks at
    anchors inside a default method. Only ghost text is added: every edit is a pure insertion, except
    the result name, which wraps the unchanged return type (checked below), so every executable token
    of the trait is kept, in order."""
    methods = methods or {}
    toks = L.code_tokens(text)
    ob = next(i for i, t in enumerate(toks) if L.tok_text(text, t) == '{')
    cb = L.match_close(text, toks, ob)
    edits = [(toks[ob][2], toks[ob][2], '\n' + ghost.rstrip() + '\n')] if ghost else []
    n = 0
    k = ob + 1
    while k < cb:
        t = L.tok_text(text, toks[k])
        if t in ('(', '[', '{'):
            k = L.match_close(text, toks, k) + 1
            continue
        if t == 'fn' and toks[k][0] == 'ident':
            name = L.tok_text(text, toks[k + 1])
            j = k + 2
            while L.tok_text(text, toks[j]) != '(':
                j += 1
            pc = L.match_close(text, toks, j)
            j = pc + 1
            ret = None
            if L.tok_text(text, toks[j]) == '-' and L.tok_text(text, toks[j + 1]) == '>':
                rs = j + 2
                j = rs
                while L.tok_text(text, toks[j]) not in ('{', ';'):
                    j = L.match_close(text, toks, j) + 1 if L.tok_text(text, toks[j]) in ('(', '[') else j + 1
                ret = (toks[rs][1], toks[j - 1][2])
            while L.tok_text(text, toks[j]) not in ('{', ';'):
                j += 1
            sig_end = toks[j - 1][2]
            cfg = methods.get(name)
            if cfg:
                n += 1
                if cfg.get('ret'):
                    if ret is None:
                        raise Undecided('trait-spec-overlay: %s returns ()' % name)
                    edits.append((ret[0], ret[1], '(%s: %s)' % (cfg['ret'], text[ret[0]:ret[1]])))
                c = ''
                if cfg.get('requires'):
                    c += '\n        requires\n            ' + cfg['requires'].strip().rstrip(',') + ','
                if cfg.get('ensures'):
                    c += '\n        ensures\n            ' + cfg['ensures'].strip().rstrip(',') + ','
                if cfg.get('body_first'):
                    if L.tok_text(text, toks[j]) != '{':
                        raise Undecided('trait-spec-overlay: %s has no body' % name)
                    edits.append((toks[j][2], toks[j][2], '\n' + cfg['body_first'].strip() + '\n'))
                edits.append((sig_end, sig_end, c + '\n    '))
                if cfg.get('proof'):
                    bc = L.match_close(text, toks, j)
                    lo, hi = toks[j][1], toks[bc][2]
                    for anchor, where, txt in cfg['proof']:
                        ms = list(re.finditer(anchor, text[lo:hi]))
                        if len(ms) != 1:
                            raise Undecided('trait-spec-overlay: proof anchor /%s/ matched %d times in %s' % (anchor, len(ms), name))
                        pos = lo + (ms[0].start() if where == 'before' else ms[0].end())
                        edits.append((pos, pos, '\n' + txt.strip() + '\n'))
            k = L.match_close(text, toks, j) + 1 if L.tok_text(text, toks[j]) == '{' else j + 1
            continue
        k += 1
    if n != len(methods):
        raise Undecided('trait-spec-overlay: only %d of %d methods found' % (n, len(methods)))
    out = text
    for pos, end, new in sorted(edits, key=lambda e: (e[0], e[1]), reverse=True):
        if text[pos:end] not in new:
            raise Undecided('trait-spec-overlay: edit would delete extracted text')
        out = out[:pos] + new + out[end:]
    return out, max(n, 1)


def p_fn(name, **kw):
    d = {'src': {'file': P, 'kind': 'fn', 'impl': 'LuaParser', 'name': name}}
    d.update(kw)
    return d


def pc_fn(name, **kw):
    d = {'src': {'file': P, 'kind': 'fn', 'impl': 'MarkerEventContainer for LuaParser', 'name': name}, 'pub': False}
    d.update(kw)
    return d


def m_fn(owner, name, **kw):
    d = {'src': {'file': M, 'kind': 'fn', 'impl': owner, 'name': name}}
    d.update(kw)
    return d


DERIVE = '#[derive(Clone, Copy, PartialEq, Eq)]'
DERIVE_KIND = '#[derive(Clone, Copy, PartialEq, Eq, Structural)]'

EV0 = 'old(p).sp_events()'
EV1 = 'final(p).sp_events()'
FRAME_P = ('final(p).sp_rest() == old(p).sp_rest(),\n'
           '            eaten(final(p).sp_events()) == eaten(old(p).sp_events()) /*@C01.marker.frame*/,\n'
           '            ev_mono(old(p).sp_events(), final(p).sp_events()) /*@C02.marker.nodestart-stable*/,\n'
           '            l3::events_ok(old(p).sp_events()) ==> l3::events_ok(final(p).sp_events()) /*@C02.events-ok-preserved*/')
FRAME_SELF = ('final(self).sp_rest() == old(self).sp_rest(),\n'
              '            eaten(final(self).sp_events()) == eaten(old(self).sp_events()) /*@C01.marker.frame*/,\n'
              '            ev_mono(old(self).sp_events(), final(self).sp_events()) /*@C02.marker.nodestart-stable*/,\n'
              '            l3::events_ok(old(self).sp_events()) ==> l3::events_ok(final(self).sp_events()) /*@C02.events-ok-preserved*/')

# C02 / H-EV: l3::events_ok (units/c01_green/iface.rs, pasted into `mod l3` by the template) is preserved by everything under contract
EVOK_SELF = 'l3::events_ok(old(self).events@) ==> l3::events_ok(final(self).events@) /*@C02.events-ok-preserved*/'
EVOK_INV = 'l3::events_ok(old(self).events@) ==> l3::events_ok(self.events@), /*@C02.events-ok-preserved*/'
# the quantifier of events_ok (trigger `ev[i]`: every sequence index would instantiate it) is kept away from the queries of the
# executable functions: its definition is hidden there (`hide` = the converse of `reveal`, a proof directive) and only the
# three lemmas of evok.rs speak about it
HIDE = 'hide(l3::events_ok);'
BU_LOOP = 'broadcast use {lemma_eaten_push, lemma_evok_push};'   # inside a loop body
BU = HIDE + ' ' + BU_LOOP                                          # at the top of a function body

TRAIT_GHOST = """
    // ghost interface added by rule `trait-spec-overlay` (specification only)
    spec fn sp_events(&self) -> Seq<MarkEvent>;
    spec fn sp_level(&self) -> nat;
    spec fn sp_rest(&self) -> Rest;
    proof fn lemma_events_bounded(&self) ensures self.sp_events().len() <= usize::MAX;
"""

TRAIT_METHODS = {
    'get_mark_level': {'ret': 'r', 'ensures': 'r == self.sp_level()'},
    'incr_mark_level': {
        'requires': 'old(self).sp_level() < usize::MAX',
        'ensures': 'final(self).sp_level() == old(self).sp_level() + 1, final(self).sp_events() == old(self).sp_events(), final(self).sp_rest() == old(self).sp_rest()'},
    'decr_mark_level': {
        'requires': 'old(self).sp_level() > 0',
        'ensures': 'final(self).sp_level() == old(self).sp_level() - 1, final(self).sp_events() == old(self).sp_events(), final(self).sp_rest() == old(self).sp_rest()'},
    'get_events': {
        'ret': 'r',
        'ensures': 'r@ == old(self).sp_events(), final(self).sp_events() == final(r)@, final(self).sp_level() == old(self).sp_level(), final(self).sp_rest() == old(self).sp_rest()'},
    'mark': {
        'ret': 'm',
        'requires': 'old(self).sp_level() <= old(self).sp_events().len()',
        'ensures': """final(self).sp_events() == old(self).sp_events().push(MarkEvent::NodeStart { kind, parent: 0 }),
            m.position == old(self).sp_events().len(),
            final(self).sp_level() == old(self).sp_level() + 1,
            """ + FRAME_SELF,
        'body_first': BU,
        'proof': [(r'\.push\(MarkEvent::NodeStart \{ kind, parent: \d+ \}\);', 'after', 'proof { self.lemma_events_bounded(); }')]},
    'push_node_end': {
        'requires': 'old(self).sp_level() > 0',
        'ensures': """final(self).sp_events() == old(self).sp_events().push(MarkEvent::NodeEnd),
            final(self).sp_level() == old(self).sp_level() - 1,
            """ + FRAME_SELF,
        'body_first': BU},
}

MARKER_OK = 'self.position < old(p).sp_events().len(), old(p).sp_events()[self.position as int] is NodeStart'

PARSER_FRAME = ('same_cursor(final(self), old(self)),\n'
                '            ev_mono(old(self).events@, final(self).events@),\n'
                '            ' + EVOK_SELF + ',\n'
                '            final(self).mark_level >= old(self).mark_level,\n'
                '            lvl_ok(final(self))')

PTT_INV = """
invariant
    start == old(self).token_index, start < next_index <= self.tokens@.len(), start <= i <= next_index,
    tokens_ok(self.tokens@),
    forall|q: int| start < q < next_index ==> sp_trivia(self.tokens@[q].kind),
    k == (if sp_trivia(self.tokens@[start as int].kind) { start as int } else { start + 1 }),
    same_cursor(self, old(self)), ev_mono(old(self).events@, self.events@), self.mark_level >= old(self).mark_level, lvl_ok(self),
    """ + EVOK_INV + """
    // doc_tokens is the pending, not yet emitted, contiguous slice tokens[j .. e)
    ({ let e = if i < k { k } else { i as int }; let j = e - doc_tokens@.len();
       &&& k <= j
       &&& doc_tokens@ == self.tokens@.subrange(j, e)
       &&& emits(eaten(self.events@), ranges(self.tokens@).take(j), doc_mode(self)) }), /*@C01.trivia.emits-run*/
    doc_tokens@.len() > 0 ==> sp_comment(doc_tokens@[0].kind),
    0 <= line_count <= i - start,
"""

UNIT = {
    'items': {
        'LuaTokenKind': {'src': {'file': TK, 'kind': 'enum', 'name': 'LuaTokenKind'}, 'attrs': DERIVE_KIND},
        'LuaSyntaxKind': {'src': {'file': SK, 'kind': 'enum', 'name': 'LuaSyntaxKind'}, 'attrs': DERIVE_KIND},
        'SourceRange': {'src': {'file': TR, 'kind': 'struct', 'name': 'SourceRange'}, 'attrs': DERIVE},
        'SourceRange::EMPTY': {'src': {'file': TR, 'kind': 'const', 'impl': 'SourceRange', 'name': 'EMPTY'}},
        'LuaTokenData': {'src': {'file': TD, 'kind': 'struct', 'name': 'LuaTokenData'}, 'attrs': DERIVE},
        'MarkEvent': {'src': {'file': M, 'kind': 'enum', 'name': 'MarkEvent'}},
        'MarkerEventContainer': {
            'src': {'file': M, 'kind': 'trait', 'name': 'MarkerEventContainer'},
            'rules': ['vis-pub', ('trait-spec-overlay', {'ghost': TRAIT_GHOST, 'methods': TRAIT_METHODS})],
        },
        'Marker': {'src': {'file': M, 'kind': 'struct', 'name': 'Marker'}, 'rules': ['vis-pub']},
        'Marker::new': m_fn('Marker', 'new', ret='r', ensures='r.position == position'),
        'Marker::set_kind': m_fn(
            'Marker', 'set_kind',
            requires='old(self).position < old(p).sp_events().len(), old(p).sp_events()[old(self).position as int] is NodeStart',
            ensures="""final(self).position == old(self).position,
            alters_start(old(p).sp_events(), final(p).sp_events(), old(self).position as int) /*@C02.marker.touches-own-nodestart-only*/,
            ns_kind(final(p).sp_events()[old(self).position as int]) == kind,
            ns_parent(final(p).sp_events()[old(self).position as int]) == ns_parent(old(p).sp_events()[old(self).position as int]),
            final(p).sp_level() == old(p).sp_level(),
            """ + FRAME_P,
            body_first=HIDE,
            proof=[(r'_ => unreachable!\(\),\s*\}', 'after',
                    'proof { lemma_alters_frame(old(p).sp_events(), p.sp_events(), self.position as int);\n'
                    '        lemma_evok_alter(old(p).sp_events(), p.sp_events(), self.position as int); }')]),
        'Marker::complete': m_fn(
            'Marker', 'complete', ret='cm',
            requires=MARKER_OK + ',\n        old(p).sp_events().len() != self.position + 1 ==> old(p).sp_level() > 0',
            ensures="""old(p).sp_events().len() == self.position + 1 ==> (
                alters_start(old(p).sp_events(), final(p).sp_events(), self.position as int)
                && ns_kind(final(p).sp_events()[self.position as int]) is None
                && final(p).sp_level() == old(p).sp_level() && cm.start == 0 && cm.kind is None),
            old(p).sp_events().len() != self.position + 1 ==> (
                final(p).sp_events() == old(p).sp_events().push(MarkEvent::NodeEnd)
                && final(p).sp_level() == old(p).sp_level() - 1 && cm.start == self.position
                && cm.kind == ns_kind(old(p).sp_events()[self.position as int])),
            cm.start == self.position || cm.start == 0,
            old(p).sp_level() <= old(p).sp_events().len() ==> final(p).sp_level() <= final(p).sp_events().len(),
            """ + FRAME_P,
            body_first=HIDE,
            proof=[(r'return CompleteMarker \{', 'before',
                    'proof { lemma_alters_frame(old(p).sp_events(), p.sp_events(), self.position as int);\n'
                    '        lemma_evok_alter(old(p).sp_events(), p.sp_events(), self.position as int); }')]),
        'Marker::undo': m_fn(
            'Marker', 'undo', ret='cm',
            requires=MARKER_OK,
            ensures="""alters_start(old(p).sp_events(), final(p).sp_events(), self.position as int) /*@C02.marker.touches-own-nodestart-only*/,
            ns_kind(final(p).sp_events()[self.position as int]) is None,
            final(p).sp_level() == old(p).sp_level(),
            cm.start == self.position, cm.kind is None,
            """ + FRAME_P,
            body_first=HIDE,
            proof=[(r'_ => unreachable!\(\),\s*\}', 'after',
                    'proof { lemma_alters_frame(old(p).sp_events(), p.sp_events(), self.position as int);\n'
                    '        lemma_evok_alter(old(p).sp_events(), p.sp_events(), self.position as int); }')]),
        'CompleteMarker': {'src': {'file': M, 'kind': 'struct', 'name': 'CompleteMarker'}, 'rules': ['vis-pub', ('struct-fields', {})]},
        'CompleteMarker::precede': m_fn(
            'CompleteMarker', 'precede', ret='m',
            requires='self.start < old(p).sp_events().len(), old(p).sp_events()[self.start as int] is NodeStart, old(p).sp_level() <= old(p).sp_events().len()',
            ensures="""final(p).sp_events().len() == old(p).sp_events().len() + 2,
            final(p).sp_events()[old(p).sp_events().len() as int] == (MarkEvent::NodeStart { kind, parent: 0 }),
            final(p).sp_events()[old(p).sp_events().len() as int + 1] is Trivia,
            forall|i: int| 0 <= i < old(p).sp_events().len() && i != self.start ==> #[trigger] final(p).sp_events()[i] == old(p).sp_events()[i],
            final(p).sp_events()[self.start as int] is NodeStart,
            ns_kind(final(p).sp_events()[self.start as int]) == ns_kind(old(p).sp_events()[self.start as int]),
            ns_parent(final(p).sp_events()[self.start as int]) == old(p).sp_events().len(),
            m.position == old(p).sp_events().len(),
            final(p).sp_level() == old(p).sp_level() + 1,
            """ + FRAME_P,
            body_first=BU,
            proof=[(r'let m = p\.mark\(kind\);', 'after', 'let ghost ev1 = p.sp_events();'),
                   (r'_ => unreachable!\(\),\s*\}', 'after',
                    'proof { lemma_alters_frame(ev1, p.sp_events(), self.start as int);\n'
                    '        // the stored link m.position == old len is LATER than self.start (< old len) and holds the NodeStart just pushed by mark\n'
                    '        lemma_evok_alter(ev1, p.sp_events(), self.start as int); }')]),
        'CompleteMarker::empty': m_fn('CompleteMarker', 'empty', ret='r', ensures='r.start == 0, r.kind is None'),
        'CompleteMarker::is_invalid': m_fn('CompleteMarker', 'is_invalid', ret='r', ensures='r == (self.kind is None)'),
        'LuaParser': {'src': {'file': P, 'kind': 'struct', 'name': 'LuaParser'},
                      'rules': [('struct-fields', {'keep': ['events', 'tokens', 'token_index', 'current_token', 'mark_level', 'parse_config']})]},
        'LuaParser::get_mark_level': pc_fn('get_mark_level'),
        'LuaParser::incr_mark_level': pc_fn('incr_mark_level'),
        'LuaParser::decr_mark_level': pc_fn('decr_mark_level'),
        'LuaParser::get_events': pc_fn('get_events'),
        'LuaParser::init': p_fn(
            'init',
            requires='tokens_ok(old(self).tokens@), old(self).token_index == 0, eaten(old(self).events@).len() == 0, lvl_ok(old(self))',
            ensures="""inv(final(self)) /*@C01.init.establishes-inv*/,
            final(self).tokens@ == old(self).tokens@, final(self).parse_config == old(self).parse_config,
            ev_mono(old(self).events@, final(self).events@),
            """ + EVOK_SELF + """,
            final(self).mark_level >= old(self).mark_level,
            final(self).token_index == final(self).tokens@.len() || !sp_trivia(final(self).current_token)""",
            body_first=HIDE,
            proof=[(r'if is_trivia_kind\(self\.current_token\) \{', 'before',
                    'proof { lemma_emits_nil(eaten(self.events@), ranges(self.tokens@).take(0), doc_mode(self)); }')]),
        'LuaParser::current_token': p_fn('current_token', ret='r', ensures='r == self.current_token'),
        'LuaParser::current_token_index': p_fn('current_token_index', ret='r', ensures='r == self.token_index'),
        'LuaParser::current_token_range': p_fn(
            'current_token_range', ret='r',
            ensures="""self.token_index < self.tokens@.len() ==> r == self.tokens@[self.token_index as int].range,
            self.token_index >= self.tokens@.len() && self.tokens@.len() > 0 ==> r == self.tokens@.last().range"""),
        'LuaParser::previous_token_range': p_fn(
            'previous_token_range', requires='self.token_index <= self.tokens@.len()',
            loops={0: 'invariant prev_index < self.tokens@.len(),\ndecreases prev_index'}),
        'LuaParser::set_current_token_kind': p_fn(
            'set_current_token_kind',
            requires='inv(old(self)), !(kind is None), !(kind is TkEof)',
            ensures="""inv(final(self)) /*@C01.set-kind.keeps-inv*/,
            final(self).events@ == old(self).events@, final(self).mark_level == old(self).mark_level,
            """ + EVOK_SELF + """,
            final(self).token_index == old(self).token_index, final(self).parse_config == old(self).parse_config,
            final(self).tokens@.len() == old(self).tokens@.len(),
            ranges(final(self).tokens@) == ranges(old(self).tokens@)""",
            body_first=HIDE,
            proof=[(r'self\.current_token = kind;', 'after',
                    'proof { assert(ranges(self.tokens@) =~= ranges(old(self).tokens@)); }')]),
        'LuaParser::bump': p_fn(
            'bump',
            requires='inv(old(self)), old(self).token_index < old(self).tokens@.len()',
            ensures="""inv(final(self)) /*@C01.bump.emits-each-token-once*/,
            final(self).token_index > old(self).token_index || old(self).token_index >= old(self).tokens@.len() /*@C02.bump.progress*/,
            final(self).tokens@ == old(self).tokens@, final(self).parse_config == old(self).parse_config,
            ev_mono(old(self).events@, final(self).events@),
            """ + EVOK_SELF + """,
            final(self).mark_level >= old(self).mark_level,
            final(self).token_index == final(self).tokens@.len() || !sp_trivia(final(self).current_token)""",
            body_first=BU,
            proof=[(r'self\.parse_trivia_tokens\(next_index\);', 'after',
                    'proof { lemma_mono_trans(old(self).events@, ev1, self.events@); }'),
                   (r'let mut next_index = self\.token_index[^;]*;', 'before',
                    """let ghost ev1 = self.events@;
            let ghost kk: int = if sp_trivia(self.tokens@[self.token_index as int].kind) { self.token_index as int } else { self.token_index + 1 };
            proof {
                if !sp_invalid(old(self).current_token) {
                    lemma_emits_push_one(eaten(old(self).events@), ranges(self.tokens@), self.token_index as int, doc_mode(self));
                }
                // the current token has been emitted exactly once iff it is not trivia (trivia is emitted by parse_trivia_tokens)
                assert(emits(eaten(self.events@), ranges(self.tokens@).take(kk), doc_mode(self))); /*@C01.bump.emits-each-token-once*/
            }""")]),
        'LuaParser::peek_next_token': p_fn('peek_next_token', ret='r', requires='self.token_index < usize::MAX',
                                           ensures='!sp_trivia(r)'),
        'LuaParser::peek_nth_token': p_fn(
            'peek_nth_token', ret='r',
            requires='self.token_index <= self.tokens@.len(), self.tokens@.len() + n < usize::MAX',
            loops={0: 'invariant self.tokens@.len() + n < usize::MAX, index <= self.tokens@.len() + VERUS_ghost_iter.index(), VERUS_ghost_iter.seq().len() == n + 1,'}),
        'LuaParser::skip_trivia': p_fn(
            'skip_trivia', rules=['refmut-cmp-deref'],
            ensures="""*final(index) >= *old(index),
            *old(index) >= self.tokens@.len() ==> *final(index) == *old(index),
            *old(index) < self.tokens@.len() ==> *final(index) <= self.tokens@.len(),
            forall|j: int| *old(index) <= j < *final(index) ==> sp_trivia(#[trigger] self.tokens@[j].kind) /*@C01.skip_trivia.skips-only-trivia*/,
            *final(index) < self.tokens@.len() ==> !sp_trivia(self.tokens@[*final(index) as int].kind) /*@C01.skip_trivia.stops-at-non-trivia*/""",
            loops={0: """invariant_except_break
    *index < self.tokens@.len(), kind == self.tokens@[*index as int].kind,
invariant
    *old(index) <= *index <= self.tokens@.len(), self.tokens@.len() <= usize::MAX,
    forall|j: int| *old(index) <= j < *index ==> sp_trivia(#[trigger] self.tokens@[j].kind), /*@C01.skip_trivia.skips-only-trivia*/
ensures
    *index >= self.tokens@.len() || !sp_trivia(self.tokens@[*index as int].kind),
decreases self.tokens@.len() - *index"""}),
        'LuaParser::parse_trivia_tokens': p_fn(
            'parse_trivia_tokens',
            requires="""tokens_ok(old(self).tokens@), lvl_ok(old(self)),
            old(self).token_index < next_index <= old(self).tokens@.len(),
            forall|q: int| old(self).token_index < q < next_index ==> sp_trivia(old(self).tokens@[q].kind),
            emits(eaten(old(self).events@),
                  ranges(old(self).tokens@).take(if sp_trivia(old(self).tokens@[old(self).token_index as int].kind) { old(self).token_index as int } else { old(self).token_index + 1 }),
                  doc_mode(old(self)))""",
            ensures="""emits(eaten(final(self).events@), ranges(final(self).tokens@).take(next_index as int), doc_mode(final(self))) /*@C01.trivia.emits-run*/,
            """ + PARSER_FRAME,
            attrs='#[verifier::spinoff_prover]',
            body_first=HIDE + """
        let ghost k: int = if sp_trivia(self.tokens@[self.token_index as int].kind) { self.token_index as int } else { self.token_index + 1 };""",
            proof=[
                (r'for i in start\.\.next_index \{', 'after', BU_LOOP),
                (r'let token = &self\.tokens\[i\];', 'after',
                 """let ghost j0: int = (if i < k { k } else { i as int }) - doc_tokens@.len();
            let ghost ee = eaten(self.events@);
            let ghost rr = ranges(self.tokens@);
            proof {
                if i >= k {
                    assert(self.tokens@.subrange(j0, i as int).push(self.tokens@[i as int]) =~= self.tokens@.subrange(j0, i + 1));
                    lemma_ranges_subrange(self.tokens@, j0, i + 1);
                    lemma_adjacent_subrange(rr, j0, i + 1);
                    if doc_tokens@.len() == 0 {
                        lemma_emits_push_one(ee, rr, i as int, doc_mode(self));
                    }
                }
            }"""),
                (r'if line_count > 1 && !doc_tokens\.is_empty\(\) \{\s*self\.parse_comments\(&doc_tokens\);', 'after',
                 'proof { lemma_emits_append(ee, eaten(self.events@), rr, j0, i + 1, doc_mode(self)); }'),
                (r'if inline_comment \{\s*self\.parse_comments\(&doc_tokens\);', 'after',
                 'proof { lemma_emits_append(ee, eaten(self.events@), rr, j0, i + 1, doc_mode(self)); }'),
                (r'doc_tokens\.clear\(\);\s*\}\s*\}\s*\}(?=\s*\}\s*(?:if !doc_tokens|doc_tokens\.clear))', 'after',
                 'proof { assert(doc_tokens@.len() == 0 ==> doc_tokens@ =~= self.tokens@.subrange(i + 1, i + 1)); }'),
                (r'if !doc_tokens\.is_empty\(\) \{\s*self\.parse_comments\(&doc_tokens\);\s*\}\s*\}\s*$', 'before',
                 """let ghost e9 = eaten(self.events@);
        let ghost j9: int = next_index - doc_tokens@.len();
        proof {
            lemma_ranges_subrange(self.tokens@, j9, next_index as int);
            lemma_adjacent_subrange(ranges(self.tokens@), j9, next_index as int);
        }"""),
                (r'self\.parse_comments\(&doc_tokens\);(?=\s*\}\s*\}\s*$)', 'after',
                 'proof { lemma_emits_append(e9, eaten(self.events@), ranges(self.tokens@), j9, next_index as int, doc_mode(self)); }'),
            ],
            loops={0: PTT_INV,
                   1: 'invariant -1 <= temp_index <= i - 2, i < self.tokens@.len(), self.tokens@.len() < 0x7fff_ffff,\ndecreases temp_index + 1'},
        ),
        'LuaParser::parse_comments': p_fn(
            'parse_comments',
            requires="""lvl_ok(old(self)), adjacent(ranges(comment_tokens@)),
            doc_mode(old(self)) ==> comment_tokens@.len() > 0 && sp_comment(comment_tokens@[0].kind)""",
            ensures="""grows(eaten(old(self).events@), eaten(final(self).events@)),
            emits(eaten(final(self).events@).skip(eaten(old(self).events@).len() as int), ranges(comment_tokens@), doc_mode(old(self))) /*@C01.parse_comments.emits-slice*/,
            """ + PARSER_FRAME,
            body_first=HIDE + """
        reveal(emits);
        let ghost r = ranges(comment_tokens@);
        let ghost e0 = eaten(self.events@);""",
            loops={
                0: """
invariant
    VERUS_ghost_iter.seq().len() == comment_tokens@.len(),
    forall|q: int| 0 <= q < comment_tokens@.len() ==> *VERUS_ghost_iter.seq()[q] == comment_tokens@[q],
    r == ranges(comment_tokens@), eaten(self.events@) == e0 + r.take(VERUS_ghost_iter.index()), /*@C01.parse_comments.emits-slice*/
    same_cursor(self, old(self)), ev_mono(old(self).events@, self.events@), self.mark_level == old(self).mark_level, lvl_ok(self),
    """ + EVOK_INV + """
""",
                1: """
invariant
    VERUS_ghost_iter.seq().len() == comment_tokens@.len(),
    forall|q: int| 0 <= q < comment_tokens@.len() ==> VERUS_ghost_iter.seq()[q] == comment_tokens@.len() - 1 - q,
    0 < trivia_token_start <= comment_tokens@.len(),
    sp_comment(comment_tokens@[0].kind),
""",
                2: """
invariant
    VERUS_ghost_iter.seq().len() == comment_tokens@.len() - trivia_token_start,
    forall|q: int| 0 <= q < comment_tokens@.len() - trivia_token_start ==> *VERUS_ghost_iter.seq()[q] == comment_tokens@[trivia_token_start + q],
    0 < trivia_token_start <= comment_tokens@.len(),
    r == ranges(comment_tokens@), eaten(self.events@) == e1 + r.subrange(trivia_token_start as int, trivia_token_start + VERUS_ghost_iter.index()), /*@C01.parse_comments.emits-slice*/
    same_cursor(self, old(self)), ev_mono(old(self).events@, self.events@), self.mark_level >= old(self).mark_level, lvl_ok(self),
    """ + EVOK_INV + """
""",
            },
            proof=[
                (r'for token in comment_tokens \{', 'after', BU_LOOP),
                (r'\.skip\(trivia_token_start[^)]*\) \{', 'after', BU_LOOP),
                (r'for token in comment_tokens \{[\s\S]*?range: token\.range,\s*\}\);', 'after',
                 """proof {
                    let n = VERUS_ghost_iter.index();
                    assert(r.take(n).push(r[n]) =~= r.take(n + 1));
                    assert(e0 + r.take(n + 1) =~= (e0 + r.take(n)).push(r[n]));
                }"""),
                (r'return;', 'before',
                 """proof {
                assert(r.take(r.len() as int) =~= r);
                assert((e0 + r).take(e0.len() as int) =~= e0);
                assert((e0 + r).skip(e0.len() as int) =~= r);
            }"""),
                (r'LuaDocParser::parse\(self, tokens\);', 'before',
                 """proof {
            lemma_ranges_subrange(comment_tokens@, 0, trivia_token_start as int);
            lemma_adjacent_subrange(r, 0, trivia_token_start as int);
        }"""),
                (r'LuaDocParser::parse\(self, tokens\);', 'after',
                 """let ghost e1 = eaten(self.events@);
        proof { assert(r.subrange(trivia_token_start as int, trivia_token_start as int) =~= Seq::<SourceRange>::empty()); assert(e1 + Seq::<SourceRange>::empty() =~= e1); }"""),
                (r'\.skip\(trivia_token_start[^)]*\) \{\s*self\.events\.push\(MarkEvent::EatToken \{\s*kind: token\.kind,\s*range: [^,]*,\s*\}\);', 'after',
                 """proof {
                let s = trivia_token_start as int;
                let n = VERUS_ghost_iter.index();
                assert(r.subrange(s, s + n).push(r[s + n]) =~= r.subrange(s, s + n + 1));
                assert(e1 + r.subrange(s, s + n + 1) =~= (e1 + r.subrange(s, s + n)).push(r[s + n]));
            }"""),
                (r'\.skip\(trivia_token_start[^)]*\) \{[\s\S]*?\}\);\s*\}', 'after',
                 """proof {
            let s = trivia_token_start as int;
            let n = comment_tokens@.len() as int;
            let d = e1.skip(e0.len() as int);
            let tail = r.subrange(s, n);
            lemma_adjacent_subrange(r, s, n);
            lemma_emits_self(tail, true);
            assert(r.take(s) + tail =~= r);
            lemma_emits_cat(d, r.take(s), tail, tail, true);
            assert((e1 + tail).take(e0.len() as int) =~= e1.take(e0.len() as int));
            assert((e1 + tail).skip(e0.len() as int) =~= d + tail);
        }"""),
            ]),
        'is_trivia_kind': {'src': {'file': P, 'kind': 'fn', 'name': 'is_trivia_kind'}, 'ret': 'r',
                           'ensures': 'r == sp_trivia(kind) /*@C01.kinds.trivia-set*/'},
        'is_invalid_kind': {'src': {'file': P, 'kind': 'fn', 'name': 'is_invalid_kind'}, 'ret': 'r',
                            'ensures': 'r == sp_invalid(kind) /*@C01.kinds.invalid-set*/'},
        'parse_chunk': {
            'src': {'file': G, 'kind': 'fn', 'name': 'parse_chunk'}, 'rules': ['c01-drop-error-report'],
            'requires': 'tokens_ok(old(p).tokens@), old(p).token_index == 0, old(p).events@.len() == 0, old(p).mark_level == 0',
            'ensures': """inv(final(p)),
            final(p).token_index == final(p).tokens@.len(),
            ranges(final(p).tokens@) == ranges(old(p).tokens@), doc_mode(final(p)) == doc_mode(old(p)),
            emits(eaten(final(p).events@), ranges(old(p).tokens@), doc_mode(old(p))) /*@C01.parse_chunk.all-tokens-emitted*/,
            final(p).events@.len() > 0 && final(p).events@[0] is NodeStart,
            l3::events_ok(final(p).events@) /*@C02.events-ok-preserved*/""",
            'body_first': HIDE + ' proof { lemma_evok_empty(p.events@); }',
            'loops': {0: """
invariant
    inv(p), ranges(p.tokens@) == ranges(old(p).tokens@), p.tokens@.len() == old(p).tokens@.len(), doc_mode(p) == doc_mode(old(p)),
    p.mark_level >= 1,
    m.position == 0, p.events@.len() > 0, p.events@[0] is NodeStart,
    l3::events_ok(p.events@), /*@C02.events-ok-preserved*/
decreases p.tokens@.len() - p.token_index"""},
            'proof': [
                (r'let consume_count = p\.current_token_index\(\);', 'after', 'let ghost ti0 = p.token_index;'),
                (r'm\.complete\(p\);\s*\}(?=\s*\}\s*m\.complete)', 'after',
                 'proof { assert(p.token_index > ti0); /*@C02.parse_chunk.terminates*/ }'),
                (r'm\.complete\(p\);(?=\s*\}\s*$)', 'before',
                 'proof { assert(ranges(p.tokens@).take(p.tokens@.len() as int) =~= ranges(p.tokens@)); }'),
            ],
        },
    },
    'extra_rules': [
        ('refmut-cmp-deref', r'\bindex >= &mut self\.tokens\.len\(\)', '*index >= self.tokens.len()',
         '`a >= &mut b` with a: &mut usize -> `*a >= b`: std `impl PartialOrd<&mut B> for &mut A` forwards to the '
         'comparison of the pointees (core::cmp, "impls for references")'),
        ('c01-drop-error-report',
         r'// Provide more detailed error information\s*let error_msg = match p\.current_token\(\) \{.*?\n            \};\s*p\.push_error\(LuaParseError::syntax_error_from\(&error_msg, error_range\)\);',
         '',
         'parse_chunk: the construction of the i18n error message (`t!(..)`, reads `p.current_token()` only) and '
         '`p.push_error(..)` (pushes onto `errors`, a field projected out of LuaParser; no other state is touched) are removed',
         re.S),
    ],
    'allow': [r'external_body', r'uninterp spec fn sp_'],
    'min_obligations': 60,
    'trusted': [
        'ASSUMED (established by unit c01_reader, link L1): tokens_ok(tokens) — consecutive token ranges are adjacent, the first starts at 0, '
        'every length > 0 (not used by any proof here), no token has kind None or TkEof (such a token would be dropped by bump: is_invalid_kind), '
        'and tokens.len() < 2^31 - 1 (parse_trivia_tokens counts line ends in an i32)',
        'ASSUMED contract of LuaDocParser::parse (doc lexer + doc grammar, ~3000 lines, external_body): appends events whose EatToken ranges tile '
        'exactly the byte span of the comment tokens it is given (it re-lexes the comment text, so the ranges are NOT the token ranges); leaves tokens, '
        'token_index, current_token, parse_config untouched; events only grow and NodeStarts stay NodeStarts; mark_level does not drop below its entry '
        'value and stays <= events.len(). The one unverified link of C01/L2 (checked by instrumentation over the crate test-suite and a token-soup run, not proved)',
        'ASSUMED contract of parse_stats (statement grammar, external_body): preserves inv, does not decrease token_index, keeps the number and ranges of '
        'tokens and the configuration, events monotone, mark_level not below entry value. Basis: events/tokens/token_index/current_token/mark_level are '
        'private to parser::lua_parser, the grammar reaches them only through the functions proved here; the one hole, pub(crate) get_events(), is used '
        'only in marker.rs, lua_parser.rs, lua_doc_parser.rs (grep, not proved)',
        'ASSUMED (C02 / H-EV), added to the two ASSUMED contracts above: parse_stats and LuaDocParser::parse preserve l3::events_ok '
        '(events_ok(old events) ==> events_ok(final events)). Basis, not proved: they write to `events` only through mark / push_node_end / '
        'Marker::{set_kind,complete,undo} / CompleteMarker::precede / bump / set_current_token_kind (and, for the doc parser, through its delegating '
        'MarkerEventContainer impl and EatToken pushes), each of which is PROVED here to preserve events_ok; `parent` is written by precede only (grep). '
        'This is the only unproved part of H-EV/events_ok',
        'PRECONDITION bump: token_index < tokens.len() — bump at end of input indexes tokens[len] in parse_trivia_tokens and panics (reproduced); every '
        'grammar call site is guarded by a test of current_token, which is TkEof there (scan + 1M-input soup, not proved)',
        'PRECONDITION push_node_end / Marker::complete (non-empty node): mark_level > 0 (decr_mark_level is `-= 1`); callers are in the unextracted grammar, '
        'except parse_chunk where it is proved',
        'PRECONDITION Marker::{set_kind,complete,undo}: position < events.len() and events[position] is NodeStart; CompleteMarker::precede: events[start] is NodeStart '
        '(an invalid CompleteMarker has start == 0: needs events[0] to be a NodeStart, which parse_chunk establishes and ev_mono preserves)',
        'ParserConfig::support_emmylua_doc: uninterpreted result (sp_support_doc); ParserConfig is opaque',
        'derive(PartialEq) on the field-less enums LuaTokenKind/LuaSyntaxKind is structural equality (Verus `Structural` marker added to the derive list); '
        'Debug/PartialOrd/Ord/Hash derives and #[repr(u16)] are dropped',
        'the contracts on the abstract methods of trait MarkerEventContainer are proved for the LuaParser impl; the LuaDocParser impl (delegation to LuaParser) is not extracted',
    ],
    'not_covered': [
        'doc mode: "each lexer token exactly once" is weakened to "the emitted ranges tile exactly the bytes of the tokens, in order" because the doc parser re-tokenises comment groups; '
        'without doc support the exact statement (eaten == token ranges, in order) is proved',
        'LuaParser::parse (lexer + builder glue), current_token_text, push_error/has_error/get_errors, the ternary/paren depth counters',
        'the ~3000 lines of statement/expression grammar and the doc parser: panics and termination inside them',
    ],
    'samples': [
        'bump: requires inv && token_index < len; ensures inv (everything before the current token emitted exactly once, in order), token_index strictly larger, lands on non-trivia or end',
        'parse_trivia_tokens(next): the pending doc_tokens slice is tokens[j..i); eaten(events) accounts for tokens[..j); ensures eaten accounts for tokens[..next)',
        'parse_comments: eaten grows by exactly the slice (non-doc: the token ranges; doc: a tiling of their byte span via the assumed doc-parser contract)',
        'Marker::{set_kind,complete,undo}, CompleteMarker::precede, mark, push_node_end (generic over P: MarkerEventContainer): eaten unchanged, only the own NodeStart altered, no unreachable!()/index panic',
        'parse_chunk: terminates (token_index strictly increases per iteration), all tokens emitted at exit, events[0] is the Block NodeStart',
        'events_ok (c01_green/iface.rs, mod l3): events_ok(old events) ==> events_ok(final events) for mark, push_node_end, Marker::{set_kind,complete,undo}, '
        'CompleteMarker::precede (the only writer of `parent`: stores m.position == old len > self.start, the NodeStart just pushed; also for start == 0), '
        'init, set_current_token_kind, bump, parse_trivia_tokens, parse_comments; parse_chunk (events empty on entry): events_ok(final events)',
    ],
    'mutants': [
        {'name': 'bump-skip-eat', 'item': 'LuaParser::bump',
         'pattern': r'self\.events\.push\(MarkEvent::EatToken \{\s*kind: token\.kind,\s*range: token\.range,\s*\}\);', 'repl': '',
         'expect': r'C01\.bump\.emits-each-token-once'},
        {'name': 'bump-push-twice', 'item': 'LuaParser::bump',
         'pattern': r'(self\.events\.push\(MarkEvent::EatToken \{\s*kind: token\.kind,\s*range: token\.range,\s*\}\);)', 'repl': r'\1 \1',
         'expect': r'C01\.bump\.emits-each-token-once'},
        {'name': 'bump-no-progress', 'item': 'LuaParser::bump',
         'pattern': r'let mut next_index = self\.token_index \+ 1;', 'repl': 'let mut next_index = self.token_index;',
         'expect': r'C02\.bump\.progress'},
        {'name': 'trivia-drop-whitespace', 'item': 'LuaParser::parse_trivia_tokens',
         'pattern': r'(TkShebang \| LuaTokenKind::TkWhitespace => \{\s*if doc_tokens\.is_empty\(\) \{)\s*self\.events\.push\(MarkEvent::EatToken \{\s*kind: token\.kind,\s*range: token\.range,\s*\}\);',
         'repl': r'\1', 'expect': r'C01\.trivia\.emits-run'},
        {'name': 'trivia-drop-final-flush', 'item': 'LuaParser::parse_trivia_tokens',
         'pattern': r'(if !doc_tokens\.is_empty\(\) \{\s*self\.parse_comments\(&doc_tokens\);\s*\}\s*\}\s*)$',
         'repl': r'doc_tokens.clear(); \1', 'expect': r'C01\.trivia\.emits-run'},
        {'name': 'trivia-forget-comment', 'item': 'LuaParser::parse_trivia_tokens',
         'pattern': r'line_count = 0;\s*doc_tokens\.push\(\*token\);', 'repl': 'line_count = 0;',
         'expect': r'C01\.trivia\.emits-run'},
        {'name': 'skip-trivia-plus-one', 'item': 'LuaParser::skip_trivia',
         'pattern': r'\{\s*if index >= &mut', 'repl': '{ *index += 1; if index >= &mut',
         'expect': r'C01\.skip_trivia\.skips-only-trivia'},
        {'name': 'comments-skip-token', 'item': 'LuaParser::parse_comments',
         'pattern': r'for token in comment_tokens \{\s*(self\.events\.push\(MarkEvent::EatToken \{\s*kind: token\.kind,\s*range: token\.range,\s*\}\);)',
         'repl': r'for token in comment_tokens { if token.kind != LuaTokenKind::TkEndOfLine { \1 }',
         'expect': r'C01\.parse_comments\.emits-slice'},
        {'name': 'comments-trailing-trivia-wrong-range', 'item': 'LuaParser::parse_comments',
         'pattern': r'(\.skip\(trivia_token_start\) \{\s*self\.events\.push\(MarkEvent::EatToken \{\s*kind: token\.kind,\s*)range: token\.range,',
         'repl': r'\1range: SourceRange::EMPTY,',
         'expect': r'C01\.parse_comments\.emits-slice'},
        {'name': 'trivia-kind-set', 'item': 'is_trivia_kind',
         'pattern': r'\s*\| LuaTokenKind::TkShebang', 'repl': '',
         'expect': r'C01\.kinds\.trivia-set'},
        {'name': 'node-end-eats', 'item': 'MarkerEventContainer',
         'pattern': r'push\(MarkEvent::NodeEnd\)', 'repl': 'push(MarkEvent::EatToken { kind: LuaTokenKind::None, range: SourceRange::EMPTY })',
         'expect': r'C01\.marker\.frame'},
        {'name': 'undo-wrong-slot', 'item': 'Marker::undo',
         'pattern': r'p\.get_events\(\)\[self\.position\]', 'repl': 'p.get_events()[0]',
         'expect': r'C02\.marker\.touches-own-nodestart-only'},
        # C02 / H-EV: events_ok (a non-zero parent link points to a LATER NodeStart)
        {'name': 'precede-parent-self', 'item': 'CompleteMarker::precede',
         'pattern': r'\*parent = m\.position', 'repl': '*parent = self.start',
         'expect': r'C02\.events-ok-preserved'},
        {'name': 'precede-parent-into-new-marker', 'item': 'CompleteMarker::precede',
         'pattern': r'p\.get_events\(\)\[self\.start\]', 'repl': 'p.get_events()[m.position]',
         'expect': r'C02\.events-ok-preserved'},
        {'name': 'precede-parent-past-end', 'item': 'CompleteMarker::precede',
         'pattern': r'\*parent = m\.position', 'repl': '*parent = m.position + 2',
         'expect': r'C02\.events-ok-preserved'},
        {'name': 'mark-nonzero-parent', 'item': 'MarkerEventContainer',
         'pattern': r'NodeStart \{ kind, parent: 0 \}', 'repl': 'NodeStart { kind, parent: 1 }',
         'expect': r'C02\.events-ok-preserved'},
        {'name': 'chunk-no-bump', 'item': 'parse_chunk',
         'pattern': r'p\.bump\(\); // Consume current token to avoid infinite loop', 'repl': '',
         'expect': r'C02\.parse_chunk\.terminates'},
    ],
}
