// unit c01_parser — C01 link L2 "the parser emits every lexer token exactly once, in order" and the
// parser-driver / marker part of C02 "parsing never crashes or hangs".
// Hand-written part: shims of what is not extracted (ParserConfig, LuaDocParser::parse, parse_stats),
// the spec vocabulary of the property, lemmas. Items marked `//@@` are extracted from the repo on every run.
use vstd::prelude::*;
verus! {

// ---------------------------------------------------------------------------------------------
// extracted plain data types
// ---------------------------------------------------------------------------------------------
//@@ LuaTokenKind

//@@ LuaSyntaxKind

//@@ SourceRange

impl SourceRange {
    //@@ SourceRange::EMPTY
    ; // (extractor ends a `const X: T = T { .. };` item at the closing brace: the `;` is supplied here)
}

//@@ LuaTokenData

//@@ MarkEvent

// ---------------------------------------------------------------------------------------------
// shims
// ---------------------------------------------------------------------------------------------
#[verifier::external_body]
pub struct ParserConfig<'cache> { _p: core::marker::PhantomData<&'cache ()> }

pub uninterp spec fn sp_support_doc(c: &ParserConfig) -> bool;

impl<'cache> ParserConfig<'cache> {
    #[verifier::external_body]
    pub fn support_emmylua_doc(&self) -> (r: bool)
        ensures r == sp_support_doc(self)
    { unimplemented!() }
}

/// ASSUMED contract of the EmmyLua doc parser (doc lexer + doc grammar, ~3000 lines, not extracted):
/// it re-lexes the text of the comment tokens it is given and appends events whose `EatToken` ranges
/// tile exactly the byte span of `tokens`, in order; it touches neither the token stream nor the
/// cursor; it uses the marker API only (events grow, NodeStarts stay NodeStarts) and leaves
/// `mark_level` at least at its entry value. This is the one unverified link of C01/L2.
/// ASSUMED as well (C02 / H-EV): it preserves `l3::events_ok`. Basis: `LuaDocParser` reaches the event list only through
/// its `MarkerEventContainer` impl (delegation to `LuaParser`) and the marker API, each of which is PROVED here to preserve
/// `events_ok`, and through `LuaParser::bump`-like pushes of `EatToken` (no parent link); the doc grammar is not extracted.
pub struct LuaDocParser { _p: () }
impl LuaDocParser {
    #[verifier::external_body]
    pub fn parse(lua_parser: &mut LuaParser<'_>, tokens: &[LuaTokenData])
        requires
            tokens@.len() > 0,
            sp_comment(tokens@[0].kind),
            adjacent(ranges(tokens@)),
            lvl_ok(old(lua_parser)),
        ensures
            same_cursor(final(lua_parser), old(lua_parser)),
            ev_mono(old(lua_parser).events@, final(lua_parser).events@),
            final(lua_parser).mark_level >= old(lua_parser).mark_level,
            lvl_ok(final(lua_parser)),
            grows(eaten(old(lua_parser).events@), eaten(final(lua_parser).events@)),
            chain_over(eaten(final(lua_parser).events@).skip(eaten(old(lua_parser).events@).len() as int), ranges(tokens@)),
            l3::events_ok(old(lua_parser).events@) ==> l3::events_ok(final(lua_parser).events@), // ASSUMED (see above)
    { unimplemented!() }
}

/// ASSUMED contract of the statement grammar (`grammar/lua/stat.rs`, not extracted): it reaches the
/// parser state only through the driver and marker functions proved in this unit (module privacy of
/// `events`/`tokens`/`token_index`), so it preserves `inv`, never moves the cursor backwards, never
/// changes the number of tokens, their ranges (only `set_current_token_kind` writes a token, and only its kind) or the configuration, and leaves `mark_level` at least at its entry value.
/// ASSUMED as well (C02 / H-EV): it preserves `l3::events_ok` — same basis: every write to `events` made by the grammar is a call
/// of `mark` / `push_node_end` / `Marker::{set_kind,complete,undo}` / `CompleteMarker::precede` / `bump` /
/// `set_current_token_kind`, each PROVED here to preserve `events_ok`; that the grammar has no other write access is the
/// module-privacy argument above (grep, not proved).
#[verifier::external_body]
pub fn parse_stats(p: &mut LuaParser)
    requires
        inv(old(p)),
    ensures
        inv(final(p)),
        final(p).token_index >= old(p).token_index,
        final(p).tokens@.len() == old(p).tokens@.len(),
        ranges(final(p).tokens@) == ranges(old(p).tokens@),
        final(p).parse_config == old(p).parse_config,
        ev_mono(old(p).events@, final(p).events@),
        final(p).mark_level >= old(p).mark_level,
        l3::events_ok(old(p).events@) ==> l3::events_ok(final(p).events@), // ASSUMED (see above)
{ unimplemented!() }

//@@include c01_parser/iface.rs

//@@include c01_parser/lemmas.rs

// ---------------------------------------------------------------------------------------------
// interface of unit c01_green, verbatim (the file c01_green itself includes): `l3::events_ok` is the precondition of
// `LuaTreeBuilder::build` that this unit proves as an invariant of the marker API and the parser driver.
// Nothing else of that file is used here (its `eaten` is the c01_green spelling; c01_compose proves the two equal).
// ---------------------------------------------------------------------------------------------
pub mod l3 {
    use vstd::prelude::*;
    use vstd::string::*;
    use super::*;
//@@include c01_green/iface.rs
}

//@@include c01_parser/evok.rs

// ---------------------------------------------------------------------------------------------
// extracted: marker API
// ---------------------------------------------------------------------------------------------
//@@ MarkerEventContainer

//@@ Marker

impl Marker {
    //@@ Marker::new
    //@@ Marker::set_kind
    //@@ Marker::complete
    //@@ Marker::undo
}

//@@ CompleteMarker

impl CompleteMarker {
    //@@ CompleteMarker::precede
    //@@ CompleteMarker::empty
    //@@ CompleteMarker::is_invalid
}

// ---------------------------------------------------------------------------------------------
// extracted: parser driver
// ---------------------------------------------------------------------------------------------
//@@ LuaParser

impl MarkerEventContainer for LuaParser<'_> {
    open spec fn sp_events(&self) -> Seq<MarkEvent> { self.events@ }
    open spec fn sp_level(&self) -> nat { self.mark_level as nat }
    open spec fn sp_rest(&self) -> Rest {
        Rest { tokens: self.tokens@, token_index: self.token_index, current_token: self.current_token, doc: sp_support_doc(&self.parse_config) }
    }
    proof fn lemma_events_bounded(&self) { assert(self.events.len() == self.events@.len()); }
    //@@ LuaParser::get_mark_level
    //@@ LuaParser::incr_mark_level
    //@@ LuaParser::decr_mark_level
    //@@ LuaParser::get_events
}

impl<'a> LuaParser<'a> {
    //@@ LuaParser::init
    //@@ LuaParser::current_token
    //@@ LuaParser::current_token_index
    //@@ LuaParser::current_token_range
    //@@ LuaParser::previous_token_range
    //@@ LuaParser::set_current_token_kind
    //@@ LuaParser::bump
    //@@ LuaParser::peek_next_token
    //@@ LuaParser::peek_nth_token
    //@@ LuaParser::skip_trivia
    //@@ LuaParser::parse_trivia_tokens
    //@@ LuaParser::parse_comments
}

//@@ is_trivia_kind

//@@ is_invalid_kind

//@@ parse_chunk

} // verus!
fn main() {}
