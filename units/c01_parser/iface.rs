// ---- interface of unit c01_parser (C01/L2): data-level spec vocabulary (token ranges, eaten ranges, emits, tokens_ok).
// Included by units/c01_parser/template.rs and by units/c01_compose/template.rs (same text, no copies).
/// exclusive end of a range, as a mathematical integer (no overflow in specifications)
pub open spec fn rend(r: SourceRange) -> int { r.start_offset as int + r.length as int }

/// the ranges of the `EatToken` events, in order: what the tree builders will turn into leaves
pub open spec fn eaten(ev: Seq<MarkEvent>) -> Seq<SourceRange>
    decreases ev.len()
{
    if ev.len() == 0 {
        Seq::<SourceRange>::empty()
    } else {
        let r = eaten(ev.drop_last());
        match ev.last() {
            MarkEvent::EatToken { kind: _, range } => r.push(range),
            _ => r,
        }
    }
}

pub open spec fn ranges(t: Seq<LuaTokenData>) -> Seq<SourceRange> {
    Seq::new(t.len(), |i: int| t[i].range)
}

/// the variant set of `is_trivia_kind`, spelled out
pub open spec fn sp_trivia(k: LuaTokenKind) -> bool {
    k is TkShortComment || k is TkLongComment || k is TkEndOfLine || k is TkWhitespace || k is TkShebang
}

/// the variant set of `is_invalid_kind`, spelled out
pub open spec fn sp_invalid(k: LuaTokenKind) -> bool {
    k is None || k is TkEof || k is TkWhitespace || k is TkShebang || k is TkEndOfLine || k is TkShortComment
        || k is TkLongComment
}

pub open spec fn sp_comment(k: LuaTokenKind) -> bool { k is TkShortComment || k is TkLongComment }

/// consecutive ranges touch
pub open spec fn adjacent(t: Seq<SourceRange>) -> bool {
    forall|i: int| #![trigger t[i]] 0 <= i < t.len() - 1 ==> rend(t[i]) == t[i + 1].start_offset
}

/// `d` tiles the byte interval [a, b): contiguous, starts at a, ends at b (empty iff a == b when d is empty)
pub open spec fn chain(d: Seq<SourceRange>, a: int, b: int) -> bool {
    if d.len() == 0 { a == b } else { d[0].start_offset == a && rend(d.last()) == b && adjacent(d) }
}

/// `d` tiles exactly the byte span covered by the (adjacent) token ranges `t`
pub open spec fn chain_over(d: Seq<SourceRange>, t: Seq<SourceRange>) -> bool {
    if t.len() == 0 { d.len() == 0 } else { chain(d, t[0].start_offset as int, rend(t.last())) }
}

/// the emitted ranges `d` account for the token ranges `t`:
/// * without EmmyLua doc support: token by token, exactly once, in order  (d == t);
/// * with doc support, comment groups are re-lexed by the doc parser, so the emitted ranges are a
///   re-tokenisation: they tile exactly the bytes of `t`, in order.
#[verifier::opaque]
pub open spec fn emits(d: Seq<SourceRange>, t: Seq<SourceRange>, doc: bool) -> bool {
    if doc { chain_over(d, t) } else { d == t }
}

/// `a` is a prefix of `b`
pub open spec fn grows(a: Seq<SourceRange>, b: Seq<SourceRange>) -> bool {
    a.len() <= b.len() && b.take(a.len() as int) == a
}

/// what link L1 (unit c01_reader, `LuaLexer::tokenize`) establishes about the token stream
pub open spec fn tokens_ok(t: Seq<LuaTokenData>) -> bool {
    &&& t.len() < 0x7fff_ffff
    &&& adjacent(ranges(t))
    &&& (t.len() > 0 ==> t[0].range.start_offset == 0)
    &&& forall|i: int| 0 <= i < t.len() ==> (#[trigger] t[i]).range.length > 0 && !(t[i].kind is None) && !(t[i].kind is TkEof)
}

/// byte offset where token `k` starts (end of the text for k == len)
pub open spec fn start_of(t: Seq<LuaTokenData>, k: int) -> int {
    if 0 <= k < t.len() { t[k].range.start_offset as int } else if t.len() == 0 { 0 } else { rend(t.last().range) }
}

pub open spec fn cur_kind(t: Seq<LuaTokenData>, i: int) -> LuaTokenKind {
    if 0 <= i < t.len() { t[i].kind } else { LuaTokenKind::TkEof }
}

/// events only grow and an existing `NodeStart` stays a `NodeStart` (what a live `Marker` relies on)
pub open spec fn ev_mono(a: Seq<MarkEvent>, b: Seq<MarkEvent>) -> bool {
    a.len() <= b.len() && forall|i: int| 0 <= i < a.len() && (#[trigger] a[i]) is NodeStart ==> b[i] is NodeStart
}

/// same length, position `pos` is (still) a `NodeStart`, every other event untouched
pub open spec fn alters_start(a: Seq<MarkEvent>, b: Seq<MarkEvent>, pos: int) -> bool {
    &&& a.len() == b.len()
    &&& 0 <= pos < a.len()
    &&& a[pos] is NodeStart
    &&& b[pos] is NodeStart
    &&& forall|i: int| 0 <= i < a.len() && i != pos ==> #[trigger] b[i] == a[i]
}

pub open spec fn ns_kind(e: MarkEvent) -> LuaSyntaxKind {
    match e { MarkEvent::NodeStart { kind, parent: _ } => kind, _ => LuaSyntaxKind::None }
}

pub open spec fn ns_parent(e: MarkEvent) -> usize {
    match e { MarkEvent::NodeStart { kind: _, parent } => parent, _ => 0 }
}