// ---------------------------------------------------------------------------------------------
// spec vocabulary of C01/L2 (from the property statement) and lemmas (all bodies verified)
// ---------------------------------------------------------------------------------------------

/// everything of a marker-event container that the marker API must not touch
pub ghost struct Rest {
    pub tokens: Seq<LuaTokenData>,
    pub token_index: usize,
    pub current_token: LuaTokenKind,
    pub doc: bool,
}

pub open spec fn doc_mode(p: &LuaParser) -> bool { sp_support_doc(&p.parse_config) }

pub open spec fn lvl_ok(p: &LuaParser) -> bool { p.mark_level <= p.events@.len() }

/// frame of the driver functions: token stream, position and configuration untouched
pub open spec fn same_cursor(a: &LuaParser, b: &LuaParser) -> bool {
    &&& a.tokens@ == b.tokens@
    &&& a.token_index == b.token_index
    &&& a.current_token == b.current_token
    &&& a.parse_config == b.parse_config
}

/// Struct invariant of the parser driver (C01/L2): everything before the current token has been
/// emitted exactly once and in order, nothing after it; `current_token` mirrors the token stream.
pub open spec fn inv(p: &LuaParser) -> bool {
    &&& tokens_ok(p.tokens@)
    &&& p.token_index <= p.tokens@.len()
    &&& p.current_token == cur_kind(p.tokens@, p.token_index as int)
    &&& emits(eaten(p.events@), ranges(p.tokens@).take(p.token_index as int), doc_mode(p))
    &&& lvl_ok(p)
}

// ---- eaten ---------------------------------------------------------------------------------

pub broadcast proof fn lemma_eaten_push(ev: Seq<MarkEvent>, e: MarkEvent)
    ensures
        #[trigger] eaten(ev.push(e)) == (match e {
            MarkEvent::EatToken { kind: _, range } => eaten(ev).push(range),
            _ => eaten(ev),
        }),
{
    assert(ev.push(e).drop_last() == ev);
    assert(ev.push(e).last() == e);
}

/// events that differ only in non-`EatToken` positions have the same `eaten`
pub proof fn lemma_eaten_same(a: Seq<MarkEvent>, b: Seq<MarkEvent>)
    requires
        a.len() == b.len(),
        forall|i: int| 0 <= i < a.len() && (a[i] is EatToken || b[i] is EatToken) ==> a[i] == b[i],
    ensures
        eaten(a) == eaten(b),
    decreases a.len(),
{
    if a.len() > 0 {
        lemma_eaten_same(a.drop_last(), b.drop_last());
    }
}

pub proof fn lemma_alters_frame(a: Seq<MarkEvent>, b: Seq<MarkEvent>, pos: int)
    requires
        alters_start(a, b, pos),
    ensures
        eaten(a) == eaten(b),
        ev_mono(a, b),
{
    lemma_eaten_same(a, b);
}

pub proof fn lemma_mono_trans(a: Seq<MarkEvent>, b: Seq<MarkEvent>, c: Seq<MarkEvent>)
    requires
        ev_mono(a, b),
        ev_mono(b, c),
    ensures
        ev_mono(a, c),
{
}

// ---- ranges / adjacency --------------------------------------------------------------------

pub proof fn lemma_ranges_subrange(t: Seq<LuaTokenData>, j: int, e: int)
    requires
        0 <= j <= e <= t.len(),
    ensures
        ranges(t.subrange(j, e)) == ranges(t).subrange(j, e),
{
}

pub proof fn lemma_adjacent_subrange(r: Seq<SourceRange>, j: int, e: int)
    requires
        adjacent(r),
        0 <= j <= e <= r.len(),
    ensures
        adjacent(r.subrange(j, e)),
{
    let s = r.subrange(j, e);
    assert forall|i: int| #![trigger s[i]] 0 <= i < s.len() - 1 implies rend(s[i]) == s[i + 1].start_offset by {
        assert(s[i] == r[j + i]);
        assert(s[i + 1] == r[j + i + 1]);
    }
}

// ---- emits ---------------------------------------------------------------------------------

pub proof fn lemma_chain_cat(d1: Seq<SourceRange>, d2: Seq<SourceRange>, a: int, m: int, b: int)
    requires
        chain(d1, a, m),
        chain(d2, m, b),
    ensures
        chain(d1 + d2, a, b),
{
    let d = d1 + d2;
    if d1.len() == 0 {
        assert(d == d2);
    } else if d2.len() == 0 {
        assert(d == d1);
    } else {
        assert(d[0] == d1[0]);
        assert(d.last() == d2.last());
        assert forall|i: int| #![trigger d[i]] 0 <= i < d.len() - 1 implies rend(d[i]) == d[i + 1].start_offset by {
            if i < d1.len() - 1 {
                assert(d[i] == d1[i]);
                assert(d[i + 1] == d1[i + 1]);
            } else if i == d1.len() - 1 {
                assert(d[i] == d1.last());
                assert(d[i + 1] == d2[0]);
            } else {
                assert(d[i] == d2[i - d1.len()]);
                assert(d[i + 1] == d2[i - d1.len() + 1]);
            }
        }
    }
}

/// emitting `t1` and then `t2` emits `t1 + t2`
pub proof fn lemma_emits_cat(d1: Seq<SourceRange>, t1: Seq<SourceRange>, d2: Seq<SourceRange>, t2: Seq<SourceRange>, doc: bool)
    requires
        emits(d1, t1, doc),
        emits(d2, t2, doc),
        adjacent(t1 + t2),
    ensures
        emits(d1 + d2, t1 + t2, doc),
{
    reveal(emits);
    let t = t1 + t2;
    if doc {
        if t1.len() == 0 {
            assert(d1 + d2 == d2);
            assert(t == t2);
        } else if t2.len() == 0 {
            assert(d1 + d2 == d1);
            assert(t == t1);
        } else {
            assert(t[0] == t1[0]);
            assert(t.last() == t2.last());
            assert(t[t1.len() - 1] == t1.last());
            assert(t[t1.len() - 1 + 1] == t2[0]);
            lemma_chain_cat(d1, d2, t1[0].start_offset as int, rend(t1.last()), rend(t2.last()));
        }
    }
}

/// adjacent token ranges emit themselves (in either mode)
pub proof fn lemma_emits_self(t: Seq<SourceRange>, doc: bool)
    requires
        adjacent(t),
    ensures
        emits(t, t, doc),
{
    reveal(emits);
}

pub proof fn lemma_emits_nil(d: Seq<SourceRange>, t: Seq<SourceRange>, doc: bool)
    requires
        d.len() == 0,
        t.len() == 0,
    ensures
        emits(d, t, doc),
{
    reveal(emits);
    assert(d =~= t);
}

/// one more token emitted directly
pub proof fn lemma_emits_push_one(e: Seq<SourceRange>, r: Seq<SourceRange>, j: int, doc: bool)
    requires
        adjacent(r),
        0 <= j < r.len(),
        emits(e, r.take(j), doc),
    ensures
        emits(e.push(r[j]), r.take(j + 1), doc),
{
    let one = seq![r[j]];
    assert(adjacent(one));
    lemma_emits_self(one, doc);
    assert(r.take(j) + one == r.take(j + 1));
    lemma_adjacent_subrange(r, 0, j + 1);
    lemma_emits_cat(e, r.take(j), one, one, doc);
    assert(e + one == e.push(r[j]));
}

/// a slice handed to `parse_comments` / the doc parser
pub proof fn lemma_emits_append(e0: Seq<SourceRange>, e1: Seq<SourceRange>, r: Seq<SourceRange>, j: int, e: int, doc: bool)
    requires
        adjacent(r),
        0 <= j <= e <= r.len(),
        emits(e0, r.take(j), doc),
        grows(e0, e1),
        emits(e1.skip(e0.len() as int), r.subrange(j, e), doc),
    ensures
        emits(e1, r.take(e), doc),
{
    assert(r.take(j) + r.subrange(j, e) == r.take(e));
    lemma_adjacent_subrange(r, 0, e);
    lemma_emits_cat(e0, r.take(j), e1.skip(e0.len() as int), r.subrange(j, e), doc);
    assert(e1.take(e0.len() as int) + e1.skip(e0.len() as int) == e1);
}

pub proof fn lemma_grows_refl(a: Seq<SourceRange>)
    ensures
        grows(a, a),
        a.skip(a.len() as int) == Seq::<SourceRange>::empty(),
{
    assert(a.take(a.len() as int) == a);
}

pub proof fn lemma_grows_push(a: Seq<SourceRange>, b: Seq<SourceRange>, x: SourceRange)
    requires
        grows(a, b),
    ensures
        grows(a, b.push(x)),
        b.push(x).skip(a.len() as int) == b.skip(a.len() as int).push(x),
{
    assert(b.push(x).take(a.len() as int) == b.take(a.len() as int));
}

pub proof fn lemma_grows_trans(a: Seq<SourceRange>, b: Seq<SourceRange>, c: Seq<SourceRange>)
    requires
        grows(a, b),
        grows(b, c),
    ensures
        grows(a, c),
        c.skip(a.len() as int) == b.skip(a.len() as int) + c.skip(b.len() as int),
{
    assert(c.take(a.len() as int) == c.take(b.len() as int).take(a.len() as int));
}

/// Inv at any position implies the DESIGN-level statement: the emitted ranges tile [0, start of the
/// current token) — the form in which link L3 (tree builders) consumes L2.
pub proof fn lemma_inv_tiles(p: &LuaParser)
    requires
        inv(p),
    ensures
        chain(eaten(p.events@), 0, start_of(p.tokens@, p.token_index as int)),
{
    reveal(emits);
    let t = p.tokens@;
    let r = ranges(t);
    let k = p.token_index as int;
    let pre = r.take(k);
    lemma_adjacent_subrange(r, 0, k);
    if k > 0 {
        assert(pre[0] == r[0]);
        assert(pre.last() == r[k - 1]);
        if k < t.len() {
            assert(rend(r[k - 1]) == r[k - 1 + 1].start_offset);
        } else {
            assert(r[k - 1] == t.last().range);
        }
        if !doc_mode(p) {
            assert(eaten(p.events@) == pre);
        }
    } else {
        assert(pre.len() == 0);
        assert(eaten(p.events@).len() == 0);
    }
}
