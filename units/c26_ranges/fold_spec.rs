// ---- folding ranges: "folding ranges have start <= end" ---------------------------------------------------------
/// LSP 3.17 FoldingRange: startLine <= endLine ("the zero-based start line … the zero-based end line of the range to
/// fold"); when both lie on the same line and both characters are given, startCharacter <= endCharacter.
pub open spec fn fold_ok(f: FoldingRange) -> bool {
    &&& f.start_line <= f.end_line
    &&& (f.start_line == f.end_line ==> match (f.start_character, f.end_character) { (Some(a), Some(b)) => a <= b, _ => true })
}
pub open spec fn folds_ok(s: Seq<FoldingRange>) -> bool {
    forall|i: int| 0 <= i < s.len() ==> fold_ok(#[trigger] s[i])
}
pub open spec fn regions_ok(doc: &LuaDocument, s: Seq<TextRange>) -> bool {
    forall|i: int| 0 <= i < s.len() ==> range_in_doc(doc, #[trigger] s[i])
}
/// builder invariant: every folding range held is ordered; every open `--region` comment range is a range of the document
pub open spec fn fb_inv(b: &FoldingRangeBuilder) -> bool {
    sp_doc_ok(b.document) && folds_ok(b.folding_ranges@) && regions_ok(b.document, b.region_starts@)
}
pub open spec fn fb_frame(a: &FoldingRangeBuilder, b: &FoldingRangeBuilder) -> bool {
    a.document == b.document && a.client_id == b.client_id && a.root == b.root
}
/// the builder's root chunk is the tree parsed from the builder's document
pub open spec fn fb_tree(b: &FoldingRangeBuilder) -> bool { sp_tree(b.root) == sp_doc_id(b.document) }

/// projection of emmylua_code_analysis::Emmyrc to the one field `build_imports_fold_range` reads
pub struct EmmyrcRuntime { pub require_like_function: Vec<String> }
pub struct Emmyrc { pub runtime: EmmyrcRuntime }
/// fold_range/imports.rs `is_require_stat` (AST pattern matching on names of called functions): shimmed callee, NO
/// contract — the folding-range property must hold whatever it answers. (Signature: `&[String]` taken as `&Vec<String>`.)
#[verifier::external_body]
pub fn is_require_stat(stat: LuaStat, require_like_func: &Vec<String>) -> (r: Option<bool>) { unimplemented!() }
