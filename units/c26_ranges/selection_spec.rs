// ---- selection ranges: "selection ranges strictly grow outward" ---------------------------------------------------
pub type LuaDocDescription = Syn;
/// is this node a LuaDocDescription (kind == LuaSyntaxKind::DocDescription)
pub open spec fn sp_is_desc(n: Syn) -> bool { sp_kind(n) == sp_desc_kind() }
pub uninterp spec fn sp_desc_kind() -> LuaKind;
impl Syn {
    /// LuaAstNode::cast for LuaDocDescription (emmylua_parser/src/syntax/node/doc/description.rs:31-40): the node itself
    /// when its kind is DocDescription
    #[verifier::external_body]
    pub fn cast(syntax: LuaSyntaxNode) -> (r: Option<Syn>)
        ensures r == (if sp_is_desc(syntax) { Some(syntax) } else { None::<Syn> }),
    { unimplemented!() }
}
/// the token sits directly inside a doc description (the handler then asks the markdown/rst description parser for
/// the detail ranges around the cursor instead of starting the chain with the token)
pub open spec fn in_description(token: Syn) -> bool {
    sp_parent(token) matches Some(p) && sp_is_desc(p)
}

/// emmylua_code_analysis::SemanticModel, opaque; sp_model_doc = identity of its document (cf. sp_doc_id)
#[verifier::external_body]
pub struct SemanticModel<'a> { _p: core::marker::PhantomData<&'a ()> }
pub uninterp spec fn sp_model_doc(m: &SemanticModel) -> int;
/// document_selection_range/mod.rs `add_detail_ranges` (runs the description parser `parse_desc`, sorts the items by
/// length, keeps those containing the offset): shimmed callee. ASSUMED: it only appends, and what it appends are
/// ranges of the model's document. NOTHING is assumed about their nesting (not covered).
#[verifier::external_body]
pub fn add_detail_ranges(semantic_model: &SemanticModel, description: LuaDocDescription, offset: TextSize, result: &mut Vec<TextRange>)
    ensures
        old(result)@.is_prefix_of(final(result)@),
        forall|d: &LuaDocument, i: int| #![trigger range_in_doc(d, final(result)@[i])]
            sp_doc_id(d) == sp_model_doc(semantic_model) && old(result)@.len() <= i < final(result)@.len()
            ==> range_in_doc(d, final(result)@[i]),
{ unimplemented!() }

/// the chain a SelectionRange stands for, innermost first: its own range, then its parent's chain
pub open spec fn sel_ranges(s: SelectionRange) -> Seq<lsp_types::Range>
    decreases s
{
    match s.parent { None => seq![s.range], Some(p) => seq![s.range] + sel_ranges(*p) }
}
pub open spec fn lsp_seq(doc: &LuaDocument, rs: Seq<TextRange>) -> Seq<lsp_types::Range> {
    Seq::new(rs.len(), |i: int| doc_lsp_range(doc, rs[i]))
}
/// LSP 3.17 SelectionRange.parent: "The parent selection range containing this range. Therefore `parent.range` must
/// contain `this.range`." — from link k on
#[verifier::opaque]
pub open spec fn growing_from(s: Seq<lsp_types::Range>, k: int) -> bool {
    forall|i: int| 0 <= k <= i && i + 1 < s.len() ==> lsp_inside(#[trigger] s[i], s[i + 1])
}
/// property C26 as stated: "selection ranges STRICTLY grow outward": every parent contains its child AND differs from
/// it — from link k on
#[verifier::opaque]
pub open spec fn strictly_growing_from(s: Seq<lsp_types::Range>, k: int) -> bool {
    forall|i: int| 0 <= k <= i && i + 1 < s.len() ==> lsp_inside(#[trigger] s[i], s[i + 1]) && s[i] != s[i + 1]
}

// ---- the ancestry characterisation (what the chain IS) ------------------------------------------------------------
/// range of the n-th ancestor of the token (0: the token itself); meaningful for n <= sp_depth(token)
pub open spec fn anc_range(token: Syn, n: nat) -> TextRange { sp_range(nth_parent(token, n)->Some_0) }
/// … as the LSP range the handler returns for it
pub open spec fn anc_lsp(doc: &LuaDocument, token: Syn, n: nat) -> lsp_types::Range { doc_lsp_range(doc, anc_range(token, n)) }
/// idx[i] is the ancestor number of chain element i: an existing ancestor between `lo` and the outermost one, whose
/// range element i is; the numbers STRICTLY increase along the chain (ancestor order, no ancestor used twice)
pub open spec fn lsp_picks(doc: &LuaDocument, token: Syn, ch: Seq<lsp_types::Range>, idx: Seq<nat>, lo: nat) -> bool {
    &&& idx.len() == ch.len()
    &&& forall|i: int| 0 <= i < ch.len() ==> lo <= #[trigger] idx[i] <= sp_depth(token) && nth_parent(token, idx[i]) is Some
            && ch[i] == anc_lsp(doc, token, idx[i])
    &&& forall|i: int, j: int| 0 <= i < j < ch.len() ==> #[trigger] idx[i] < #[trigger] idx[j]
}
/// the chain `ch` is the ancestry of the token from ancestor number `lo` outward (lo = 0: from the token itself), with
/// ancestors that span the same text as the entry before them left out:
///   * it starts with the range of ancestor `lo` and ends with the range of the outermost ancestor (the root);
///   * every element is the range of an ancestor, in ancestor order (strictly increasing ancestor number);
///   * no ancestor's range is missing: the range of every ancestor lo..=depth equals some element.
#[verifier::opaque]
pub open spec fn is_ancestry(doc: &LuaDocument, token: Syn, ch: Seq<lsp_types::Range>, lo: nat) -> bool {
    &&& 1 <= ch.len() <= sp_depth(token) + 1 - lo
    &&& ch[0] == anc_lsp(doc, token, lo)
    &&& ch.last() == anc_lsp(doc, token, sp_depth(token))
    &&& exists|idx: Seq<nat>| #[trigger] lsp_picks(doc, token, ch, idx, lo)
    &&& forall|m: nat| lo <= m <= sp_depth(token) ==> ch.contains(#[trigger] anc_lsp(doc, token, m))
}
/// inside a doc description: the chain is some description detail ranges (NOT covered) followed, from position p on, by
/// the ancestry of the token from its parent (the description node) outward; from p on it grows strictly
pub open spec fn desc_tail_ok(doc: &LuaDocument, token: Syn, ch: Seq<lsp_types::Range>, p: int) -> bool {
    &&& 0 <= p < ch.len()
    &&& is_ancestry(doc, token, ch.subrange(p, ch.len() as int), 1)
    &&& strictly_growing_from(ch, p)
}

// ---- the same on the text ranges the ancestor loop collects --------------------------------------------------------
/// first ancestor number the loop accounts for: the token itself outside a description, its parent inside one
pub open spec fn sel_lo(token: Syn) -> nat { if in_description(token) { 1 } else { 0 } }
pub open spec fn all_in_doc(doc: &LuaDocument, rs: Seq<TextRange>) -> bool {
    forall|i: int| 0 <= i < rs.len() ==> range_in_doc(doc, #[trigger] rs[i])
}
/// each range contained in the next — from link p on
pub open spec fn off_inside_from(rs: Seq<TextRange>, p: int) -> bool {
    forall|i: int| 0 <= p <= i && i + 1 < rs.len() ==> off_inside(#[trigger] rs[i], rs[i + 1])
}
/// each range different from the next — from link p on
pub open spec fn off_differ_from(rs: Seq<TextRange>, p: int) -> bool {
    forall|i: int| 0 <= p <= i && i + 1 < rs.len() ==> #[trigger] rs[i] != rs[i + 1]
}
pub open spec fn tail_has(rs: Seq<TextRange>, p: int, x: TextRange) -> bool {
    exists|i: int| p <= i < rs.len() && #[trigger] rs[i] == x
}
/// after the ancestors lo..=n were visited: rs[p..] are ranges of ancestors lo..=n in ancestor order (idx = their
/// numbers), starting with ancestor lo, ending with (the range of) ancestor n, none missing
pub open spec fn off_picks(token: Syn, rs: Seq<TextRange>, p: int, idx: Seq<nat>, lo: nat, n: nat) -> bool {
    &&& 0 <= p < rs.len() && idx.len() == rs.len() - p && idx.len() <= n + 1 - lo
    &&& forall|i: int| 0 <= i < idx.len() ==> lo <= #[trigger] idx[i] <= n && nth_parent(token, idx[i]) is Some
            && rs[p + i] == anc_range(token, idx[i])
    &&& forall|i: int, j: int| 0 <= i < j < idx.len() ==> #[trigger] idx[i] < #[trigger] idx[j]
    &&& idx[0] == lo
    &&& rs.last() == anc_range(token, n)
    &&& forall|m: nat| lo <= m <= n ==> tail_has(rs, p, #[trigger] anc_range(token, m))
}
/// invariant of the ancestor loop after n ancestors (ghost state: p = where the ancestry starts in `rs`, idx = the
/// ancestor numbers of rs[p..]); kept opaque in the loop, unfolded in the lemmas below
#[verifier::opaque]
pub open spec fn sel_anc_inv(token: Syn, rs: Seq<TextRange>, p: int, idx: Seq<nat>, n: nat) -> bool {
    n >= sel_lo(token) ==> off_picks(token, rs, p, idx, sel_lo(token), n)
}
/// what one round of the ancestor loop does to the ghost state (ranges, p, idx) when it visits ancestor number n + 1
/// whose range is r: the range is appended unless it equals the last entry; the first ancestor inside a description
/// becomes the start of the ancestry
pub open spec fn anc_step(token: Syn, r: TextRange, rs: Seq<TextRange>, p: int, idx: Seq<nat>, n: nat) -> (Seq<TextRange>, int, Seq<nat>) {
    let skip = rs.len() > 0 && rs.last() == r;
    let rs2 = if skip { rs } else { rs.push(r) };
    if n + 1 == sel_lo(token) { (rs2, rs2.len() - 1, seq![(n + 1) as nat]) }
    else if skip { (rs2, p, idx) }
    else { (rs2, p, idx.push((n + 1) as nat)) }
}

/// along the ancestor chain of e: every ancestor is in e's tree and contains its predecessor
pub proof fn lemma_chain(e: Syn, v: Seq<Syn>, k: int)
    requires ancestor_chain(e, v), 0 <= k < v.len(),
    ensures
        sp_tree(v[k]) == sp_tree(e),
        off_inside(sp_range(if k == 0 { e } else { v[k - 1] }), sp_range(v[k])),
        nth_parent(e, (k + 1) as nat) == Some(v[k]),
    decreases k
{
    let prev = if k == 0 { e } else { v[k - 1] };
    assert(nth_parent(e, 0) == Some(e));
    assert(nth_parent(e, k as nat) == Some(prev));
    assert(nth_parent(e, (k + 1) as nat) == Some(v[k]));
    assert(sp_parent(prev) == Some(v[k]));
    axiom_parent_contains(prev);
    if k > 0 { lemma_chain(e, v, k - 1); }
}
/// monotone positions: containment of text ranges carries over to their LSP ranges
pub proof fn lemma_inside_lsp(doc: &LuaDocument, a: TextRange, b: TextRange)
    requires sp_doc_ok(doc), range_in_doc(doc, a), range_in_doc(doc, b), off_inside(a, b),
    ensures lsp_inside(doc_lsp_range(doc, a), doc_lsp_range(doc, b)),
{
    axiom_line_col_monotonic(doc, b.start, a.start);
    axiom_line_col_monotonic(doc, a.end, b.end);
}
/// injective positions: ranges of the document with the same LSP range are the same text range (the handler compares
/// TEXT ranges before it pushes; the property speaks about the LSP ranges it returns)
pub proof fn lemma_lsp_injective(doc: &LuaDocument, a: TextRange, b: TextRange)
    requires sp_doc_ok(doc), range_in_doc(doc, a), range_in_doc(doc, b), doc_lsp_range(doc, a) == doc_lsp_range(doc, b),
    ensures a == b,
{
    // line, col < 2^32 - 1: the `as u32` of the LSP position loses nothing
    axiom_line_col_monotonic(doc, a.start, a.end);
    axiom_line_col_monotonic(doc, b.start, b.end);
    assert(doc_lsp_pos(doc, a.start) == doc_lsp_pos(doc, b.start));
    assert(doc_lsp_pos(doc, a.end) == doc_lsp_pos(doc, b.end));
    assert(sp_pos(doc, a.start).0 == sp_pos(doc, b.start).0 && sp_pos(doc, a.start).1 == sp_pos(doc, b.start).1);
    assert(sp_pos(doc, a.end).0 == sp_pos(doc, b.end).0 && sp_pos(doc, a.end).1 == sp_pos(doc, b.end).1);
    axiom_line_col_injective(doc, a.start, b.start);
    axiom_line_col_injective(doc, a.end, b.end);
}
/// one step of the outermost-first construction: wrapping the chain of rs[n-j..n) into a SelectionRange for rs[n-j-1]
/// gives the chain of rs[n-j-1..n)
pub proof fn lemma_sel_step(doc: &LuaDocument, rs: Seq<TextRange>, j: int, oldp: Option<Box<SelectionRange>>, newp: SelectionRange)
    requires
        0 <= j < rs.len(),
        newp.range == doc_lsp_range(doc, rs[rs.len() - 1 - j]), newp.parent == oldp,
        (j == 0) == (oldp is None),
        oldp matches Some(p) ==> sel_ranges(*p) == lsp_seq(doc, rs.subrange(rs.len() - j, rs.len() as int)),
    ensures
        sel_ranges(newp) == lsp_seq(doc, rs.subrange(rs.len() - j - 1, rs.len() as int)),
{
    let n = rs.len() as int;
    let now = lsp_seq(doc, rs.subrange(n - j - 1, n));
    let before = lsp_seq(doc, rs.subrange(n - j, n));
    match oldp {
        None => { assert(sel_ranges(newp) =~= now); }
        Some(p) => {
            assert(seq![newp.range] + before =~= now);
        }
    }
}

/// the ghost state in front of the ancestor loop: outside a description the chain is the token's range, the ancestry
/// starts at position 0 with ancestor number 0
pub proof fn lemma_anc_init(token: Syn, rs: Seq<TextRange>)
    requires !in_description(token) ==> rs =~= seq![sp_range(token)],
    ensures
        sel_anc_inv(token, rs, if in_description(token) { rs.len() as int } else { 0 }, seq![0nat], 0),
        off_inside_from(rs, if in_description(token) { rs.len() as int } else { 0 }),
        off_differ_from(rs, if in_description(token) { rs.len() as int } else { 0 }),
{
    reveal(sel_anc_inv);
    assert(nth_parent(token, 0) == Some(token));
    if !in_description(token) {
        let idx = seq![0nat];
        assert(rs[0] == anc_range(token, 0));
        assert(tail_has(rs, 0, anc_range(token, 0)));
        assert(off_picks(token, rs, 0, idx, 0, 0));
    }
}
/// a round that appends nothing (the ancestor spans the same text as the last entry): the last entry now also stands
/// for ancestor n + 1
pub proof fn lemma_step_skip(token: Syn, rs: Seq<TextRange>, p: int, idx: Seq<nat>, lo: nat, n: nat)
    requires off_picks(token, rs, p, idx, lo, n), rs.last() == anc_range(token, n + 1), nth_parent(token, n + 1) is Some,
    ensures off_picks(token, rs, p, idx, lo, n + 1),
{
    assert forall|m: nat| lo <= m <= n + 1 implies tail_has(rs, p, #[trigger] anc_range(token, m)) by {
        if m == n + 1 { assert(rs[rs.len() - 1] == anc_range(token, m)); }
        else { assert(tail_has(rs, p, anc_range(token, m))); }
    }
}
/// a round that appends the range of ancestor n + 1
pub proof fn lemma_step_push(token: Syn, rs: Seq<TextRange>, p: int, idx: Seq<nat>, lo: nat, n: nat)
    requires off_picks(token, rs, p, idx, lo, n), nth_parent(token, n + 1) is Some,
    ensures off_picks(token, rs.push(anc_range(token, n + 1)), p, idx.push(n + 1), lo, n + 1),
{
    let r = anc_range(token, n + 1);
    let rs2 = rs.push(r);
    let idx2 = idx.push(n + 1);
    assert forall|i: int| 0 <= i < idx2.len() implies lo <= #[trigger] idx2[i] <= n + 1 && nth_parent(token, idx2[i]) is Some
        && rs2[p + i] == anc_range(token, idx2[i]) by {
        if i < idx.len() { assert(idx2[i] == idx[i]); assert(rs2[p + i] == rs[p + i]); }
    }
    assert forall|i: int, j: int| 0 <= i < j < idx2.len() implies #[trigger] idx2[i] < #[trigger] idx2[j] by {
        assert(idx2[i] == idx[i]);
        if j < idx.len() { assert(idx2[j] == idx[j]); }
    }
    assert(idx2[0] == idx[0]);
    assert forall|m: nat| lo <= m <= n + 1 implies tail_has(rs2, p, #[trigger] anc_range(token, m)) by {
        if m == n + 1 { assert(rs2[rs2.len() - 1] == anc_range(token, m)); }
        else {
            assert(tail_has(rs, p, anc_range(token, m)));
            let i = choose|i: int| p <= i < rs.len() && #[trigger] rs[i] == anc_range(token, m);
            assert(rs2[i] == rs[i]);
        }
    }
}
/// appending a range that contains the last entry and differs from it keeps containment and strictness
pub proof fn lemma_step_links(rs: Seq<TextRange>, p: int, r: TextRange)
    requires off_inside_from(rs, p), off_differ_from(rs, p), rs.len() > 0, off_inside(rs.last(), r), rs.last() != r,
    ensures off_inside_from(rs.push(r), p), off_differ_from(rs.push(r), p),
{
    let rs2 = rs.push(r);
    assert forall|i: int| 0 <= p <= i && i + 1 < rs2.len() implies off_inside(#[trigger] rs2[i], rs2[i + 1]) && rs2[i] != rs2[i + 1] by {
        if i + 1 < rs.len() { assert(rs2[i] == rs[i] && rs2[i + 1] == rs[i + 1]); }
        else { assert(rs2[i] == rs.last() && rs2[i + 1] == r); }
    }
}
/// one round of the ancestor loop keeps the three invariants (ancestry, containment, strictness)
pub proof fn lemma_anc_step(doc: &LuaDocument, token: Syn, anc: Seq<Syn>, rs: Seq<TextRange>, p: int, idx: Seq<nat>, n: nat)
    requires
        sp_tree(token) == sp_doc_id(doc), ancestor_chain(token, anc), n < anc.len(),
        0 <= p, !in_description(token) ==> p == 0,
        all_in_doc(doc, rs),
        sel_anc_inv(token, rs, p, idx, n), off_inside_from(rs, p), off_differ_from(rs, p),
    ensures ({
        let st = anc_step(token, sp_range(anc[n as int]), rs, p, idx, n);
        &&& 0 <= st.1 && (!in_description(token) ==> st.1 == 0)
        &&& all_in_doc(doc, st.0)
        &&& sel_anc_inv(token, st.0, st.1, st.2, n + 1)
        &&& off_inside_from(st.0, st.1)
        &&& off_differ_from(st.0, st.1)
    }),
{
    reveal(sel_anc_inv);
    let lo = sel_lo(token);
    let r = sp_range(anc[n as int]);
    let st = anc_step(token, r, rs, p, idx, n);
    let (rs2, p2, idx2) = st;
    let skip = rs.len() > 0 && rs.last() == r;
    lemma_chain(token, anc, n as int);
    axiom_range_in_doc(doc, anc[n as int]);
    assert(nth_parent(token, 0) == Some(token));
    assert(r == anc_range(token, n + 1));
    assert forall|i: int| 0 <= i < rs2.len() implies range_in_doc(doc, #[trigger] rs2[i]) by {
        if i < rs.len() { assert(rs2[i] == rs[i]); }
    }
    if n + 1 == lo {
        // the first ancestor inside a description: the ancestry starts at the last entry (just pushed, or equal to it)
        assert(rs2.last() == r);
        assert(rs2[p2 + 0] == anc_range(token, idx2[0]));
        assert(tail_has(rs2, p2, anc_range(token, n + 1)));
        assert(off_picks(token, rs2, p2, idx2, lo, n + 1));
    } else if skip {
        lemma_step_skip(token, rs, p, idx, lo, n);
    } else {
        // the range just pushed contains the last entry (= the range of ancestor n) and differs from it
        assert(off_picks(token, rs, p, idx, lo, n));
        assert(rs.last() == anc_range(token, n));
        assert(anc_range(token, n) == sp_range(if n == 0 { token } else { anc[n - 1] })) by {
            if n > 0 { assert(nth_parent(token, ((n - 1) + 1) as nat) == Some(anc[n - 1])); }
        }
        lemma_step_push(token, rs, p, idx, lo, n);
        lemma_step_links(rs, p, r);
    }
}
/// the finished ancestor loop: the ancestry starts inside the chain (so the chain is not empty)
pub proof fn lemma_anc_done(token: Syn, rs: Seq<TextRange>, p: int, idx: Seq<nat>)
    requires sel_anc_inv(token, rs, p, idx, sp_depth(token)), sp_depth(token) >= sel_lo(token),
    ensures 0 <= p < rs.len(),
{
    reveal(sel_anc_inv);
}
/// LSP images of a chain of text ranges: from p on parents contain their children (monotone positions) and differ from
/// them (injective positions)
pub proof fn lemma_strict_lsp(doc: &LuaDocument, rs: Seq<TextRange>, p: int)
    requires sp_doc_ok(doc), all_in_doc(doc, rs), off_inside_from(rs, p), off_differ_from(rs, p),
    ensures growing_from(lsp_seq(doc, rs), p), strictly_growing_from(lsp_seq(doc, rs), p),
{
    reveal(growing_from);
    reveal(strictly_growing_from);
    let ch = lsp_seq(doc, rs);
    assert forall|i: int| 0 <= p <= i && i + 1 < ch.len() implies lsp_inside(#[trigger] ch[i], ch[i + 1]) && ch[i] != ch[i + 1] by {
        assert(range_in_doc(doc, rs[i]) && range_in_doc(doc, rs[i + 1]));
        assert(off_inside(rs[i], rs[i + 1]) && rs[i] != rs[i + 1]);
        lemma_inside_lsp(doc, rs[i], rs[i + 1]);
        if ch[i] == ch[i + 1] { lemma_lsp_injective(doc, rs[i], rs[i + 1]); }
    }
}
/// LSP images of the collected ancestry: the ancestry of the token as the property states it
pub proof fn lemma_ancestry_lsp(doc: &LuaDocument, token: Syn, rs: Seq<TextRange>, p: int, idx: Seq<nat>, lo: nat, tail: Seq<lsp_types::Range>)
    requires
        off_picks(token, rs, p, idx, lo, sp_depth(token)),
        tail.len() == rs.len() - p,
        forall|i: int| 0 <= i < tail.len() ==> #[trigger] tail[i] == doc_lsp_range(doc, rs[p + i]),
    ensures is_ancestry(doc, token, tail, lo),
{
    reveal(is_ancestry);
    let d = sp_depth(token);
    assert forall|i: int| 0 <= i < tail.len() implies lo <= #[trigger] idx[i] <= d && nth_parent(token, idx[i]) is Some
        && tail[i] == anc_lsp(doc, token, idx[i]) by {
        assert(rs[p + i] == anc_range(token, idx[i]));
        assert(tail[i] == doc_lsp_range(doc, rs[p + i]));
    }
    assert(lsp_picks(doc, token, tail, idx, lo));
    assert(tail[0] == anc_lsp(doc, token, lo)) by { assert(rs[p + 0] == anc_range(token, idx[0])); }
    assert(tail.last() == anc_lsp(doc, token, d)) by {
        assert(tail[tail.len() - 1] == doc_lsp_range(doc, rs[p + (tail.len() - 1)]));
    }
    assert forall|m: nat| lo <= m <= d implies tail.contains(#[trigger] anc_lsp(doc, token, m)) by {
        assert(tail_has(rs, p, anc_range(token, m)));
        let i = choose|i: int| p <= i < rs.len() && #[trigger] rs[i] == anc_range(token, m);
        assert(tail[i - p] == doc_lsp_range(doc, rs[p + (i - p)]));
        assert(tail[i - p] == anc_lsp(doc, token, m));
    }
}
/// the finished chain: LSP images of the text-range chain. From p on: the ancestry of the token, strictly growing
pub proof fn lemma_sel_done(doc: &LuaDocument, token: Syn, rs: Seq<TextRange>, p: int, idx: Seq<nat>, ch: Seq<lsp_types::Range>)
    requires
        sp_doc_ok(doc), all_in_doc(doc, rs), sp_depth(token) >= sel_lo(token),
        sel_anc_inv(token, rs, p, idx, sp_depth(token)), off_inside_from(rs, p), off_differ_from(rs, p),
        ch == lsp_seq(doc, rs.subrange(0, rs.len() as int)),
    ensures
        ch.len() == rs.len(), 0 <= p < ch.len(),
        growing_from(ch, p),
        strictly_growing_from(ch, p),
        is_ancestry(doc, token, ch.subrange(p, ch.len() as int), sel_lo(token)),
        p == 0 ==> is_ancestry(doc, token, ch, sel_lo(token)),
{
    assert(rs.subrange(0, rs.len() as int) =~= rs);
    lemma_strict_lsp(doc, rs, p);
    lemma_anc_done(token, rs, p, idx);
    assert(off_picks(token, rs, p, idx, sel_lo(token), sp_depth(token))) by { reveal(sel_anc_inv); }
    let tail = ch.subrange(p, ch.len() as int);
    lemma_ancestry_lsp(doc, token, rs, p, idx, sel_lo(token), tail);
    if p == 0 { assert(tail =~= ch); }
}
