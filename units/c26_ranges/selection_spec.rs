// ---- selection ranges: "selection ranges strictly grow outward" ---------------------------------------------------
pub type LuaDocDescription = Syn;
/// is this node a LuaDocDescription (kind == LuaSyntaxKind::DocDescription)
pub open spec fn sp_is_desc(n: Syn) -> bool { sp_kind(n) == sp_desc_kind() }
pub uninterp spec fn sp_desc_kind() -> LuaKind;
impl Syn {
    /// LuaAstNode::cast for LuaDocDescription (emmylua_parser/src/syntax/node/doc/description.rs:31-40): the node itself
    /// when its kind is DocDescription
    #[verifier::external_body]
    pub fn cast(syntax: LuaSyntaxNode) -> (r: Option<Syn>)
        ensures r == (if sp_is_desc(syntax) { Some(syntax) } else { None::<Syn> }),
    { unimplemented!() }
}
/// the token sits directly inside a doc description (the handler then asks the markdown/rst description parser for
/// the detail ranges around the cursor instead of starting the chain with the token)
pub open spec fn in_description(token: Syn) -> bool {
    sp_parent(token) matches Some(p) && sp_is_desc(p)
}

/// emmylua_code_analysis::SemanticModel, opaque; sp_model_doc = identity of its document (cf. sp_doc_id)
#[verifier::external_body]
pub struct SemanticModel<'a> { _p: core::marker::PhantomData<&'a ()> }
pub uninterp spec fn sp_model_doc(m: &SemanticModel) -> int;
/// document_selection_range/mod.rs `add_detail_ranges` (runs the description parser `parse_desc`, sorts the items by
/// length, keeps those containing the offset): shimmed callee. ASSUMED: it only appends, and what it appends are
/// ranges of the model's document. NOTHING is assumed about their nesting (not covered).
#[verifier::external_body]
pub fn add_detail_ranges(semantic_model: &SemanticModel, description: LuaDocDescription, offset: TextSize, result: &mut Vec<TextRange>)
    ensures
        old(result)@.is_prefix_of(final(result)@),
        forall|d: &LuaDocument, i: int| #![trigger range_in_doc(d, final(result)@[i])]
            sp_doc_id(d) == sp_model_doc(semantic_model) && old(result)@.len() <= i < final(result)@.len()
            ==> range_in_doc(d, final(result)@[i]),
{ unimplemented!() }

/// the chain a SelectionRange stands for, innermost first: its own range, then its parent's chain
pub open spec fn sel_ranges(s: SelectionRange) -> Seq<lsp_types::Range>
    decreases s
{
    match s.parent { None => seq![s.range], Some(p) => seq![s.range] + sel_ranges(*p) }
}
pub open spec fn lsp_seq(doc: &LuaDocument, rs: Seq<TextRange>) -> Seq<lsp_types::Range> {
    Seq::new(rs.len(), |i: int| doc_lsp_range(doc, rs[i]))
}
/// LSP 3.17 SelectionRange.parent: "The parent selection range containing this range. Therefore `parent.range` must
/// contain `this.range`." — from link k on
pub open spec fn growing_from(s: Seq<lsp_types::Range>, k: int) -> bool {
    forall|i: int| 0 <= k <= i && i + 1 < s.len() ==> lsp_inside(#[trigger] s[i], s[i + 1])
}
/// property C26 as stated: "selection ranges STRICTLY grow outward"
pub open spec fn strictly_growing_from(s: Seq<lsp_types::Range>, k: int) -> bool {
    forall|i: int| 0 <= k <= i && i + 1 < s.len() ==> lsp_inside(#[trigger] s[i], s[i + 1]) && s[i] != s[i + 1]
}
/// text ranges: each contained in the next, from link k on; all are ranges of the document
pub open spec fn off_growing_from(doc: &LuaDocument, s: Seq<TextRange>, k: int) -> bool {
    &&& forall|i: int| 0 <= i < s.len() ==> range_in_doc(doc, #[trigger] s[i])
    &&& forall|i: int| 0 <= k <= i && i + 1 < s.len() ==> off_inside(#[trigger] s[i], s[i + 1])
}

/// along the ancestor chain of e: every ancestor is in e's tree and contains its predecessor
pub proof fn lemma_chain(e: Syn, v: Seq<Syn>, k: int)
    requires ancestor_chain(e, v), 0 <= k < v.len(),
    ensures
        sp_tree(v[k]) == sp_tree(e),
        off_inside(sp_range(if k == 0 { e } else { v[k - 1] }), sp_range(v[k])),
    decreases k
{
    let prev = if k == 0 { e } else { v[k - 1] };
    assert(sp_parent(prev) == Some(v[k]));
    axiom_parent_contains(prev);
    if k > 0 { lemma_chain(e, v, k - 1); }
}
/// monotone positions: containment of text ranges carries over to their LSP ranges
pub proof fn lemma_inside_lsp(doc: &LuaDocument, a: TextRange, b: TextRange)
    requires sp_doc_ok(doc), range_in_doc(doc, a), range_in_doc(doc, b), off_inside(a, b),
    ensures lsp_inside(doc_lsp_range(doc, a), doc_lsp_range(doc, b)),
{
    axiom_line_col_monotonic(doc, b.start, a.start);
    axiom_line_col_monotonic(doc, a.end, b.end);
}
pub proof fn lemma_growing_lsp(doc: &LuaDocument, s: Seq<TextRange>, k: int)
    requires sp_doc_ok(doc), off_growing_from(doc, s, k),
    ensures growing_from(lsp_seq(doc, s), k),
{
    assert forall|i: int| 0 <= k <= i && i + 1 < s.len() implies lsp_inside(#[trigger] lsp_seq(doc, s)[i], lsp_seq(doc, s)[i + 1]) by {
        lemma_inside_lsp(doc, s[i], s[i + 1]);
    }
}
