// ---- selection ranges: "selection ranges strictly grow outward" ---------------------------------------------------
pub type LuaDocDescription = Syn;
/// is this node a LuaDocDescription (kind == LuaSyntaxKind::DocDescription)
pub open spec fn sp_is_desc(n: Syn) -> bool { sp_kind(n) == sp_desc_kind() }
pub uninterp spec fn sp_desc_kind() -> LuaKind;
impl Syn {
    /// LuaAstNode::cast for LuaDocDescription (emmylua_parser/src/syntax/node/doc/description.rs:31-40): the node itself
    /// when its kind is DocDescription
    #[verifier::external_body]
    pub fn cast(syntax: LuaSyntaxNode) -> (r: Option<Syn>)
        ensures r == (if sp_is_desc(syntax) { Some(syntax) } else { None::<Syn> }),
    { unimplemented!() }
}
/// the token sits directly inside a doc description (the handler then asks the markdown/rst description parser for
/// the detail ranges around the cursor instead of starting the chain with the token)
pub open spec fn in_description(token: Syn) -> bool {
    sp_parent(token) matches Some(p) && sp_is_desc(p)
}

/// emmylua_code_analysis::SemanticModel, opaque; sp_model_doc = identity of its document (cf. sp_doc_id)
#[verifier::external_body]
pub struct SemanticModel<'a> { _p: core::marker::PhantomData<&'a ()> }
pub uninterp spec fn sp_model_doc(m: &SemanticModel) -> int;
/// document_selection_range/mod.rs `add_detail_ranges` (runs the description parser `parse_desc`, sorts the items by
/// length, keeps those containing the offset): shimmed callee. ASSUMED: it only appends, and what it appends are
/// ranges of the model's document. NOTHING is assumed about their nesting (not covered).
#[verifier::external_body]
pub fn add_detail_ranges(semantic_model: &SemanticModel, description: LuaDocDescription, offset: TextSize, result: &mut Vec<TextRange>)
    ensures
        old(result)@.is_prefix_of(final(result)@),
        forall|d: &LuaDocument, i: int| #![trigger range_in_doc(d, final(result)@[i])]
            sp_doc_id(d) == sp_model_doc(semantic_model) && old(result)@.len() <= i < final(result)@.len()
            ==> range_in_doc(d, final(result)@[i]),
{ unimplemented!() }

/// the chain a SelectionRange stands for, innermost first: its own range, then its parent's chain
pub open spec fn sel_ranges(s: SelectionRange) -> Seq<lsp_types::Range>
    decreases s
{
    match s.parent { None => seq![s.range], Some(p) => seq![s.range] + sel_ranges(*p) }
}
pub open spec fn lsp_seq(doc: &LuaDocument, rs: Seq<TextRange>) -> Seq<lsp_types::Range> {
    Seq::new(rs.len(), |i: int| doc_lsp_range(doc, rs[i]))
}
/// LSP 3.17 SelectionRange.parent: "The parent selection range containing this range. Therefore `parent.range` must
/// contain `this.range`." — from link k on
pub open spec fn growing_from(s: Seq<lsp_types::Range>, k: int) -> bool {
    forall|i: int| 0 <= k <= i && i + 1 < s.len() ==> lsp_inside(#[trigger] s[i], s[i + 1])
}
/// property C26 as stated: "selection ranges STRICTLY grow outward"
pub open spec fn strictly_growing_from(s: Seq<lsp_types::Range>, k: int) -> bool {
    forall|i: int| 0 <= k <= i && i + 1 < s.len() ==> lsp_inside(#[trigger] s[i], s[i + 1]) && s[i] != s[i + 1]
}
/// text ranges: each contained in the next, from link k on; all are ranges of the document
pub open spec fn off_growing_from(doc: &LuaDocument, s: Seq<TextRange>, k: int) -> bool {
    &&& forall|i: int| 0 <= i < s.len() ==> range_in_doc(doc, #[trigger] s[i])
    &&& forall|i: int| 0 <= k <= i && i + 1 < s.len() ==> off_inside(#[trigger] s[i], s[i + 1])
}

/// along the ancestor chain of e: every ancestor is in e's tree and contains its predecessor
pub proof fn lemma_chain(e: Syn, v: Seq<Syn>, k: int)
    requires ancestor_chain(e, v), 0 <= k < v.len(),
    ensures
        sp_tree(v[k]) == sp_tree(e),
        off_inside(sp_range(if k == 0 { e } else { v[k - 1] }), sp_range(v[k])),
        nth_parent(e, (k + 1) as nat) == Some(v[k]),
    decreases k
{
    let prev = if k == 0 { e } else { v[k - 1] };
    assert(nth_parent(e, 0) == Some(e));
    assert(nth_parent(e, k as nat) == Some(prev));
    assert(nth_parent(e, (k + 1) as nat) == Some(v[k]));
    assert(sp_parent(prev) == Some(v[k]));
    axiom_parent_contains(prev);
    if k > 0 { lemma_chain(e, v, k - 1); }
}
/// element i of the chain is the range of the i-th ancestor (0: the token itself)
pub open spec fn is_ancestry(doc: &LuaDocument, token: Syn, ch: Seq<lsp_types::Range>) -> bool {
    forall|i: nat| i < ch.len() ==> (#[trigger] nth_parent(token, i) matches Some(a) && ch[i as int] == doc_lsp_range(doc, sp_range(a)))
}
pub open spec fn off_is_ancestry(token: Syn, rs: Seq<TextRange>) -> bool {
    forall|i: nat| i < rs.len() ==> (#[trigger] nth_parent(token, i) matches Some(a) && rs[i as int] == sp_range(a))
}
/// monotone positions: containment of text ranges carries over to their LSP ranges
pub proof fn lemma_inside_lsp(doc: &LuaDocument, a: TextRange, b: TextRange)
    requires sp_doc_ok(doc), range_in_doc(doc, a), range_in_doc(doc, b), off_inside(a, b),
    ensures lsp_inside(doc_lsp_range(doc, a), doc_lsp_range(doc, b)),
{
    axiom_line_col_monotonic(doc, b.start, a.start);
    axiom_line_col_monotonic(doc, a.end, b.end);
}
pub proof fn lemma_growing_lsp(doc: &LuaDocument, s: Seq<TextRange>, k: int)
    requires sp_doc_ok(doc), off_growing_from(doc, s, k),
    ensures growing_from(lsp_seq(doc, s), k),
{
    assert forall|i: int| 0 <= k <= i && i + 1 < s.len() implies lsp_inside(#[trigger] lsp_seq(doc, s)[i], lsp_seq(doc, s)[i + 1]) by {
        lemma_inside_lsp(doc, s[i], s[i + 1]);
    }
}
/// one step of the outermost-first construction: wrapping the chain of rs[n-j..n) into a SelectionRange for rs[n-j-1]
/// gives the chain of rs[n-j-1..n)
pub proof fn lemma_sel_step(doc: &LuaDocument, rs: Seq<TextRange>, j: int, oldp: Option<Box<SelectionRange>>, newp: SelectionRange)
    requires
        0 <= j < rs.len(),
        newp.range == doc_lsp_range(doc, rs[rs.len() - 1 - j]), newp.parent == oldp,
        (j == 0) == (oldp is None),
        oldp matches Some(p) ==> sel_ranges(*p) == lsp_seq(doc, rs.subrange(rs.len() - j, rs.len() as int)),
    ensures
        sel_ranges(newp) == lsp_seq(doc, rs.subrange(rs.len() - j - 1, rs.len() as int)),
{
    let n = rs.len() as int;
    let now = lsp_seq(doc, rs.subrange(n - j - 1, n));
    let before = lsp_seq(doc, rs.subrange(n - j, n));
    match oldp {
        None => { assert(sel_ranges(newp) =~= now); }
        Some(p) => {
            assert(seq![newp.range] + before =~= now);
        }
    }
}
/// the finished chain: LSP images of the text-range chain; growing where the text ranges grow; the ancestry outside
/// descriptions
pub proof fn lemma_sel_done(doc: &LuaDocument, token: Syn, rs: Seq<TextRange>, k: int, ch: Seq<lsp_types::Range>)
    requires
        sp_doc_ok(doc), off_growing_from(doc, rs, k),
        ch == lsp_seq(doc, rs.subrange(0, rs.len() as int)),
    ensures
        ch.len() == rs.len(), growing_from(ch, k),
        off_is_ancestry(token, rs) ==> is_ancestry(doc, token, ch),
{
    assert(rs.subrange(0, rs.len() as int) =~= rs);
    lemma_growing_lsp(doc, rs, k);
    if off_is_ancestry(token, rs) {
        assert forall|i: nat| i < ch.len() implies (#[trigger] nth_parent(token, i) matches Some(a)
            && ch[i as int] == doc_lsp_range(doc, sp_range(a))) by { }
    }
}
/// invariant of the ancestor loop (kept opaque in the loop, unfolded in the three lemmas below): after `idx` ancestors
/// were appended to the `init_len` initial ranges
#[verifier::opaque]
pub open spec fn chain_inv(doc: &LuaDocument, token: Syn, anc: Seq<Syn>, rs: Seq<TextRange>, k: int, idx: int, init_len: int) -> bool {
    &&& rs.len() == init_len + idx
    &&& k == (if in_description(token) { init_len } else { 0 })
    &&& (!in_description(token) ==> init_len == 1 && off_is_ancestry(token, rs))
    &&& (idx > 0 ==> rs.len() > 0 && rs.last() == sp_range(anc[idx - 1]))
    &&& off_growing_from(doc, rs, k)
}
pub proof fn lemma_anc_init(doc: &LuaDocument, token: Syn, anc: Seq<Syn>, rs: Seq<TextRange>)
    requires
        sp_tree(token) == sp_doc_id(doc),
        forall|i: int| 0 <= i < rs.len() ==> range_in_doc(doc, #[trigger] rs[i]),
        !in_description(token) ==> rs =~= seq![sp_range(token)],
    ensures chain_inv(doc, token, anc, rs, if in_description(token) { rs.len() as int } else { 0 }, 0, rs.len() as int),
{
    reveal(chain_inv);
    axiom_range_in_doc(doc, token);
    assert(nth_parent(token, 0) == Some(token));
}
pub proof fn lemma_anc_step(doc: &LuaDocument, token: Syn, anc: Seq<Syn>, rs: Seq<TextRange>, k: int, idx: int, init_len: int)
    requires
        sp_tree(token) == sp_doc_id(doc), ancestor_chain(token, anc), 0 <= idx < anc.len(),
        chain_inv(doc, token, anc, rs, k, idx, init_len),
    ensures chain_inv(doc, token, anc, rs.push(sp_range(anc[idx])), k, idx + 1, init_len),
{
    reveal(chain_inv);
    lemma_chain(token, anc, idx);
    axiom_range_in_doc(doc, anc[idx]);
    let rs2 = rs.push(sp_range(anc[idx]));
    assert forall|i: int| 0 <= i < rs2.len() implies range_in_doc(doc, #[trigger] rs2[i]) by {
        if i < rs.len() { assert(rs2[i] == rs[i]); }
    }
    assert forall|i: int| 0 <= k <= i && i + 1 < rs2.len() implies off_inside(#[trigger] rs2[i], rs2[i + 1]) by {
        if i + 1 < rs.len() {
            assert(rs2[i] == rs[i] && rs2[i + 1] == rs[i + 1]);
        } else {
            // the link to the ancestor just appended: its predecessor is the previous ancestor, or (outside a description)
            // the token itself
            if idx == 0 { assert(!in_description(token)); assert(nth_parent(token, 0) == Some(token)); assert(rs[0] == sp_range(token)); }
        }
    }
    if !in_description(token) {
        assert forall|i: nat| i < rs2.len() implies (#[trigger] nth_parent(token, i) matches Some(a) && rs2[i as int] == sp_range(a)) by {
            if i < rs.len() { assert(rs2[i as int] == rs[i as int]); }
        }
    }
}
pub proof fn lemma_anc_done(doc: &LuaDocument, token: Syn, anc: Seq<Syn>, rs: Seq<TextRange>, k: int, init_len: int)
    requires ancestor_chain(token, anc), chain_inv(doc, token, anc, rs, k, anc.len() as int, init_len),
    ensures
        rs.len() == init_len + sp_depth(token), off_growing_from(doc, rs, k),
        k == (if in_description(token) { init_len } else { 0 }),
        !in_description(token) ==> init_len == 1 && off_is_ancestry(token, rs),
{
    reveal(chain_inv);
}
