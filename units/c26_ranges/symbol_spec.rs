// ---- document symbols: "document symbols nest within their parents with selection ranges inside their ranges" ----
pub type SymMap = Map<LuaSyntaxId, Box<LuaSymbol>>;

/// LSP 3.17 DocumentSymbol.selectionRange: "Must be contained by the `range`" — for the symbol and all its descendants
/// (and every range is ordered)
pub open spec fn ds_sel_ok(d: DocumentSymbol) -> bool
    decreases d
{
    &&& pos_le(d.range.start, d.range.end)
    &&& lsp_inside(d.selection_range, d.range)
    &&& match d.children {
        None => true,
        Some(v) => forall|i: int| 0 <= i < v@.len() ==> ds_sel_ok(#[trigger] v@[i]),
    }
}
/// "document symbols nest within their parents": every child's range lies inside its parent's range, at every level
pub open spec fn ds_nest_ok(d: DocumentSymbol) -> bool
    decreases d
{
    match d.children {
        None => true,
        Some(v) => forall|i: int| 0 <= i < v@.len() ==> lsp_inside((#[trigger] v@[i]).range, d.range) && ds_nest_ok(v@[i]),
    }
}

/// a symbol as the builder stores it: its range is a range of the document; its selection range, when given, is a range
/// of the document INSIDE its range
pub open spec fn sym_ok(doc: &LuaDocument, s: LuaSymbol) -> bool {
    &&& range_in_doc(doc, s.range)
    &&& (s.selection_range matches Some(sel) ==> range_in_doc(doc, sel) && off_inside(sel, s.range))
}
/// child k of the symbol stored under id
pub open spec fn child_at(m: SymMap, id: LuaSyntaxId, k: int) -> LuaSyntaxId { m[id].children@[k] }
/// the child links of a symbol: every child id has a symbol, whose range lies inside `range`
pub open spec fn children_ok(m: SymMap, children: Seq<LuaSyntaxId>, range: TextRange) -> bool {
    forall|k: int| 0 <= k < children.len() ==> m.contains_key(#[trigger] children[k]) && off_inside(m[children[k]].range, range)
}
/// acyclicity witness: every child link goes to a strictly smaller rank
pub open spec fn rank_ok(m: SymMap, rank: spec_fn(LuaSyntaxId) -> nat) -> bool {
    forall|id: LuaSyntaxId, k: int| m.contains_key(id) && 0 <= k < m[id].children@.len() ==> rank(#[trigger] child_at(m, id, k)) < rank(id)
}
/// INVARIANT of the symbol table (`DocumentSymbolBuilder::document_symbols`)
pub open spec fn table_ok(doc: &LuaDocument, m: SymMap) -> bool {
    &&& forall|id: LuaSyntaxId| m.contains_key(id) ==> sym_ok(doc, *#[trigger] m[id])
    &&& forall|id: LuaSyntaxId| m.contains_key(id) ==> children_ok(m, (#[trigger] m[id]).children@, m[id].range)
    &&& exists|rank: spec_fn(LuaSyntaxId) -> nat| rank_ok(m, rank)
}
/// ranges already stored never change (what callers rely on to keep `off_inside(.., m[parent].range)` facts)
pub open spec fn table_extends(a: SymMap, b: SymMap) -> bool {
    forall|id: LuaSyntaxId| a.contains_key(id) ==> b.contains_key(id) && (#[trigger] b[id]).range == a[id].range
        && b[id].selection_range == a[id].selection_range
}

// termination measure of the recursive `build_child_symbol`
pub open spec fn the_rank(m: SymMap) -> spec_fn(LuaSyntaxId) -> nat { choose|rank: spec_fn(LuaSyntaxId) -> nat| rank_ok(m, rank) }
pub open spec fn seq_rank(rank: spec_fn(LuaSyntaxId) -> nat, ids: Seq<LuaSyntaxId>) -> nat
    decreases ids.len()
{
    if ids.len() == 0 { 0 } else {
        let a = seq_rank(rank, ids.drop_last());
        let b = rank(ids.last()) + 1;
        if a >= b { a } else { b }
    }
}
pub open spec fn sym_rank(m: SymMap, s: LuaSymbol) -> nat { seq_rank(the_rank(m), s.children@) }

pub proof fn lemma_seq_rank_gt(rank: spec_fn(LuaSyntaxId) -> nat, ids: Seq<LuaSyntaxId>, k: int)
    requires 0 <= k < ids.len(),
    ensures rank(ids[k]) < seq_rank(rank, ids),
    decreases ids.len()
{
    if k < ids.len() - 1 {
        lemma_seq_rank_gt(rank, ids.drop_last(), k);
    }
}
pub proof fn lemma_seq_rank_le(rank: spec_fn(LuaSyntaxId) -> nat, ids: Seq<LuaSyntaxId>, b: nat)
    requires forall|k: int| 0 <= k < ids.len() ==> rank(#[trigger] ids[k]) < b,
    ensures seq_rank(rank, ids) <= b,
    decreases ids.len()
{
    if ids.len() > 0 {
        assert forall|k: int| 0 <= k < ids.drop_last().len() implies rank(#[trigger] ids.drop_last()[k]) < b by {
            assert(ids.drop_last()[k] == ids[k]);
        }
        lemma_seq_rank_le(rank, ids.drop_last(), b);
        assert(rank(ids[ids.len() - 1]) < b);
    }
}
/// the symbol stored under child k of `s` has a smaller measure than `s`
pub proof fn lemma_child_rank(m: SymMap, s: LuaSymbol, k: int)
    requires
        exists|rank: spec_fn(LuaSyntaxId) -> nat| rank_ok(m, rank),
        0 <= k < s.children@.len(), m.contains_key(s.children@[k]),
    ensures sym_rank(m, *m[s.children@[k]]) < sym_rank(m, s),
{
    let rank = the_rank(m);
    assert(rank_ok(m, rank));
    let c = s.children@[k];
    assert forall|j: int| 0 <= j < m[c].children@.len() implies rank(#[trigger] m[c].children@[j]) < rank(c) by {
        assert(m[c].children@[j] == child_at(m, c, j));
    }
    lemma_seq_rank_le(rank, m[c].children@, rank(c));
    lemma_seq_rank_gt(rank, s.children@, k);
}
/// linking a childless symbol under another symbol keeps the links acyclic
pub proof fn lemma_link_acyclic(m: SymMap, m2: SymMap, parent: LuaSyntaxId, child: LuaSyntaxId, psym: Box<LuaSymbol>)
    requires
        exists|rank: spec_fn(LuaSyntaxId) -> nat| rank_ok(m, rank),
        m.contains_key(parent), m.contains_key(child), parent != child,
        m[child].children@.len() == 0,
        psym.children@ == m[parent].children@.push(child),
        m2 == m.insert(parent, psym),
    ensures exists|rank: spec_fn(LuaSyntaxId) -> nat| rank_ok(m2, rank),
{
    let rank = the_rank(m);
    assert(rank_ok(m, rank));
    let rank2 = |x: LuaSyntaxId| if x == child { 0nat } else { (rank(x) + 1) as nat };
    assert forall|id: LuaSyntaxId, k: int| m2.contains_key(id) && 0 <= k < m2[id].children@.len()
        implies rank2(#[trigger] child_at(m2, id, k)) < rank2(id) by {
        let c = child_at(m2, id, k);
        assert(id != child);
        if id == parent && k == m[parent].children@.len() {
            assert(c == child);
        } else {
            assert(c == child_at(m, id, k));
        }
    }
    assert(rank_ok(m2, rank2));
}
/// inserting a childless symbol under a fresh id keeps the table invariant
pub proof fn lemma_insert_fresh(doc: &LuaDocument, m: SymMap, id: LuaSyntaxId, s: Box<LuaSymbol>)
    requires table_ok(doc, m), !m.contains_key(id), sym_ok(doc, *s), s.children@.len() == 0,
    ensures table_ok(doc, m.insert(id, s)), table_extends(m, m.insert(id, s)),
{
    let m2 = m.insert(id, s);
    let rank = the_rank(m);
    assert(rank_ok(m, rank));
    assert forall|x: LuaSyntaxId| m2.contains_key(x) implies children_ok(m2, (#[trigger] m2[x]).children@, m2[x].range) by {
        if x != id {
            assert(children_ok(m, m[x].children@, m[x].range));
        }
    }
    assert forall|x: LuaSyntaxId, k: int| m2.contains_key(x) && 0 <= k < m2[x].children@.len()
        implies rank(#[trigger] child_at(m2, x, k)) < rank(x) by {
        assert(x != id);
        assert(child_at(m2, x, k) == child_at(m, x, k));
    }
    assert(rank_ok(m2, rank));
}
/// linking a childless stored symbol under a stored parent whose range contains it keeps the table invariant
pub proof fn lemma_link(doc: &LuaDocument, m: SymMap, parent: LuaSyntaxId, child: LuaSyntaxId, psym: Box<LuaSymbol>)
    requires
        table_ok(doc, m), m.contains_key(parent), m.contains_key(child), parent != child,
        m[child].children@.len() == 0, off_inside(m[child].range, m[parent].range),
        psym.children@ == m[parent].children@.push(child),
        psym.range == m[parent].range, psym.selection_range == m[parent].selection_range,
    ensures table_ok(doc, m.insert(parent, psym)), table_extends(m, m.insert(parent, psym)),
{
    let m2 = m.insert(parent, psym);
    lemma_link_acyclic(m, m2, parent, child, psym);
    assert forall|x: LuaSyntaxId| m2.contains_key(x) implies sym_ok(doc, *#[trigger] m2[x]) by {
        if x == parent { assert(sym_ok(doc, *m[parent])); } else { assert(sym_ok(doc, *m[x])); }
    }
    assert forall|x: LuaSyntaxId| m2.contains_key(x) implies children_ok(m2, (#[trigger] m2[x]).children@, m2[x].range) by {
        assert(children_ok(m, m[x].children@, m[x].range));
        assert forall|k: int| 0 <= k < m2[x].children@.len()
            implies m2.contains_key(#[trigger] m2[x].children@[k]) && off_inside(m2[m2[x].children@[k]].range, m2[x].range) by {
            let c = m2[x].children@[k];
            if x == parent && k == m[parent].children@.len() {
                assert(c == child);
            } else {
                assert(c == m[x].children@[k]);
                assert(m.contains_key(c) && off_inside(m[c].range, m[x].range));
            }
        }
    }
}
/// emmylua_code_analysis::LuaDecl, opaque; `get_range()` = the range recorded by the declaration analysis (for a local
/// name / assigned variable: the range of the name)
#[verifier::external_body]
pub struct LuaDecl { _p: () }
pub uninterp spec fn sp_decl_range(d: &LuaDecl) -> TextRange;
impl LuaDecl {
    #[verifier::external_body]
    pub fn get_range(&self) -> (r: TextRange) ensures r == sp_decl_range(self) { unimplemented!() }
}
