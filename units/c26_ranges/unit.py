"""unit c26_ranges — C26, the sentences about folding ranges, document symbols and selection ranges.

All code under proof is extracted from crates/emmylua_ls/src/handlers/{fold_range,document_symbol,document_selection_range}
on every run. The syntax tree (rowan) and LuaDocument are shims: LuaDocument's contracts are the ones PROVED in unit
c22_lineindex; the tree contracts (sibling order, ancestry containment, ranges inside the text) are ASSUMED and listed
under `trusted`.

PROVED
  fold      FoldingRangeBuilder::{new, get_root, get_document, build, push, begin_region, finish_region,
            get_block_collapsed_range, get_folding_lsp_range} and ALL twelve callers that construct a FoldingRange
            (stats.rs x6, expr.rs x3, comment.rs, imports.rs, mod.rs build_folding_ranges), whole functions, no slices:
            builder invariant "every held range has start <= end", build() returns exactly the held ranges.
  symbols   LuaSymbol::{new, with_selection_range, add_child}, DocumentSymbolBuilder::{new, add_node_symbol,
            add_token_symbol, contains_symbol, link_parent_child, build, build_child_symbol}: table invariant (selection
            inside range, child range inside parent range along the links, links closed and acyclic) is preserved by every
            mutation UNDER call-site preconditions, and build() turns a table with the invariant into a DocumentSymbol tree
            with selection_range inside range and children inside parents at every level; build_child_symbol terminates.
            + three statement slices of call sites of with_selection_range
            + the range of a binding symbol of a local / assignment statement (slices of build_local_stat_symbol and
            build_assign_stat_symbol): it contains the name and the value expression whose symbols are hung under it, and lies
            inside the statement.
  selection slice of on_document_selection_range_handle (everything after the token is known): outside doc descriptions the
            chain is the ancestry of the token (token's range first, root's range last, every element the range of an ancestor
            in ancestor order, no ancestor's range missing; ancestors that span the same text as the entry before them are
            left out), every parent range CONTAINS its child's range and DIFFERS from it (strictly growing, on the LSP ranges
            returned). Inside a description the same holds from the description node on; the detail ranges in front are not
            covered.

Both former findings of this unit (selection ranges not strictly growing; children of a multi-name binding outside their
parent) were repaired in the repository: see `fixed_findings`. Their clauses are regular obligations now and the repairs
are guarded by mutants.
"""

H = 'crates/emmylua_ls/src/handlers/'
FB = H + 'fold_range/builder.rs'
FST = H + 'fold_range/stats.rs'
FEX = H + 'fold_range/expr.rs'
FCO = H + 'fold_range/comment.rs'
FIM = H + 'fold_range/imports.rs'
FMOD = H + 'fold_range/mod.rs'
SB = H + 'document_symbol/builder.rs'
SEL = H + 'document_selection_range/mod.rs'


def fn(file, name, owner=None, **kw):
    src = {'file': file, 'kind': 'fn', 'name': name}
    if owner:
        src['impl'] = owner
    d = {'src': src}
    d.update(kw)
    return d


# ---------------------------------------------------------------------------------------------------------------
# folding ranges
# ---------------------------------------------------------------------------------------------------------------
FOLD_LABEL = '/*@C26.fold.start-le-end*/'
B_REQ = 'fb_inv(old(builder))'
B_ENS = ('fb_inv(final(builder)) ' + FOLD_LABEL + ',\n        fb_frame(old(builder), final(builder)) /*@C26.fold.frame*/')
ASSERT_PUSH = (r'builder\.push\(folding_range\);', 'before',
               'proof { assert(fold_ok(folding_range)) ' + FOLD_LABEL + '; }')


def block_stat(name, param):
    """the five `build_<x>_stat_fold_range` + `build_closure_expr_fold_range`: block of the statement -> collapsed range -> push"""
    return fn(FST if param != 'closure' else FEX, name,
              requires=B_REQ + ', sp_tree(%s) == sp_doc_id(old(builder).document)' % param,
              ensures=B_ENS,
              proof=[ASSERT_PUSH])


FOLD_ITEMS = {
    'ClientId': {'src': {'file': 'crates/emmylua_ls/src/context/client_id.rs', 'kind': 'enum', 'name': 'ClientId'},
                 'rules': ['c26r-drop-default-attr'], 'attrs': '#[derive(Clone, Copy)]'},
    'FoldingRangeBuilder': {'src': {'file': FB, 'kind': 'struct', 'name': 'FoldingRangeBuilder'},
                            'rules': [('struct-fields', {})]},
    'FoldingRangeBuilder::new': fn(
        FB, 'new', 'FoldingRangeBuilder', ret='r',
        ensures='''r.document == document && r.root == root && r.client_id == client_id
            && r.folding_ranges@.len() == 0 && r.region_starts@.len() == 0 /*@C26.fold.new*/,
        sp_doc_ok(document) ==> fb_inv(&r) ''' + FOLD_LABEL),
    'FoldingRangeBuilder::get_root': fn(FB, 'get_root', 'FoldingRangeBuilder', ret='r', ensures='*r == self.root'),
    'FoldingRangeBuilder::get_document': fn(FB, 'get_document', 'FoldingRangeBuilder', ret='r', ensures='r == self.document'),
    'FoldingRangeBuilder::build': fn(
        FB, 'build', 'FoldingRangeBuilder', ret='r',
        ensures='''r@ == self.folding_ranges@ /*@C26.fold.build-returns-pushed*/,
        // the response of textDocument/foldingRange: every range is ordered (builder invariant)
        fb_inv(&self) ==> forall|i: int| 0 <= i < r@.len() ==> fold_ok(#[trigger] r@[i]) ''' + FOLD_LABEL),
    'FoldingRangeBuilder::push': fn(
        FB, 'push', 'FoldingRangeBuilder',
        requires='fold_ok(folding_range)',
        ensures='''final(self).folding_ranges@ == old(self).folding_ranges@.push(folding_range) /*@C26.fold.push*/,
        final(self).region_starts == old(self).region_starts && fb_frame(old(self), final(self)) /*@C26.fold.frame*/,
        fb_inv(old(self)) ==> fb_inv(final(self)) ''' + FOLD_LABEL),
    'FoldingRangeBuilder::begin_region': fn(
        FB, 'begin_region', 'FoldingRangeBuilder',
        # call site (comment.rs): the range of a `--region` token of the document's own tree
        requires='range_in_doc(old(self).document, range)',
        ensures='''final(self).region_starts@ == old(self).region_starts@.push(range) /*@C26.fold.region-pairing*/,
        final(self).folding_ranges == old(self).folding_ranges && fb_frame(old(self), final(self)) /*@C26.fold.frame*/,
        fb_inv(old(self)) ==> fb_inv(final(self)) ''' + FOLD_LABEL),
    'FoldingRangeBuilder::finish_region': fn(
        FB, 'finish_region', 'FoldingRangeBuilder',
        # call site (comment.rs): the range of an `--endregion` token of the document's own tree. NOTHING is assumed about
        # the order of `range` and the popped `--region` range: the code takes min of the starts and max of the ends
        requires='fb_inv(old(self)), range_in_doc(old(self).document, range)',
        ensures='''fb_inv(final(self)) ''' + FOLD_LABEL + ''',
        fb_frame(old(self), final(self)) /*@C26.fold.frame*/,
        // an `--endregion` without an open `--region` is ignored (no panic, nothing pushed)
        old(self).region_starts@.len() == 0 ==> final(self).folding_ranges@ == old(self).folding_ranges@
            && final(self).region_starts@ == old(self).region_starts@ /*@C26.fold.region-unmatched-end-ignored*/,
        // otherwise it closes the innermost open region: one range from the smaller start to the larger end
        old(self).region_starts@.len() > 0 ==> ({
            let start = old(self).region_starts@.last();
            let lo = if start.start.raw <= range.start.raw { start.start } else { range.start };
            let hi = if start.end.raw >= range.end.raw { start.end } else { range.end };
            &&& final(self).region_starts@ == old(self).region_starts@.drop_last()
            &&& final(self).folding_ranges@.len() == old(self).folding_ranges@.len() + 1
            &&& final(self).folding_ranges@.drop_last() == old(self).folding_ranges@
            &&& final(self).folding_ranges@.last().start_line == doc_lsp_pos(old(self).document, lo).line
            &&& final(self).folding_ranges@.last().end_line == doc_lsp_pos(old(self).document, hi).line
        }) /*@C26.fold.region-pairing*/''',
        proof=[
            (r'let folding_range = FoldingRange \{', 'before', '''proof {
                assert(range_in_doc(self.document, start));
                // min of the two starts <= max of the two ends, whatever the order of the two comments
                assert(region_start_offset.raw <= region_end_offset.raw) /*@C26.fold.start-le-end*/;
                axiom_line_col_monotonic(self.document, region_start_offset, region_end_offset);
            }'''),
            (r'self\.push\(folding_range\);', 'before', 'proof { assert(fold_ok(folding_range)) ' + FOLD_LABEL + '; }'),
            (r'self\.push\(folding_range\);', 'after',
             'proof { assert(self.folding_ranges@.drop_last() =~= old(self).folding_ranges@); }'),
        ]),
    'FoldingRangeBuilder::get_folding_lsp_range': fn(
        FB, 'get_folding_lsp_range', 'FoldingRangeBuilder', ret='r',
        # call sites: lines/columns of two positions of the document in offset order (c22: < 2^32 - 1)
        requires='start_line <= end_line, end_line <= u32::MAX, start_col < usize::MAX',
        ensures='''r matches Some(rg) ==> pos_le(rg.start, rg.end) ''' + FOLD_LABEL + ''',
        start_line == end_line ==> r is None /*@C26.fold.single-line-not-folded*/'''),
    'FoldingRangeBuilder::get_block_collapsed_range': fn(
        FB, 'get_block_collapsed_range', 'FoldingRangeBuilder', ret='r',
        requires='sp_doc_ok(self.document), sp_tree(block) == sp_doc_id(self.document)',
        ensures='r matches Some(rg) ==> pos_le(rg.start, rg.end) ' + FOLD_LABEL,
        loops={
            0: '''invariant
                sp_range(prefix_node).end.raw <= sp_range(*syntax_node).start.raw,
                sp_tree(prefix_node) == sp_tree(*syntax_node), sp_tree(*syntax_node) == sp_doc_id(self.document),
            decreases sp_before(prefix_node)''',
            1: '''invariant
                sp_range(*syntax_node).end.raw <= sp_range(next_node).start.raw,
                sp_tree(next_node) == sp_tree(*syntax_node), sp_tree(*syntax_node) == sp_doc_id(self.document),
            decreases sp_after(next_node)''',
        },
        proof=[
            (r'let parent = syntax_node\.parent\(\)\?;', 'after', 'proof { axiom_parent_contains(*syntax_node); }'),
            # transitivity through the skipped trivia element needs ITS range to be ordered
            (r'prefix_node = prefix_node\.prev_sibling_or_token\(\)\?;', 'before', 'proof { axiom_range_in_doc(self.document, prefix_node); }'),
            (r'next_node = next_node\.next_sibling_or_token\(\)\?;', 'before', 'proof { axiom_range_in_doc(self.document, next_node); }'),
            (r'let document = self\.get_document\(\);', 'after', '''proof {
                // the element in front of the block ends before the block starts, the element behind it starts after it ends
                axiom_range_in_doc(document, *syntax_node);
                axiom_range_in_doc(document, prefix_node);
                axiom_range_in_doc(document, next_node);
                axiom_line_col_monotonic(document, sp_range(prefix_node).end, sp_range(next_node).start);
            }'''),
            (r'self\.get_folding_lsp_range\(start_line, end_line, start_col, end_col\)', 'before',
             'proof { assert(start_line <= end_line) /*@C26.fold.start-le-end*/; }'),
        ]),
    'build_for_stat_fold_range': block_stat('build_for_stat_fold_range', 'for_stat'),
    'build_for_range_stat_fold_range': block_stat('build_for_range_stat_fold_range', 'for_range_stat'),
    'build_while_stat_fold_range': block_stat('build_while_stat_fold_range', 'while_stat'),
    'build_repeat_stat_fold_range': block_stat('build_repeat_stat_fold_range', 'repeat_stat'),
    'build_do_stat_fold_range': block_stat('build_do_stat_fold_range', 'do_stat'),
    'build_closure_expr_fold_range': block_stat('build_closure_expr_fold_range', 'closure'),
    'build_if_stat_fold_range': fn(
        FST, 'build_if_stat_fold_range',
        requires=B_REQ + ', sp_tree(if_stat) == sp_doc_id(old(builder).document)',
        ensures=B_ENS,
        iter_names={0: 'it', 1: 'it2'},
        loops={
            0: '''invariant
                *builder == *old(builder), fb_inv(builder), sp_tree(if_stat) == sp_doc_id(builder.document),
                ordered_children(it.seq(), if_stat),
                forall|k: int| 0 <= k < collapsed_range_text@.len() ==> pos_le((#[trigger] collapsed_range_text@[k]).0.start, collapsed_range_text@[k].0.end),''',
            1: '''invariant
                fb_inv(builder), fb_frame(old(builder), builder),
                forall|k: int| 0 <= k < it2.seq().len() ==> pos_le((#[trigger] it2.seq()[k]).0.start, it2.seq()[k].0.end),''',
        },
        proof=[ASSERT_PUSH]),
    'build_table_expr_fold_range': fn(
        FEX, 'build_table_expr_fold_range',
        requires=B_REQ + ', sp_tree(table_expr) == sp_doc_id(old(builder).document)',
        ensures=B_ENS,
        proof=[(r'let lsp_range = document\.to_lsp_range\(expr_range\)\?;', 'before',
                'proof { axiom_range_in_doc(document, table_expr); }'),
               ASSERT_PUSH]),
    'build_string_fold_range': fn(
        FEX, 'build_string_fold_range',
        requires=B_REQ + ', sp_tree(literal) == sp_doc_id(old(builder).document)',
        ensures=B_ENS,
        proof=[(r'let lsp_range = document\.to_lsp_range\(range\)\?;', 'before',
                'proof { axiom_range_in_doc(document, string_token); }'),
               ASSERT_PUSH]),
    'build_comment_fold_range': fn(
        FCO, 'build_comment_fold_range',
        requires=B_REQ + ', sp_tree(comment) == sp_doc_id(old(builder).document)',
        ensures=B_ENS,
        iter_names={0: 'it'},
        loops={0: '''invariant
                fb_inv(builder), fb_frame(old(builder), builder), sp_tree(comment) == sp_doc_id(builder.document),
                forall|i: int| 0 <= i < it.seq().len() ==> child_of(#[trigger] not_syn(it.seq()[i]), comment),'''},
        proof=[(r'let lsp_range = document\.to_lsp_range\(range\)\?;', 'before',
                'proof { axiom_range_in_doc(document, comment); }'),
               ASSERT_PUSH,
               (r'if token\.kind\(\) == LuaTokenKind::TkDocRegion\.into\(\) \{', 'before',
                'proof { assert(child_of(not_syn(child), comment)); axiom_range_in_doc(builder.document, token); }')]),
    'build_imports_fold_range': fn(
        FIM, 'build_imports_fold_range',
        requires=B_REQ + ', sp_tree(root) == sp_doc_id(old(builder).document)',
        ensures=B_ENS,
        iter_names={0: 'it'},
        loops={0: '''invariant
                fb_inv(builder), fb_frame(old(builder), builder), sp_tree(root_block) == sp_doc_id(builder.document),
                ordered_children(it.seq(), root_block),
                start is Some ==> end is Some,
                // the run of require statements collected so far: from the start of its first to the end of its last
                // statement, and every statement still to come starts after it
                (start is Some && end is Some) ==> ({
                    let s = start->Some_0; let e = end->Some_0;
                    &&& s.raw <= e.raw && sp_in_doc(builder.document, s) && sp_in_doc(builder.document, e) /*@C26.fold.start-le-end.inv*/
                    &&& forall|k: int| it.index@ <= k < it.seq().len() ==> e.raw <= sp_range(#[trigger] it.seq()[k]).start.raw
                }),'''},
        proof=[(r'if is_require_stat\(stat\.clone\(\), require_like_func\)\.unwrap_or\(false\) \{', 'before',
                'proof { assert(child_of(it.seq()[it.index@], root_block)); axiom_range_in_doc(builder.document, stat); }'),
               (r'let fold_range = FoldingRange \{', 'before',
                'proof { axiom_line_col_monotonic(builder.document, start_pos, end_pos); }'),
               (r'builder\.push\(fold_range\);', 'before', 'proof { assert(fold_ok(fold_range)) ' + FOLD_LABEL + '; }')]),
    'build_folding_ranges': fn(
        FMOD, 'build_folding_ranges',
        requires=B_REQ + ', fb_tree(old(builder))',
        ensures=B_ENS,
        iter_names={0: 'it'},
        loops={0: '''invariant
                fb_inv(builder), fb_frame(old(builder), builder), fb_tree(builder), root == builder.root,
                forall|i: int| 0 <= i < it.seq().len() ==> (ast_syn(#[trigger] it.seq()[i]) matches Some(x) ==> sp_tree(x) == sp_tree(root)),'''}),
}

# ---------------------------------------------------------------------------------------------------------------
# selection ranges
# ---------------------------------------------------------------------------------------------------------------
SEL_HOST = {'file': SEL, 'kind': 'fn', 'name': 'on_document_selection_range_handle'}
SEL_ITEMS = {
    # the body of the handler's `for pos in position` loop from the point where the token under the cursor is known: builds
    # the chain of text ranges (token or description details, then every ancestor node), converts it outermost-first
    # into the linked SelectionRange and pushes it
    'selection_chain': {
        'src': {'kind': 'slice', 'name': 'selection_chain', 'in': SEL_HOST,
                'from': r'let mut ranges = Vec::new\(\);',
                'to': r'result\.push\(\*selection_range\);\s*\}',
                'head': '''pub fn selection_chain(semantic_model: SemanticModel, document: LuaDocument, token: LuaSyntaxToken, offset: TextSize,
        mut result: Vec<SelectionRange>) -> Option<Vec<SelectionRange>>''',
                'tail': 'Some(result)'},
        'rules': [('c26r-into-iter-rev', {'optional': True})],
        'ret': 'r',
        'requires': '''sp_doc_ok(&document),
            // the token was found in the tree parsed from this document (root.syntax().token_at_offset), and the model's
            // document is this document (`semantic_model.get_document()`)
            sp_tree(token) == sp_doc_id(&document), sp_model_doc(&semantic_model) == sp_doc_id(&document)''',
        'ensures': '''
            r matches Some(res) ==> result@.is_prefix_of(res@) && res@.len() <= result@.len() + 1 /*@C26.selection.frame*/,
            // outside a doc description one chain is produced: the ancestry of the token from the token itself outward — starts
            // with the token's range, ends with the root's range, every element the range of an ancestor in ancestor order, no
            // ancestor's range missing (ancestors spanning the same text as the entry before them are left out)
            r matches Some(res) ==> (!in_description(token) ==> res@.len() == result@.len() + 1
                && is_ancestry(&document, token, sel_ranges(res@.last()), 0)) /*@C26.selection.chain-is-ancestry*/,
            // … in which every parent range contains its child's range (LSP 3.17)
            r matches Some(res) ==> (!in_description(token) && res@.len() == result@.len() + 1
                ==> growing_from(sel_ranges(res@.last()), 0)) /*@C26.selection.parent-contains-child*/,
            // … and differs from it: the property AS STATED, "selection ranges strictly grow outward"
            r matches Some(res) ==> (!in_description(token) && res@.len() == result@.len() + 1
                ==> strictly_growing_from(sel_ranges(res@.last()), 0)) /*@C26.selection.strictly-growing*/,
            // inside a description: from some position p on the chain is the ancestry of the token from its parent (the
            // description node) outward, strictly growing; the description detail ranges in front of p are not covered
            r matches Some(res) ==> (in_description(token) && res@.len() == result@.len() + 1
                ==> exists|p: int| #[trigger] desc_tail_ok(&document, token, sel_ranges(res@.last()), p)) /*@C26.selection.parent-contains-child*/''',
        'iter_names': {0: 'it', 1: 'it2'},
        'loops': {
            0: '''invariant
                sp_tree(token) == sp_doc_id(&document),
                ancestor_chain(token, it.seq()),
                0 <= p, !in_description(token) ==> p == 0,
                all_in_doc(&document, ranges@),
                sel_anc_inv(token, ranges@, p, idx, it.index@ as nat) /*@C26.selection.chain-is-ancestry.inv*/,
                off_inside_from(ranges@, p) /*@C26.selection.parent-contains-child.inv*/,
                off_differ_from(ranges@, p) /*@C26.selection.strictly-growing.inv*/,''',
            1: '''invariant
                sp_doc_ok(&document),
                it2.seq() == rs.reverse() /*@C26.selection.outermost-first*/,
                forall|i: int| 0 <= i < rs.len() ==> range_in_doc(&document, #[trigger] rs[i]),
                (it2.index@ == 0) == (parent is None),
                parent matches Some(p) ==> sel_ranges(*p) == lsp_seq(&document, rs.subrange(rs.len() - it2.index@, rs.len() as int)) /*@C26.selection.chain-is-ancestry.inv*/,''',
        },
        'proof': [
            # ghost state of the ancestor loop: p = position in `ranges` where the ancestry starts (0 outside a description;
            # inside one: the entry that stands for the description node), idx = ancestor numbers of ranges[p..]
            (r'for ancestor in token\.parent_ancestors\(\)', 'before', '''let ghost mut p: int = if in_description(token) { ranges@.len() as int } else { 0 };
            let ghost mut idx: Seq<nat> = seq![0nat];
            proof {
                axiom_range_in_doc(&document, token);
                assert forall|i: int| 0 <= i < ranges@.len() implies range_in_doc(&document, #[trigger] ranges@[i]) by { }
                lemma_anc_init(token, ranges@);
            }'''),
            (r'for ancestor in token\.parent_ancestors\(\) \{', 'after', '''proof {
                lemma_anc_step(&document, token, it.seq(), ranges@, p, idx, it.index@ as nat);
                let st = anc_step(token, sp_range(ancestor), ranges@, p, idx, it.index@ as nat);
                p = st.1;
                idx = st.2;
            }'''),
            (r'let mut parent: Option<Box<SelectionRange>> = None;', 'before', '''let ghost rs = ranges@;
            proof {
                // a token inside a description has a parent: at least one ancestor was visited
                if in_description(token) { axiom_parent_contains(token); }
                lemma_anc_done(token, rs, p, idx);
            }'''),
            (r'let lsp_range = document\.to_lsp_range\(range\)\?;', 'before', '''let ghost oldp = parent;
            proof { assert(range == rs[rs.len() - 1 - it2.index@]); }'''),
            (r'parent = Some\(Box::new\(selection_range\)\);', 'after',
             'proof { lemma_sel_step(&document, rs, it2.index@ as int, oldp, *parent->Some_0); }'),
            (r'result\.push\(\*selection_range\);', 'before', '''let ghost sr = *selection_range;
            proof { lemma_sel_done(&document, token, rs, p, idx, sel_ranges(sr)); }'''),
            (r'result\.push\(\*selection_range\);', 'after', '''proof {
                assert(result@.last() == sr);
                if in_description(token) { assert(desc_tail_ok(&document, token, sel_ranges(result@.last()), p)); }
            }'''),
        ],
    },
}

# ---------------------------------------------------------------------------------------------------------------
# document symbols
# ---------------------------------------------------------------------------------------------------------------
KEYS = 'vstd::std_specs::hash::obeys_key_model::<LuaSyntaxId>()'
HASH_AX = 'broadcast use vstd::std_specs::hash::group_hash_axioms;'
DOC_S = 'old(self).document'
M_OLD = 'old(self).document_symbols@'
M_FIN = 'final(self).document_symbols@'
SB_FRAME = 'final(self).document == old(self).document && final(self).db == old(self).db && final(self).decl_tree == old(self).decl_tree /*@C26.symbols.frame*/'


def add_symbol(name, elem):
    """add_node_symbol / add_token_symbol: same contract. `elem` = name of the element parameter."""
    node = elem == 'node'
    anc_pre = ('''forall|n: nat| n >= 1 ==> (#[trigger] nth_parent(%(e)s, n) matches Some(a) ==> id_of(a) != id_of(%(e)s)
                    && (%(m)s.contains_key(id_of(a)) ==> off_inside(symbol.range, %(m)s[id_of(a)].range)))''')
    # facts carried through the ancestor walk (loop isolation); m1 = the table right after the insert
    carried = '''
                ''' + KEYS + ''', sp_doc_ok(self.document), syntax_id == id_of(%(e)s),
                self.document == old(self).document && self.db == old(self).db && self.decl_tree == old(self).decl_tree,
                m1 == old(self).document_symbols@.insert(syntax_id, bsym), !old(self).document_symbols@.contains_key(syntax_id),
                bsym.children@.len() == 0 && bsym.range == symbol.range && bsym.selection_range == symbol.selection_range,
                table_ok(self.document, m1), table_extends(old(self).document_symbols@, m1),
                ''' + anc_pre + ','
    if node:
        walk = '''invariant_except_break
                nth_parent(node, n) == Some(current),
                self.document_symbols@ == m1,'''
        dec = 'sp_depth(current)'
    else:
        walk = '''invariant_except_break
                n >= 1 && node == nth_parent(token, n),
                self.document_symbols@ == m1,'''
        dec = '(match node { Some(x) => sp_depth(x) + 1, None => 0nat })'
    loop = (walk + '''
            invariant''' + carried + '''
            ensures
                table_ok(self.document, self.document_symbols@), table_extends(old(self).document_symbols@, self.document_symbols@),
                self.document_symbols@.contains_key(syntax_id) && self.document_symbols@[syntax_id].range == symbol.range
                    && self.document_symbols@[syntax_id].selection_range == symbol.selection_range,
            decreases ''' + dec) % {'e': elem, 'm': M_OLD}
    psym = 'parent_symbol' if node else 'symbol'
    proof = [
        (r'self\.document_symbols\.insert\(syntax_id, Box::new\(symbol\)\);', 'before',
         'let ghost bsym = Box::new(symbol);\nproof { lemma_insert_fresh(self.document, self.document_symbols@, syntax_id, bsym); }'),
        # the walk: `current` / `node` is the n-th ancestor of the element
        ((r'let mut current = node;' if node else r'let mut node = token\.parent\(\);'), 'after',
         'let ghost m1 = self.document_symbols@;\nlet ghost mut n: nat = %s;\nproof { %s }'
         % (('0', '') if node else ('1', 'assert(nth_parent(token, 1) == sp_parent(token)) by { assert(nth_parent(token, 0) == Some(token)); }'))),
        (r'let parent_syntax_id = LuaSyntaxId::new\(parent_node\.kind\(\), parent_node\.text_range\(\)\);', 'before',
         ('''proof {
                axiom_parent_contains(current);
                assert(nth_parent(node, n + 1) == Some(parent_node));
            }''' if node else '''proof {
                assert(nth_parent(token, n) == Some(parent_node));
            }''')),
        (r'(?:parent_symbol|symbol)\.add_child\(syntax_id\);', 'after',
         '''proof {
                // the nearest ancestor that has a symbol: not the element itself, and (precondition) its range contains the new one
                assert(m1.contains_key(parent_syntax_id) && parent_syntax_id != syntax_id);
                assert(old(self).document_symbols@.contains_key(parent_syntax_id) && m1[parent_syntax_id] == old(self).document_symbols@[parent_syntax_id]);
                lemma_link(self.document, m1, parent_syntax_id, syntax_id, *%s);
                assert(table_extends(old(self).document_symbols@, m1.insert(parent_syntax_id, *%s)));
            }''' % (psym, psym)),
        ((r'current = parent_node;' if node else r'node = parent_node\.parent\(\);'), 'after',
         ('proof { n = n + 1; }' if node else
          'proof { if sp_parent(parent_node) is Some { axiom_parent_contains(parent_node); } n = n + 1; assert(nth_parent(token, n) == sp_parent(parent_node)); }')),
    ]
    return fn(
        SB, name, 'DocumentSymbolBuilder', ret='r',
        requires=KEYS + ''', sp_doc_ok(%(d)s), table_ok(%(d)s, %(m)s),
            // what the caller hands in: a childless symbol whose selection range (if any) lies inside its range
            sym_ok(%(d)s, symbol), symbol.children@.len() == 0,
            // the element has not been given a symbol before
            !%(m)s.contains_key(id_of(%(e)s)),
            match parent {
                // explicit parent: not the element itself; the new symbol's range lies inside the parent symbol's range
                Some(p) => p != id_of(%(e)s) && (%(m)s.contains_key(p) ==> off_inside(symbol.range, %(m)s[p].range)),
                // no parent given: the symbol is linked under the NEAREST ancestor node that has a symbol; whichever that is,
                // it is not the element itself (same kind and range) and its symbol's range contains the new one.
                // (Only call site with None: add_node_symbol for the root chunk, document_symbol/mod.rs:57, which has no ancestors.)
                None => %(anc)s,
            }''' % {'d': DOC_S, 'm': M_OLD, 'e': elem, 'anc': anc_pre % {'e': elem, 'm': M_OLD}},
        ensures='''r == id_of(%(e)s) /*@C26.symbols.id*/,
            %(frame)s,
            table_ok(%(d)s, %(mf)s) /*@C26.symbols.table-inv*/,
            table_extends(%(m)s, %(mf)s) /*@C26.symbols.table-extends*/,
            %(mf)s.contains_key(r) && %(mf)s[r].range == symbol.range && %(mf)s[r].selection_range == symbol.selection_range /*@C26.symbols.stored*/'''
        % {'d': DOC_S, 'm': M_OLD, 'mf': M_FIN, 'e': elem, 'frame': SB_FRAME},
        body_first=HASH_AX,
        loops={0: loop},
        proof=proof)


SYM_ITEMS = {
    'LuaSymbol': {'src': {'file': SB, 'kind': 'struct', 'name': 'LuaSymbol'}, 'rules': [('struct-fields', {})]},
    'LuaSymbol::new': fn(
        SB, 'new', 'LuaSymbol', ret='r',
        ensures='''r.range == range && r.children@.len() == 0 /*@C26.symbols.new*/,
        // no selection range stored: `build` then uses the full range as selection range
        r.selection_range is None /*@C26.symbols.selection-inside-range*/'''),
    'LuaSymbol::with_selection_range': fn(
        SB, 'with_selection_range', 'LuaSymbol', ret='r',
        ensures='''r.range == range && r.children@.len() == 0 /*@C26.symbols.new*/,
        r.selection_range == Some(selection_range) /*@C26.symbols.with-selection-range*/,
        // the builder never clamps or checks: "selection inside range" is exactly what the CALLER passes
        forall|doc: &LuaDocument| range_in_doc(doc, range) && range_in_doc(doc, selection_range) && off_inside(selection_range, range)
            ==> #[trigger] sym_ok(doc, r) /*@C26.symbols.selection-inside-range*/'''),
    'LuaSymbol::add_child': fn(
        SB, 'add_child', 'LuaSymbol',
        ensures='''final(self).children@ == old(self).children@.push(child) /*@C26.symbols.add-child*/,
        final(self).range == old(self).range && final(self).selection_range == old(self).selection_range /*@C26.symbols.add-child.frame*/'''),
    'DocumentSymbolBuilder': {'src': {'file': SB, 'kind': 'struct', 'name': 'DocumentSymbolBuilder'},
                              'rules': [('struct-fields', {})]},
    'DocumentSymbolBuilder::new': fn(
        SB, 'new', 'DocumentSymbolBuilder', ret='r',
        requires=KEYS,
        ensures='''r.document == document && r.db == db && r.decl_tree == decl_tree /*@C26.symbols.frame*/,
        table_ok(document, r.document_symbols@) /*@C26.symbols.table-inv*/''',
        proof=[(r'\n\s*Self \{', 'before', '''proof {
            let m = Map::<LuaSyntaxId, Box<LuaSymbol>>::empty();
            assert(rank_ok(m, |x: LuaSyntaxId| 0nat));
        }''')]),
    'DocumentSymbolBuilder::add_node_symbol': add_symbol('add_node_symbol', 'node'),
    'DocumentSymbolBuilder::add_token_symbol': add_symbol('add_token_symbol', 'token'),
    'DocumentSymbolBuilder::contains_symbol': fn(
        SB, 'contains_symbol', 'DocumentSymbolBuilder', ret='r',
        requires=KEYS,
        ensures='r == self.document_symbols@.contains_key(*id)',
        body_first=HASH_AX),
    'DocumentSymbolBuilder::link_parent_child': fn(
        SB, 'link_parent_child', 'DocumentSymbolBuilder',
        requires=KEYS + ''', sp_doc_ok(%(d)s), table_ok(%(d)s, %(m)s),
            // the child symbol is stored and still childless (it was inserted by the caller one statement earlier)
            %(m)s.contains_key(child), %(m)s[child].children@.len() == 0, parent != child,
            %(m)s.contains_key(parent) ==> off_inside(%(m)s[child].range, %(m)s[parent].range)''' % {'d': DOC_S, 'm': M_OLD},
        ensures='''%(frame)s,
            table_ok(%(d)s, %(mf)s) /*@C26.symbols.table-inv*/,
            table_extends(%(m)s, %(mf)s) /*@C26.symbols.table-extends*/'''
        % {'d': DOC_S, 'm': M_OLD, 'mf': M_FIN, 'frame': SB_FRAME},
        body_first=HASH_AX,
        proof=[(r'parent_symbol\.add_child\(child\);', 'after',
                'proof { lemma_link(self.document, old(self).document_symbols@, parent, child, *parent_symbol); }')],
        pub=False),
    'DocumentSymbolBuilder::build': fn(
        SB, 'build', 'DocumentSymbolBuilder', ret='r',
        rules=['c26r-closure-contract-to-lsp-range'],
        requires=KEYS + ''', sp_doc_ok(self.document), table_ok(self.document, self.document_symbols@),
            // build_document_symbol stored the root chunk's symbol first (`add_node_symbol(root.syntax().clone(), symbol, None)`)
            self.document_symbols@.contains_key(id_of(*root))''',
        ensures='''
            // the response of textDocument/documentSymbol (its root; the handler returns the root's children)
            ds_sel_ok(r) /*@C26.symbols.selection-inside-range*/,
            ds_nest_ok(r) /*@C26.symbols.child-inside-parent*/,
            r.range == doc_lsp_range(self.document, self.document_symbols@[id_of(*root)].range) /*@C26.symbols.root-range*/''',
        body_first=HASH_AX,
        proof=[(r'let mut document_symbol = DocumentSymbol \{', 'before', '''proof {
                let m = self.document_symbols@;
                assert(sym_ok(self.document, *m[id]));
                assert(children_ok(m, m[id].children@, m[id].range));
                if lua_symbol.selection_range is Some {
                    lemma_inside_lsp(self.document, lua_symbol.selection_range->Some_0, lua_symbol.range);
                }
            }'''),
            (r'self\.build_child_symbol\(&mut document_symbol, lua_symbol\);', 'before',
             'proof { assert(lsp_inside(document_symbol.selection_range, document_symbol.range)) /*@C26.symbols.selection-inside-range*/; }')]),
    'DocumentSymbolBuilder::build_child_symbol': fn(
        SB, 'build_child_symbol', 'DocumentSymbolBuilder',
        rules=['c26r-closure-contract-to-lsp-range'],
        requires=KEYS + ''', sp_doc_ok(self.document), table_ok(self.document, self.document_symbols@),
            // `symbol` is a symbol of the table (or has the child links of one): every child id is stored, with a range inside
            range_in_doc(self.document, symbol.range), children_ok(self.document_symbols@, symbol.children@, symbol.range),
            // `document_symbol` is the LSP symbol made for `symbol`
            old(document_symbol).range == doc_lsp_range(self.document, symbol.range),
            ds_sel_ok(*old(document_symbol)), ds_nest_ok(*old(document_symbol))''',
        ensures='''ds_sel_ok(*final(document_symbol)) /*@C26.symbols.selection-inside-range*/,
            ds_nest_ok(*final(document_symbol)) /*@C26.symbols.child-inside-parent*/,
            final(document_symbol).range == old(document_symbol).range
                && final(document_symbol).selection_range == old(document_symbol).selection_range /*@C26.symbols.frame*/''',
        # recursion over the child links: terminates because the links are acyclic (table_ok: a rank function exists)
        decreases='sym_rank(self.document_symbols@, *symbol)',
        body_first=HASH_AX,
        iter_names={0: 'it'},
        loops={0: '''invariant
                ''' + KEYS + ''', sp_doc_ok(self.document), table_ok(self.document, self.document_symbols@),
                range_in_doc(self.document, symbol.range), children_ok(self.document_symbols@, symbol.children@, symbol.range),
                it.seq().len() == symbol.children@.len(),
                forall|i: int| 0 <= i < it.seq().len() ==> *(#[trigger] it.seq()[i]) == symbol.children@[i],
                document_symbol.range == doc_lsp_range(self.document, symbol.range),
                document_symbol.range == old(document_symbol).range && document_symbol.selection_range == old(document_symbol).selection_range,
                ds_sel_ok(*document_symbol) /*@C26.symbols.selection-inside-range.inv*/,
                ds_nest_ok(*document_symbol) /*@C26.symbols.child-inside-parent.inv*/,'''},
        proof=[
            (r'let child_symbol = self\.document_symbols\.get\(child\)\?;', 'after', '''proof {
                let m = self.document_symbols@;
                assert(*child == symbol.children@[it.index@ as int]);
                assert(m.contains_key(*child) && *child_symbol == m[*child]);
                assert(sym_ok(self.document, *m[*child]));
                assert(children_ok(m, m[*child].children@, m[*child].range));
                lemma_child_rank(m, *symbol, it.index@ as int);
            }'''),
            (r'let mut lsp_document_symbol = DocumentSymbol \{', 'before', '''proof {
                if child_symbol.selection_range is Some {
                    lemma_inside_lsp(self.document, child_symbol.selection_range->Some_0, child_symbol.range);
                }
                lemma_inside_lsp(self.document, child_symbol.range, symbol.range);
            }'''),
            (r'self\.build_child_symbol\(&mut lsp_document_symbol, ', 'before', '''proof {
                assert(lsp_inside(lsp_document_symbol.selection_range, lsp_document_symbol.range)) /*@C26.symbols.selection-inside-range*/;
                assert(lsp_inside(lsp_document_symbol.range, document_symbol.range)) /*@C26.symbols.child-inside-parent*/;
            }'''),
            (r'document_symbol\s*\.children\s*\.get_or_insert_with', 'before', 'let ghost before = *document_symbol;'),
            (r'\.push\(lsp_document_symbol\);', 'after', '''proof {
                let now = document_symbol.children->Some_0@;
                let prev = match before.children { Some(v) => v@, None => Seq::<DocumentSymbol>::empty() };
                assert(now =~= prev.push(lsp_document_symbol));
                assert forall|i: int| 0 <= i < now.len() implies ds_sel_ok(#[trigger] now[i]) by {
                    if i < prev.len() { assert(now[i] == prev[i]); }
                }
                assert forall|i: int| 0 <= i < now.len() implies lsp_inside((#[trigger] now[i]).range, document_symbol.range) && ds_nest_ok(now[i]) by {
                    if i < prev.len() { assert(now[i] == prev[i]); }
                }
            }'''),
        ],
        pub=False),
}

# ---- call sites of LuaSymbol::with_selection_range whose selection range is a syntactic child: statement slices --------
SST = H + 'document_symbol/stats.rs'
SCO = H + 'document_symbol/comment.rs'
B_DOC = 'old(builder).document'
B_M = 'old(builder).document_symbols@'
B_MF = 'final(builder).document_symbols@'


def with_sel_slice(host_file, host, name, head, frm, to, tail, owner, sel, extra_req=''):
    """the statements `range = <owner>.get_range(); selection = <sel>…; with_selection_range(..); add_node_symbol(<owner>, .., Some(parent_id))`"""
    return {
        'src': {'kind': 'slice', 'name': name, 'in': {'file': host_file, 'kind': 'fn', 'name': host},
                'from': frm, 'to': to, 'head': head, 'tail': tail},
        'ret': 'r',
        'requires': KEYS + ''', sp_doc_ok(%(d)s), table_ok(%(d)s, %(m)s),
            sp_tree(%(o)s) == sp_doc_id(%(d)s),
            // established by the statements in front of the slice: the name / `--region` token is a direct child of the node
            child_of(%(s)s, %(o)s),
            // ASSUMED of the caller (the traversal in document_symbol/mod.rs): the node has no symbol yet, and the parent
            // symbol is the symbol of an enclosing construct whose range contains the node
            !%(m)s.contains_key(id_of(%(o)s)), parent_id != id_of(%(o)s),
            %(m)s.contains_key(parent_id) ==> off_inside(sp_range(%(o)s), %(m)s[parent_id].range)%(x)s'''
        % {'d': B_DOC, 'm': B_M, 'o': owner, 's': sel, 'x': extra_req},
        'ensures': '''r == id_of(%(o)s) && %(mf)s.contains_key(r) /*@C26.symbols.id*/,
            // the symbol stored for the node: its range is the node's range, its selection range the child's range — inside it
            %(mf)s[r].range == sp_range(%(o)s) && %(mf)s[r].selection_range == Some(sp_range(%(s)s))
                && sym_ok(%(d)s, *%(mf)s[r]) /*@C26.symbols.selection-inside-range*/,
            table_ok(%(d)s, %(mf)s) /*@C26.symbols.table-inv*/,
            table_extends(%(m)s, %(mf)s) /*@C26.symbols.table-extends*/,
            final(builder).document == old(builder).document /*@C26.symbols.frame*/'''
        % {'d': B_DOC, 'm': B_M, 'mf': B_MF, 'o': owner, 's': sel},
        'proof': [(r'let symbol = LuaSymbol::with_selection_range\(', 'before', '''proof {
                axiom_range_in_doc(builder.document, %(o)s);
                axiom_range_in_doc(builder.document, %(s)s);
                axiom_parent_contains(%(s)s);
            }''' % {'o': owner, 's': sel}),
            (r'let \w+ = builder\.add_node_symbol\(', 'before',
             'proof { assert(sym_ok(builder.document, symbol)) /*@C26.symbols.selection-inside-range*/; }')],
    }


CALLSITE_ITEMS = {
    'build_func_stat_symbol::symbol': with_sel_slice(
        SST, 'build_func_stat_symbol', 'func_stat_symbol',
        '''pub fn func_stat_symbol(builder: &mut DocumentSymbolBuilder, func: LuaFuncStat, func_name: LuaVarExpr, name: String,
        desc: (SymbolKind, Option<String>), parent_id: LuaSyntaxId) -> LuaSyntaxId''',
        r'let full_range = func\.get_range\(\);',
        r'let func_id = builder\.add_node_symbol\(func\.syntax\(\)\.clone\(\), symbol, Some\(parent_id\)\);',
        'func_id', 'func', 'func_name'),
    'build_doc_region_symbol::region_token': {
        'src': {'kind': 'slice', 'name': 'doc_region_token', 'in': {'file': SCO, 'kind': 'fn', 'name': 'build_doc_region_symbol'},
                'from': r'let mut region_token = None;', 'to': r'let region_token = region_token\?;',
                'head': 'pub fn doc_region_token(comment: LuaComment) -> Option<LuaSyntaxToken>', 'tail': 'Some(region_token)'},
        'ret': 'r',
        'ensures': 'r matches Some(t) ==> child_of(t, comment) && sp_kind(t) == sp_kind_of_token_kind(LuaTokenKind::TkDocRegion) /*@C26.symbols.region-token-is-child*/',
        'iter_names': {0: 'it'},
        'loops': {0: '''invariant_except_break
                region_token is None,
            invariant
                forall|i: int| 0 <= i < it.seq().len() ==> child_of(#[trigger] not_syn(it.seq()[i]), comment),
            ensures
                region_token matches Some(t) ==> child_of(t, comment) && sp_kind(t) == sp_kind_of_token_kind(LuaTokenKind::TkDocRegion),'''},
        'proof': [(r'if token\.kind\(\) == LuaTokenKind::TkDocRegion\.into\(\) \{', 'before',
                   'proof { assert(child_of(not_syn(child), comment)); }')],
    },
    'build_doc_region_symbol::symbol': with_sel_slice(
        SCO, 'build_doc_region_symbol', 'doc_region_symbol',
        '''pub fn doc_region_symbol(builder: &mut DocumentSymbolBuilder, comment: LuaComment, region_token: LuaSyntaxToken,
        description: String, parent_id: LuaSyntaxId) -> LuaSyntaxId''',
        r'let range = comment\.get_range\(\);',
        r'let symbol_id = builder\.add_node_symbol\(comment\.syntax\(\)\.clone\(\), symbol, Some\(parent_id\)\);',
        'symbol_id', 'comment', 'region_token'),
}

# ---------------------------------------------------------------------------------------------------------------
# the range of a binding symbol (document_symbol/stats.rs build_local_stat_symbol / build_assign_stat_symbol). mod.rs then
# hangs the symbols of the binding's value expression (closure, table fields) under this symbol with
# process_expr(.., binding.symbol_id, true): the value expression has to lie inside the symbol's range, and the symbol's
# range inside the statement (whose range lies inside the parent symbol's range).
# Until commit 52fd530 a binding of a multi-name statement had range = the NAME only (former finding F2).
# ---------------------------------------------------------------------------------------------------------------
NEST_LABEL = '/*@C26.symbols.child-inside-parent*/'


def binding_range_slice(host, name, simple, stat, stat_ty):
    return {
        'src': {'kind': 'slice', 'name': name, 'in': {'file': SST, 'kind': 'fn', 'name': host},
                'from': r'let range = if %s \{' % simple, 'to': r'\} else \{\s*decl\.get_range\(\)\s*\};',
                'head': 'pub fn %s(%s: bool, %s: %s, decl: &LuaDecl, value_expr: Option<LuaExpr>) -> TextRange'
                        % (name, simple, stat, stat_ty),
                'tail': 'range'},
        'ret': 'r',
        'requires': '''// ranges of tree elements are ordered (axiom_range_in_doc; no document in scope of the slice)
            sp_range(%(s)s).wf(), sp_decl_range(decl).wf(),
            // ASSUMED (declaration analysis, by reading): the declaration's range is the range of the name, which is a
            // child of the statement
            off_inside(sp_decl_range(decl), sp_range(%(s)s)),
            // established in front of the slice: the value expression bound to this name (`get(index)` of the statement's
            // value expressions), if there is one, is a child of the statement
            value_expr matches Some(e) ==> child_of(e, %(s)s) && sp_range(e).wf()''' % {'s': stat},
        'ensures': '''// the symbol's range contains the name …
            off_inside(sp_decl_range(decl), r) && r.wf() %(l)s,
            // … and the value expression, under which mod.rs hangs the child symbols
            value_expr matches Some(e) ==> off_inside(sp_range(e), r) %(l)s,
            // … and lies inside the statement (hence inside the parent symbol, whose range contains the statement)
            off_inside(r, sp_range(%(s)s)) %(l)s,
            %(simple)s ==> r == sp_range(%(s)s) /*@C26.symbols.simple-binding-is-statement*/'''
        % {'s': stat, 'l': NEST_LABEL, 'simple': simple},
        'body_first': 'proof { if value_expr is Some { axiom_parent_contains(value_expr->Some_0); } }',
    }


BINDING_ITEMS = {
    'build_local_stat_symbol::binding_range': binding_range_slice(
        'build_local_stat_symbol', 'local_binding_range', 'simple_local', 'local_stat', 'LuaLocalStat'),
    'build_assign_stat_symbol::binding_range': binding_range_slice(
        'build_assign_stat_symbol', 'assign_binding_range', 'simple_var', 'assign_stat', 'LuaAssignStat'),
}

ITEMS = {}
ITEMS.update(CALLSITE_ITEMS)
ITEMS.update(BINDING_ITEMS)
ITEMS.update(FOLD_ITEMS)
ITEMS.update(SEL_ITEMS)
ITEMS.update(SYM_ITEMS)

UNIT = {
    'items': ITEMS,
    'extra_rules': [
        ('c26r-closure-contract-to-lsp-range', r'\|range\| self\.document\.to_lsp_range\(range\)',
         '|range: TextRange| -> (o: Option<lsp_types::Range>)\n'
         '                requires sp_doc_ok(self.document), range_in_doc(self.document, range)\n'
         '                ensures o == Some(doc_lsp_range(self.document, range))\n'
         '                { self.document.to_lsp_range(range) }',
         'contract overlay on the closure passed to Option::and_then (vstd specifies and_then through the closure\'s contract): '
         'parameter type, named result, `requires`/`ensures` (= the contract of the callee) are added; the body expression is kept '
         'verbatim and Verus checks the contract against it, and the `requires` where and_then calls it'),
        ('c26r-into-iter-rev', r'(\w+)\.into_iter\(\)\.rev\(\)', r'vx_into_iter_rev(\1)',
         '`for x in V.into_iter().rev()` -> `for x in vx_into_iter_rev(V)`: std doc of DoubleEndedIterator::rev ("reverses an '
         'iterator\'s direction"): the loop sees the elements of the Vec V last-first; the helper returns exactly that sequence '
         'as a Vec (ensures r@ == V@.reverse()) and `for x in vec` visits a Vec in order'),
        ('c26r-drop-default-attr', r'\n\s*#\[default\]', '',
         'the `#[default]` variant attribute only feeds `#[derive(Default)]`, which is dropped with the other outer attributes '
         'of the enum (Default::default() is not called by the code under proof)'),
    ],
    'allow': [
        r'external_body', r'\buninterp\b', r'axiom_line_col_monotonic', r'axiom_line_col_injective', r'axiom_range_in_doc', r'axiom_parent_contains',
        r'assume_specification<T, F: FnOnce\(\) -> T>\[ Option::<T>::get_or_insert_with \]',
        r'assume_specification<\'a, K: Eq \+ Hash \+ Borrow<Q>, V, S: BuildHasher, A: Allocator, Q: Hash \+ Eq \+ \?Sized>\[ HashMap::<K, V, S, A>::get_mut \]',
    ],
    'min_obligations': 80,
    'trusted': [
        # ---- proved elsewhere --------------------------------------------------------------------------------------
        'LuaDocument::get_line_col shim: r == Some(sp_pos(doc, off)); line, col < u32::MAX — proved in unit c22_lineindex '
        '(C22.doc.get_line_col, lemma_position_fits) under sp_doc_ok = c22 wf(line_index, text) [includes text.len() < 2^32 - 1] '
        'and sp_in_doc = offset <= text.len() on a char boundary; that the position is a FUNCTION of (document, offset) is the '
        'uniqueness of the line an offset lies on (as in unit c26_semantic_tokens)',
        'LuaDocument::to_lsp_range shim: r == Some(range of the LSP positions of range.start / range.end), start <= end — proved '
        'in unit c22_lineindex (C22.doc.to_lsp_range, C21.range-wellformed)',
        'axiom_line_col_monotonic (external_body proof fn): proved in unit c22_lineindex: lemma_line_col_monotonic + lemma_position_fits',
        'ASSUMPTION line-col-injective — axiom_line_col_injective (external_body proof fn on the shimmed LuaDocument positions): two '
        'char-boundary offsets of the document with the same (line, col) are the same offset. NOT re-proved in unit c22_lineindex on '
        'every run; it is the C22 round trip: c22 lemma_round_trip (C22.round-trip) + lemma_on_line — if a and b both lie on line l '
        'with column c then b satisfies offset_ok(l, c, b), so the round trip from a returns b, i.e. b == a (this derivation was '
        'checked once against the assembled c22 unit). Used only by lemma_lsp_injective: the handler compares TEXT ranges before it '
        'pushes, [C26.selection.strictly-growing] speaks about the LSP ranges returned',
        # ---- assumed: the syntax tree --------------------------------------------------------------------------------
        'rowan syntax tree, ASSUMED (shims on the single opaque element type `Syn`): prev_sibling_or_token / next_sibling_or_token '
        'return an element that ends before / starts after this one, in the same tree with the same parent, with fewer siblings '
        'before / after it (sp_before / sp_after: the finite sibling list); parent() == sp_parent; axiom_parent_contains: a '
        'parent\'s range contains its child\'s range, same tree, depth one less; typed child accessors (get_block, get_else_clause, '
        'get_literal) return direct children; `children()`-style accessors (get_else_if_clause_list, get_stats, '
        'children_with_tokens) return direct children in text order; descendants() yields nodes of the same tree; '
        'parent_ancestors() yields exactly the sp_depth(token) ancestors, nearest first',
        'iterator-returning tree accessors are shimmed as functions returning the Vec of what the iterator yields (get_stats, '
        'get_else_if_clause_list, children_with_tokens, descendants::<LuaAst>, parent_ancestors): the `for` loops over them are the '
        'repository text, the laziness of the iterators is not modelled (the loop bodies do not mutate the tree)',
        'all rowan / AST handle types (LuaSyntaxNode, LuaSyntaxToken, SyntaxElement, LuaBlock, LuaForStat, …) are aliases of ONE '
        'opaque type: the extracted code is type-checked against a superset of the real typing',
        'axiom_range_in_doc: every element of the tree parsed from a document has an ordered range whose ends are offsets of that '
        'document\'s text on char boundaries (C01: tree text == input text; tokens are whole chars). sp_tree(e) == sp_doc_id(doc) '
        '("the tree was parsed from this document\'s text": SemanticModel pairs get_root() with get_document()) is a PRECONDITION of '
        'the handler-level functions',
        'LuaKind / LuaTokenKind conversions (`.into()`) are uninterpreted functions; LuaTokenKind, LuaAst, LuaLiteralToken are '
        'transcribed with the variants the code names + `Other`',
        # ---- std ------------------------------------------------------------------------------------------------------
        'Option::get_or_insert_with, HashMap::get_mut: std doc contracts as assume_specification (get_mut: same text as unit '
        'c10_remove2); vx_into_iter_rev: std contract of Vec::into_iter + DoubleEndedIterator::rev (rule c26r-into-iter-rev)',
        'obeys_key_model::<LuaSyntaxId>() (LuaSyntaxId derives Hash/Eq on (LuaKind, TextRange)) is a precondition of every fn '
        'touching the symbol map; the Hash impl of the shim is external_body',
        'text-size shim (units/common/textsize.rs) + added here: Ord for TextSize (derived in text-size 1.1.1) and TextRange::cover '
        '(transcribed from text-size-1.1.1/src/range.rs:246-250 with its body, verified against its ensures: start = min of the '
        'starts, end = max of the ends; the assertion of TextRange::new is a precondition). `cover` is not yet in the Kani '
        'cross-check of the common shim (kani/shims)',
        'LuaDecl is opaque; LuaDecl::get_range() == sp_decl_range(decl) (uninterpreted)',
        'lsp_types::{Position, Range, FoldingRange, FoldingRangeKind, DocumentSymbol, SymbolKind, SymbolTag, SelectionRange} '
        'transcribed from emmy_lsp_types 0.1.0',
        # ---- shimmed callees --------------------------------------------------------------------------------------------
        'fold_range/imports.rs is_require_stat: shimmed callee WITHOUT contract (the fold property holds whatever it answers); '
        'Emmyrc projected to runtime.require_like_function',
        'document_selection_range/mod.rs add_detail_ranges: shimmed callee; ASSUMED to only append ranges of the model\'s document '
        '(nothing assumed about their nesting, order or distinctness)',
    ],
    'call_site_assumptions': [
        'FoldingRangeBuilder::begin_region / finish_region: the argument is a range of the document (the only call sites, '
        'fold_range/comment.rs:30 and :32, are INSIDE the unit: build_comment_fold_range passes token.text_range() of a child token)',
        'DocumentSymbolBuilder::add_node_symbol / add_token_symbol preconditions (NOT checked by the builder, which neither '
        'clamps nor compares ranges): (a) sym_ok: the symbol\'s selection range, if any, lies inside its range; (b) the id is fresh; '
        '(c) the new symbol\'s range lies inside the range of the symbol stored under `parent`. 17 call sites:',
        '  (a) selection inside range — with_selection_range is called at 3 sites: stats.rs:207 build_func_stat_symbol (name node, '
        'a child of the statement: PROVED, slice build_func_stat_symbol::symbol); comment.rs:39 build_doc_region_symbol (`--region` '
        'token, a child of the comment: PROVED, slices ::region_token + ::symbol); stats.rs:179 build_local_func_stat_symbol '
        '(name_range = decl.get_range() from the declaration index: ASSUMED to be the range of the name token, by reading '
        'emmylua_code_analysis decl analysis; not under contract). All other sites use LuaSymbol::new (no selection range)',
        '  (c) range inside parent\'s range — by reading: parent ids are the symbols of enclosing syntactic constructs whose range '
        'is their node range (root mod.rs:57, for stats.rs:111/143 (+ loop variables :125/:158), if/clauses stats.rs:225/241, do '
        'stats.rs:263, func stats.rs:187/209, closure expr.rs:58, table expr.rs:102) or a binding symbol of a local / assignment '
        'statement (stats.rs:49/88). For the binding symbols the range is under contract (slices '
        'build_local_stat_symbol::binding_range / build_assign_stat_symbol::binding_range, [C26.symbols.child-inside-parent]): it '
        'lies inside the statement and contains the value expression, under which mod.rs:133/141 process_expr(.., binding.symbol_id, '
        'true) hangs the closure (expr.rs:58), its parameters (expr.rs:80) and the table fields (expr.rs:117). That those children '
        'lie inside the value expression (they are its descendants) is by reading',
        'binding_range slices, ASSUMED of the statements in front of them: decl.get_range() (declaration index) is the range of the '
        'name (LuaLocalName / the assigned LuaVarExpr), a child of the statement, hence inside the statement\'s range; '
        '`local_values.get(index)` / `exprs.get(index)` is a direct child expression of the statement (get_value_exprs = children(); '
        'get_var_and_expr_list collects child nodes); ranges of tree elements are ordered',
        'DocumentSymbolBuilder::build: the root chunk\'s id is stored (mod.rs:57 adds it first; nothing removes keys) — by reading',
        'build_child_symbol terminates because the child links are acyclic (table_ok carries a rank function): PROVED to be '
        'preserved by new / add_node_symbol / add_token_symbol / link_parent_child under (b) and parent != child',
    ],
    # both defects this unit had found were REPAIRED in the repository; their clauses are regular obligations now
    'fixed_findings': [
        {'clause': 'C26 selection ranges strictly grow outward',
         'status': 'fixed', 'commit': '604fa2e',
         'fix': 'document_selection_range/mod.rs:47-53: an ancestor range is pushed only `if ranges.last() != Some(&range)`',
         'was': 'every ancestor range was pushed, equal or not: document "local x = 1", selectionRange at 0:6 gave the chain of text '
                'ranges 6..7 (token x), 6..7 (LocalName), 0..11 (LocalStat), 0..11 (Block), 0..11 (Chunk) — parent.range == range at 3 '
                'of the 4 links',
         'now proved as': 'selection_chain [C26.selection.strictly-growing] (+ loop invariant [C26.selection.strictly-growing.inv])',
         'guarded by mutants': ['selection-guard-removed', 'selection-guard-inverted']},
        {'clause': 'C26 document symbols nest within their parents',
         'status': 'fixed', 'commit': '52fd530',
         'fix': 'document_symbol/stats.rs:37-45 and :75-83: with more than one name the binding symbol\'s range is '
                'decl.get_range().cover(expr.get_range()) when the name has a value expression (the name only when it has none, and '
                'then nothing is hung under it)',
         'was': 'range = decl.get_range() (the NAME only) while mod.rs hangs the symbols of the value expression under it: document '
                '"local a, b = function() end, 2": symbol a 0:6-0:7 had child "closure" 0:13-0:27; "a, b = { x = 1 }, 2": a 0:0-0:1 had '
                'child x 0:9-0:14',
         'now proved as': 'build_local_stat_symbol::binding_range / build_assign_stat_symbol::binding_range '
                          '[C26.symbols.child-inside-parent]',
         'guarded by mutants': ['local-binding-range-name-only', 'assign-binding-range-name-only', 'local-binding-range-value-only',
                                'assign-binding-simple-uses-name']},
    ],
    'not_covered': [
        'selection ranges inside a doc description (the add_detail_ranges path): the detail ranges produced by add_detail_ranges '
        '(parse_desc items sorted by length and filtered by `contains(offset)`) are not shown to be nested in each other, to differ '
        'from each other, or to lie inside the description node; add_detail_ranges is a shimmed callee. Proved there: from the entry '
        'that stands for the description node on, the chain is the ancestry of the token and grows strictly; the link from the last '
        'detail range to the first ancestor range pushed is only known to be a link between DIFFERENT text ranges (the guard), not '
        'to be a containment',
        'the handler prologues (uri -> file id -> semantic model, position -> offset -> token_at_offset) and on_document_symbol '
        'stripping the root symbol',
        'document_symbol/{mod,stats,expr}.rs traversal (process_block/process_stat/process_expr, build_*_symbol other than the '
        'three with_selection_range slices and the two binding_range slices): that it satisfies the preconditions of add_node_symbol '
        'is by reading (see call_site_assumptions (c)); the binding_range slices cover the range computation only, not the loop '
        'around it (decl lookup, LuaSymbol::new, add_node_symbol, SymbolBinding)',
        'DocumentSymbolBuilder::{get_file_id, get_decl, get_type, with_symbol_mut, get_symbol_kind_and_detail}, '
        'LuaSymbol::{set_kind, set_detail} (do not touch ranges or links)',
        'folding: Intellij branch sets character = start_col + 1 (may point past the end of the line); that lines exist in the '
        'document is inherited from c22 (positions of in-text offsets)',
        'completion main edit (sentence 4) and workspace-edit overlap (sentence 5): not covered',
        'columns are counts of Unicode scalar values (unit c22), not UTF-16 code units (property C23)',
    ],
    'samples': [
        'FoldingRangeBuilder::build: fb_inv ==> every returned FoldingRange has start_line <= end_line (and start_character <= end_character on one line)',
        'finish_region: pops the innermost open region; pushes ONE range from pos(min(starts)) to pos(max(ends)); empty stack: nothing happens',
        'get_block_collapsed_range: the element in front of the block ends before the element behind it starts ==> ordered range',
        'build_imports_fold_range: start of the first .. end of the last require statement of a run',
        'DocumentSymbolBuilder::build: table_ok ==> ds_sel_ok(r) && ds_nest_ok(r) (recursively: selection inside range, child range inside parent range)',
        'add_node_symbol: table_ok preserved (ranges nest along links, links closed and acyclic) under the call-site preconditions',
        'selection_chain: outside descriptions the chain is the ancestry of the token with equal-range ancestors left out; '
        'chain[i] inside chain[i+1] and chain[i] != chain[i+1] (LSP ranges)',
        'local_binding_range / assign_binding_range: name and value expression inside the result, result inside the statement',
    ],
    'mutants': [
        # ---- folding -----------------------------------------------------------------------------------------------------
        {'name': 'fold-for-swapped-lines', 'item': 'build_for_stat_fold_range',
         'pattern': r'start_line: folding_lsp_range\.start\.line,(.*?)end_line: folding_lsp_range\.end\.line,',
         'repl': r'start_line: folding_lsp_range.end.line,\1end_line: folding_lsp_range.start.line,',
         'expect': r'build_for_stat_fold_range.*C26\.fold\.start-le-end'},
        {'name': 'fold-string-start-from-end-line', 'item': 'build_string_fold_range',
         'pattern': r'start_line: lsp_range\.start\.line,', 'repl': 'start_line: lsp_range.end.line,',
         'expect': r'build_string_fold_range.*C26\.fold\.start-le-end'},
        {'name': 'fold-if-swapped', 'item': 'build_if_stat_fold_range',
         'pattern': r'start_line: range\.start\.line,(.*?)end_line: range\.end\.line,',
         'repl': r'start_line: range.end.line,\1end_line: range.start.line,',
         'expect': r'build_if_stat_fold_range.*C26\.fold\.start-le-end'},
        {'name': 'finish-region-begin-end-as-start', 'item': 'FoldingRangeBuilder::finish_region',
         'pattern': r'start\.start\(\)\.min\(range\.start\(\)\)', 'repl': 'start.end()',
         'expect': r'finish_region.*C26\.fold\.region-pairing'},
        {'name': 'finish-region-no-min-max', 'item': 'FoldingRangeBuilder::finish_region',
         'pattern': r'let region_start_offset = start\.start\(\)\.min\(range\.start\(\)\);(\s*)let region_end_offset = start\.end\(\)\.max\(range\.end\(\)\);',
         'repl': r'let region_start_offset = range.start();\1let region_end_offset = start.end();',
         'expect': r'finish_region.*C26\.fold\.start-le-end'},
        {'name': 'finish-region-does-not-pop', 'item': 'FoldingRangeBuilder::finish_region',
         'pattern': r'self\.region_starts\.pop\(\)',
         'repl': '(if self.region_starts.len() > 0 { Some(self.region_starts[self.region_starts.len() - 1]) } else { None })',
         'expect': r'finish_region.*C26\.fold\.region-pairing'},
        {'name': 'collapsed-range-ends-swapped', 'item': 'FoldingRangeBuilder::get_block_collapsed_range',
         'pattern': r'get_line_col\(prefix_node\.text_range\(\)\.end\(\)\)\?;(.*?)get_line_col\(next_node\.text_range\(\)\.start\(\)\)\?;',
         'repl': r'get_line_col(next_node.text_range().start())?;\1get_line_col(prefix_node.text_range().end())?;',
         'expect': r'get_block_collapsed_range.*C26\.fold\.start-le-end'},
        {'name': 'intellij-start-on-end-line', 'item': 'FoldingRangeBuilder::get_folding_lsp_range',
         'pattern': r'line: start_line as u32,(\s*)character: start_col as u32,', 'repl': r'line: end_line as u32,\1character: start_col as u32,',
         'expect': r'get_folding_lsp_range.*C26\.fold\.start-le-end'},
        {'name': 'vscode-end-line-zero', 'item': 'FoldingRangeBuilder::get_folding_lsp_range',
         'pattern': r'end: lsp_types::Position \{(\s*)line: end_line as u32,(\s*)character: 0,', 'repl': r'end: lsp_types::Position {\1line: 0,\2character: 0,',
         'expect': r'get_folding_lsp_range.*C26\.fold\.start-le-end'},
        {'name': 'imports-swapped', 'item': 'build_imports_fold_range',
         'pattern': r'get_line_col\(start_pos\)\?;(.*?)get_line_col\(end_pos\)\?;', 'repl': r'get_line_col(end_pos)?;\1get_line_col(start_pos)?;',
         'expect': r'build_imports_fold_range.*C26\.fold\.start-le-end'},
        {'name': 'imports-start-and-end-of-statement-swapped', 'item': 'build_imports_fold_range',
         'pattern': r'start = Some\(range\.start\(\)\);(.*?)end = Some\(range\.end\(\)\);', 'repl': r'start = Some(range.end());\1end = Some(range.start());',
         'expect': r'build_imports_fold_range.*C26\.fold'},
        {'name': 'push-drops-range', 'item': 'FoldingRangeBuilder::push',
         'pattern': r'self\.folding_ranges\.push\(folding_range\);', 'repl': '', 'expect': r'push.*C26\.fold\.push'},
        {'name': 'build-returns-empty', 'item': 'FoldingRangeBuilder::build',
         'pattern': r'self\.folding_ranges', 'repl': 'Vec::new()', 'expect': r'build.*C26\.fold\.build-returns-pushed'},
        # ---- document symbols ------------------------------------------------------------------------------------------------
        {'name': 'with-selection-range-stores-range', 'item': 'LuaSymbol::with_selection_range',
         'pattern': r'selection_range: Some\(selection_range\),', 'repl': 'selection_range: Some(range),',
         'expect': r'with_selection_range.*C26\.symbols\.with-selection-range'},
        {'name': 'new-stores-other-range', 'item': 'LuaSymbol::new',
         'pattern': r'(kind,\s*)range,', 'repl': r'\1range: TextRange::empty(range.end()),',
         'expect': r'LuaSymbol::new.*C26\.symbols\.new'},
        {'name': 'child-symbol-range-and-selection-swapped', 'item': 'DocumentSymbolBuilder::build_child_symbol',
         'pattern': r'range: lsp_range,(\s*)selection_range: lsp_selection_range,', 'repl': r'range: lsp_selection_range,\1selection_range: lsp_range,',
         'expect': r'build_child_symbol.*C26\.symbols\.selection-inside-range'},
        {'name': 'root-symbol-selection-is-whole-range-swapped', 'item': 'DocumentSymbolBuilder::build',
         'pattern': r'range: lsp_range,(\s*)selection_range: lsp_selection_range,', 'repl': r'range: lsp_selection_range,\1selection_range: lsp_range,',
         'expect': r'DocumentSymbolBuilder::build:.*C26\.symbols\.selection-inside-range'},
        {'name': 'child-recursion-on-same-symbol', 'item': 'DocumentSymbolBuilder::build_child_symbol',
         'pattern': r'self\.build_child_symbol\(&mut lsp_document_symbol, child_symbol\);', 'repl': 'self.build_child_symbol(&mut lsp_document_symbol, symbol);',
         'expect': r'build_child_symbol:(decreases|could-not-prove-termination|precondition-not-satisfied)'},
        {'name': 'link-reversed', 'item': 'DocumentSymbolBuilder::link_parent_child',
         'pattern': r'get_mut\(&parent\)', 'repl': 'get_mut(&child)',
         'expect': r'link_parent_child'},
        {'name': 'add-node-links-parent-under-child', 'item': 'DocumentSymbolBuilder::add_node_symbol',
         'pattern': r'self\.link_parent_child\(parent_id, syntax_id\);', 'repl': 'self.link_parent_child(syntax_id, parent_id);',
         'expect': r'add_node_symbol'},
        {'name': 'add-child-drops-child', 'item': 'LuaSymbol::add_child',
         'pattern': r'self\.children\.push\(child\);', 'repl': '', 'expect': r'add_child.*C26\.symbols\.add-child'},
        {'name': 'func-symbol-range-args-swapped', 'item': 'build_func_stat_symbol::symbol',
         'pattern': r'desc\.0, full_range, name_range\)', 'repl': 'desc.0, name_range, full_range)',
         'expect': r'build_func_stat_symbol::symbol.*C26\.symbols\.selection-inside-range'},
        {'name': 'region-symbol-range-args-swapped', 'item': 'build_doc_region_symbol::symbol',
         'pattern': r'range,(\s*)selection_range,(\s*)\);', 'repl': r'selection_range,\1range,\2);',
         'expect': r'build_doc_region_symbol::symbol.*C26\.symbols\.selection-inside-range'},
        # the repair of former finding F2 (commit 52fd530) undone: a multi-name binding's range is the name only again
        {'name': 'local-binding-range-name-only', 'item': 'build_local_stat_symbol::binding_range',
         'pattern': r'decl\.get_range\(\)\.cover\(expr\.get_range\(\)\)', 'repl': 'decl.get_range()',
         'expect': r'build_local_stat_symbol::binding_range.*C26\.symbols\.child-inside-parent'},
        {'name': 'assign-binding-range-name-only', 'item': 'build_assign_stat_symbol::binding_range',
         'pattern': r'decl\.get_range\(\)\.cover\(expr\.get_range\(\)\)', 'repl': 'decl.get_range()',
         'expect': r'build_assign_stat_symbol::binding_range.*C26\.symbols\.child-inside-parent'},
        {'name': 'local-binding-range-value-only', 'item': 'build_local_stat_symbol::binding_range',
         'pattern': r'decl\.get_range\(\)\.cover\(expr\.get_range\(\)\)', 'repl': 'expr.get_range()',
         'expect': r'build_local_stat_symbol::binding_range.*C26\.symbols\.child-inside-parent'},
        {'name': 'assign-binding-simple-uses-name', 'item': 'build_assign_stat_symbol::binding_range',
         'pattern': r'assign_stat\.get_range\(\)', 'repl': 'decl.get_range()',
         'expect': r'build_assign_stat_symbol::binding_range.*C26\.symbols\.(child-inside-parent|simple-binding-is-statement)'},
        # ---- selection ranges ------------------------------------------------------------------------------------------------
        {'name': 'selection-chain-not-reversed', 'item': 'selection_chain',
         'pattern': r'ranges\.into_iter\(\)\.rev\(\)', 'repl': 'ranges.into_iter()',
         'expect': r'selection_chain.*C26\.selection'},
        {'name': 'selection-ancestors-push-token-range', 'item': 'selection_chain',
         'pattern': r'let range = ancestor\.text_range\(\);', 'repl': 'let range = token.text_range();',
         'expect': r'selection_chain.*C26\.selection'},
        # the repair of former finding F1 (commit 604fa2e) undone: every ancestor range is pushed, equal or not
        {'name': 'selection-guard-removed', 'item': 'selection_chain',
         'pattern': r'if ranges\.last\(\) != Some\(&range\) \{\s*ranges\.push\(range\);\s*\}', 'repl': 'ranges.push(range);',
         'expect': r'selection_chain.*C26\.selection\.strictly-growing'},
        {'name': 'selection-guard-inverted', 'item': 'selection_chain',
         'pattern': r'if ranges\.last\(\) != Some\(&range\)', 'repl': 'if ranges.last() == Some(&range)',
         'expect': r'selection_chain.*C26\.selection\.(strictly-growing|chain-is-ancestry)'},
        {'name': 'selection-parent-link-dropped', 'item': 'selection_chain',
         'pattern': r'range: lsp_range,(\s*)parent,', 'repl': r'range: lsp_range,\1parent: None,',
         'expect': r'selection_chain.*(C26\.selection|precondition-not-satisfied)'},
    ],
}
# the call-site assumptions are part of the trusted base reported in the evidence
UNIT['trusted'] = UNIT['trusted'] + UNIT['call_site_assumptions']
