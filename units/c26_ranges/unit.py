"""unit c26_ranges — C26, the sentences about folding ranges, document symbols and selection ranges.

All code under proof is extracted from crates/emmylua_ls/src/handlers/{fold_range,document_symbol,document_selection_range}
on every run. The syntax tree (rowan) and LuaDocument are shims: LuaDocument's contracts are the ones PROVED in unit
c22_lineindex; the tree contracts (sibling order, ancestry containment, ranges inside the text) are ASSUMED and listed
under `trusted`.
"""
import re

H = 'crates/emmylua_ls/src/handlers/'
FB = H + 'fold_range/builder.rs'
FST = H + 'fold_range/stats.rs'
FEX = H + 'fold_range/expr.rs'
FCO = H + 'fold_range/comment.rs'
FIM = H + 'fold_range/imports.rs'
FMOD = H + 'fold_range/mod.rs'
SB = H + 'document_symbol/builder.rs'
SEL = H + 'document_selection_range/mod.rs'


def fn(file, name, owner=None, **kw):
    src = {'file': file, 'kind': 'fn', 'name': name}
    if owner:
        src['impl'] = owner
    d = {'src': src}
    d.update(kw)
    return d


# ---------------------------------------------------------------------------------------------------------------
# folding ranges
# ---------------------------------------------------------------------------------------------------------------
FOLD_LABEL = '/*@C26.fold.start-le-end*/'
B_REQ = 'fb_inv(old(builder))'
B_ENS = ('fb_inv(final(builder)) ' + FOLD_LABEL + ',\n        fb_frame(old(builder), final(builder)) /*@C26.fold.frame*/')
ASSERT_PUSH = (r'builder\.push\(folding_range\);', 'before',
               'proof { assert(fold_ok(folding_range)) ' + FOLD_LABEL + '; }')


def block_stat(name, param):
    """the five `build_<x>_stat_fold_range` + `build_closure_expr_fold_range`: block of the statement -> collapsed range -> push"""
    return fn(FST if param != 'closure' else FEX, name,
              requires=B_REQ + ', sp_tree(%s) == sp_doc_id(old(builder).document)' % param,
              ensures=B_ENS,
              proof=[ASSERT_PUSH])


FOLD_ITEMS = {
    'ClientId': {'src': {'file': 'crates/emmylua_ls/src/context/client_id.rs', 'kind': 'enum', 'name': 'ClientId'},
                 'rules': ['c26r-drop-default-attr'], 'attrs': '#[derive(Clone, Copy)]'},
    'FoldingRangeBuilder': {'src': {'file': FB, 'kind': 'struct', 'name': 'FoldingRangeBuilder'},
                            'rules': [('struct-fields', {})]},
    'FoldingRangeBuilder::new': fn(
        FB, 'new', 'FoldingRangeBuilder', ret='r',
        ensures='''r.document == document && r.root == root && r.client_id == client_id
            && r.folding_ranges@.len() == 0 && r.region_starts@.len() == 0 /*@C26.fold.new*/,
        sp_doc_ok(document) ==> fb_inv(&r) ''' + FOLD_LABEL),
    'FoldingRangeBuilder::get_root': fn(FB, 'get_root', 'FoldingRangeBuilder', ret='r', ensures='*r == self.root'),
    'FoldingRangeBuilder::get_document': fn(FB, 'get_document', 'FoldingRangeBuilder', ret='r', ensures='r == self.document'),
    'FoldingRangeBuilder::build': fn(
        FB, 'build', 'FoldingRangeBuilder', ret='r',
        ensures='''r@ == self.folding_ranges@ /*@C26.fold.build-returns-pushed*/,
        // the response of textDocument/foldingRange: every range is ordered (builder invariant)
        fb_inv(&self) ==> forall|i: int| 0 <= i < r@.len() ==> fold_ok(#[trigger] r@[i]) ''' + FOLD_LABEL),
    'FoldingRangeBuilder::push': fn(
        FB, 'push', 'FoldingRangeBuilder',
        requires='fold_ok(folding_range)',
        ensures='''final(self).folding_ranges@ == old(self).folding_ranges@.push(folding_range) /*@C26.fold.push*/,
        final(self).region_starts == old(self).region_starts && fb_frame(old(self), final(self)) /*@C26.fold.frame*/,
        fb_inv(old(self)) ==> fb_inv(final(self)) ''' + FOLD_LABEL),
    'FoldingRangeBuilder::begin_region': fn(
        FB, 'begin_region', 'FoldingRangeBuilder',
        # call site (comment.rs): the range of a `--region` token of the document's own tree
        requires='range_in_doc(old(self).document, range)',
        ensures='''final(self).region_starts@ == old(self).region_starts@.push(range) /*@C26.fold.region-pairing*/,
        final(self).folding_ranges == old(self).folding_ranges && fb_frame(old(self), final(self)) /*@C26.fold.frame*/,
        fb_inv(old(self)) ==> fb_inv(final(self)) ''' + FOLD_LABEL),
    'FoldingRangeBuilder::finish_region': fn(
        FB, 'finish_region', 'FoldingRangeBuilder',
        # call site (comment.rs): the range of an `--endregion` token of the document's own tree. NOTHING is assumed about
        # the order of `range` and the popped `--region` range: the code takes min of the starts and max of the ends
        requires='fb_inv(old(self)), range_in_doc(old(self).document, range)',
        ensures='''fb_inv(final(self)) ''' + FOLD_LABEL + ''',
        fb_frame(old(self), final(self)) /*@C26.fold.frame*/,
        // an `--endregion` without an open `--region` is ignored (no panic, nothing pushed)
        old(self).region_starts@.len() == 0 ==> final(self).folding_ranges@ == old(self).folding_ranges@
            && final(self).region_starts@ == old(self).region_starts@ /*@C26.fold.region-unmatched-end-ignored*/,
        // otherwise it closes the innermost open region: one range from the smaller start to the larger end
        old(self).region_starts@.len() > 0 ==> ({
            let start = old(self).region_starts@.last();
            let lo = if start.start.raw <= range.start.raw { start.start } else { range.start };
            let hi = if start.end.raw >= range.end.raw { start.end } else { range.end };
            &&& final(self).region_starts@ == old(self).region_starts@.drop_last()
            &&& final(self).folding_ranges@.len() == old(self).folding_ranges@.len() + 1
            &&& final(self).folding_ranges@.drop_last() == old(self).folding_ranges@
            &&& final(self).folding_ranges@.last().start_line == doc_lsp_pos(old(self).document, lo).line
            &&& final(self).folding_ranges@.last().end_line == doc_lsp_pos(old(self).document, hi).line
        }) /*@C26.fold.region-pairing*/''',
        proof=[
            (r'let folding_range = FoldingRange \{', 'before', '''proof {
                assert(range_in_doc(self.document, start));
                axiom_line_col_monotonic(self.document, region_start_offset, region_end_offset);
            }'''),
            (r'self\.push\(folding_range\);', 'before', 'proof { assert(fold_ok(folding_range)) ' + FOLD_LABEL + '; }'),
            (r'self\.push\(folding_range\);', 'after',
             'proof { assert(self.folding_ranges@.drop_last() =~= old(self).folding_ranges@); }'),
        ]),
    'FoldingRangeBuilder::get_folding_lsp_range': fn(
        FB, 'get_folding_lsp_range', 'FoldingRangeBuilder', ret='r',
        # call sites: lines/columns of two positions of the document in offset order (c22: < 2^32 - 1)
        requires='start_line <= end_line, end_line <= u32::MAX, start_col < usize::MAX',
        ensures='''r matches Some(rg) ==> pos_le(rg.start, rg.end) ''' + FOLD_LABEL + ''',
        start_line == end_line ==> r is None /*@C26.fold.single-line-not-folded*/'''),
    'FoldingRangeBuilder::get_block_collapsed_range': fn(
        FB, 'get_block_collapsed_range', 'FoldingRangeBuilder', ret='r',
        requires='sp_doc_ok(self.document), sp_tree(block) == sp_doc_id(self.document)',
        ensures='r matches Some(rg) ==> pos_le(rg.start, rg.end) ' + FOLD_LABEL,
        loops={
            0: '''invariant
                sp_range(prefix_node).end.raw <= sp_range(*syntax_node).start.raw,
                sp_tree(prefix_node) == sp_tree(*syntax_node), sp_tree(*syntax_node) == sp_doc_id(self.document),
            decreases sp_before(prefix_node)''',
            1: '''invariant
                sp_range(*syntax_node).end.raw <= sp_range(next_node).start.raw,
                sp_tree(next_node) == sp_tree(*syntax_node), sp_tree(*syntax_node) == sp_doc_id(self.document),
            decreases sp_after(next_node)''',
        },
        proof=[
            (r'let parent = syntax_node\.parent\(\)\?;', 'after', 'proof { axiom_parent_contains(*syntax_node); }'),
            # transitivity through the skipped trivia element needs ITS range to be ordered
            (r'prefix_node = prefix_node\.prev_sibling_or_token\(\)\?;', 'before', 'proof { axiom_range_in_doc(self.document, prefix_node); }'),
            (r'next_node = next_node\.next_sibling_or_token\(\)\?;', 'before', 'proof { axiom_range_in_doc(self.document, next_node); }'),
            (r'let document = self\.get_document\(\);', 'after', '''proof {
                // the element in front of the block ends before the block starts, the element behind it starts after it ends
                axiom_range_in_doc(document, *syntax_node);
                axiom_range_in_doc(document, prefix_node);
                axiom_range_in_doc(document, next_node);
                axiom_line_col_monotonic(document, sp_range(prefix_node).end, sp_range(next_node).start);
            }'''),
        ]),
    'build_for_stat_fold_range': block_stat('build_for_stat_fold_range', 'for_stat'),
    'build_for_range_stat_fold_range': block_stat('build_for_range_stat_fold_range', 'for_range_stat'),
    'build_while_stat_fold_range': block_stat('build_while_stat_fold_range', 'while_stat'),
    'build_repeat_stat_fold_range': block_stat('build_repeat_stat_fold_range', 'repeat_stat'),
    'build_do_stat_fold_range': block_stat('build_do_stat_fold_range', 'do_stat'),
    'build_closure_expr_fold_range': block_stat('build_closure_expr_fold_range', 'closure'),
    'build_if_stat_fold_range': fn(
        FST, 'build_if_stat_fold_range',
        requires=B_REQ + ', sp_tree(if_stat) == sp_doc_id(old(builder).document)',
        ensures=B_ENS,
        iter_names={0: 'it', 1: 'it2'},
        loops={
            0: '''invariant
                *builder == *old(builder), fb_inv(builder), sp_tree(if_stat) == sp_doc_id(builder.document),
                ordered_children(it.seq(), if_stat),
                forall|k: int| 0 <= k < collapsed_range_text@.len() ==> pos_le((#[trigger] collapsed_range_text@[k]).0.start, collapsed_range_text@[k].0.end),''',
            1: '''invariant
                fb_inv(builder), fb_frame(old(builder), builder),
                forall|k: int| 0 <= k < it2.seq().len() ==> pos_le((#[trigger] it2.seq()[k]).0.start, it2.seq()[k].0.end),''',
        },
        proof=[ASSERT_PUSH]),
    'build_table_expr_fold_range': fn(
        FEX, 'build_table_expr_fold_range',
        requires=B_REQ + ', sp_tree(table_expr) == sp_doc_id(old(builder).document)',
        ensures=B_ENS,
        proof=[(r'let lsp_range = document\.to_lsp_range\(expr_range\)\?;', 'before',
                'proof { axiom_range_in_doc(document, table_expr); }'),
               ASSERT_PUSH]),
    'build_string_fold_range': fn(
        FEX, 'build_string_fold_range',
        requires=B_REQ + ', sp_tree(literal) == sp_doc_id(old(builder).document)',
        ensures=B_ENS,
        proof=[(r'let lsp_range = document\.to_lsp_range\(range\)\?;', 'before',
                'proof { axiom_range_in_doc(document, string_token); }'),
               ASSERT_PUSH]),
    'build_comment_fold_range': fn(
        FCO, 'build_comment_fold_range',
        requires=B_REQ + ', sp_tree(comment) == sp_doc_id(old(builder).document)',
        ensures=B_ENS,
        iter_names={0: 'it'},
        loops={0: '''invariant
                fb_inv(builder), fb_frame(old(builder), builder), sp_tree(comment) == sp_doc_id(builder.document),
                forall|i: int| 0 <= i < it.seq().len() ==> child_of(#[trigger] not_syn(it.seq()[i]), comment),'''},
        proof=[(r'let lsp_range = document\.to_lsp_range\(range\)\?;', 'before',
                'proof { axiom_range_in_doc(document, comment); }'),
               ASSERT_PUSH,
               (r'if token\.kind\(\) == LuaTokenKind::TkDocRegion\.into\(\) \{', 'before',
                'proof { assert(child_of(not_syn(child), comment)); axiom_range_in_doc(builder.document, token); }')]),
    'build_imports_fold_range': fn(
        FIM, 'build_imports_fold_range',
        requires=B_REQ + ', sp_tree(root) == sp_doc_id(old(builder).document)',
        ensures=B_ENS,
        iter_names={0: 'it'},
        loops={0: '''invariant
                fb_inv(builder), fb_frame(old(builder), builder), sp_tree(root_block) == sp_doc_id(builder.document),
                ordered_children(it.seq(), root_block),
                start is Some ==> end is Some,
                // the run of require statements collected so far: from the start of its first to the end of its last
                // statement, and every statement still to come starts after it
                (start is Some && end is Some) ==> ({
                    let s = start->Some_0; let e = end->Some_0;
                    &&& s.raw <= e.raw && sp_in_doc(builder.document, s) && sp_in_doc(builder.document, e)
                    &&& forall|k: int| it.index@ <= k < it.seq().len() ==> e.raw <= sp_range(#[trigger] it.seq()[k]).start.raw
                }),'''},
        proof=[(r'if is_require_stat\(stat\.clone\(\), require_like_func\)\.unwrap_or\(false\) \{', 'before',
                'proof { assert(child_of(it.seq()[it.index@], root_block)); axiom_range_in_doc(builder.document, stat); }'),
               (r'let fold_range = FoldingRange \{', 'before',
                'proof { axiom_line_col_monotonic(builder.document, start_pos, end_pos); }'),
               (r'builder\.push\(fold_range\);', 'before', 'proof { assert(fold_ok(fold_range)) ' + FOLD_LABEL + '; }')]),
    'build_folding_ranges': fn(
        FMOD, 'build_folding_ranges',
        requires=B_REQ + ', fb_tree(old(builder))',
        ensures=B_ENS,
        iter_names={0: 'it'},
        loops={0: '''invariant
                fb_inv(builder), fb_frame(old(builder), builder), fb_tree(builder), root == builder.root,
                forall|i: int| 0 <= i < it.seq().len() ==> (ast_syn(#[trigger] it.seq()[i]) matches Some(x) ==> sp_tree(x) == sp_tree(root)),'''}),
}

# ---------------------------------------------------------------------------------------------------------------
# selection ranges
# ---------------------------------------------------------------------------------------------------------------
SEL_HOST = {'file': SEL, 'kind': 'fn', 'name': 'on_document_selection_range_handle'}
SEL_ITEMS = {
    # the body of the handler's `for pos in position` loop from the point where the token under the cursor is known: builds
    # the chain of text ranges (token or description details, then every ancestor node), converts it outermost-first
    # into the linked SelectionRange and pushes it
    'selection_chain': {
        'src': {'kind': 'slice', 'name': 'selection_chain', 'in': SEL_HOST,
                'from': r'let mut ranges = Vec::new\(\);',
                'to': r'result\.push\(\*selection_range\);\s*\}',
                'head': '''pub fn selection_chain(semantic_model: SemanticModel, document: LuaDocument, token: LuaSyntaxToken, offset: TextSize,
        mut result: Vec<SelectionRange>) -> Option<Vec<SelectionRange>>''',
                'tail': 'Some(result)'},
        'rules': ['c26r-into-iter-rev'],
        'ret': 'r',
        'requires': '''sp_doc_ok(&document),
            // the token was found in the tree parsed from this document (root.syntax().token_at_offset), and the model's
            // document is this document (`semantic_model.get_document()`)
            sp_tree(token) == sp_doc_id(&document), sp_model_doc(&semantic_model) == sp_doc_id(&document)''',
        'ensures': '''
            r matches Some(res) ==> result@.is_prefix_of(res@) && res@.len() <= result@.len() + 1 /*@C26.selection.frame*/,
            // outside a doc description one chain is produced: token, parent, grand-parent, … root
            r matches Some(res) ==> (!in_description(token) ==> res@.len() == result@.len() + 1
                && sel_ranges(res@.last()).len() == sp_depth(token) + 1
                && sel_ranges(res@.last())[0] == doc_lsp_range(&document, sp_range(token))) /*@C26.selection.chain-is-ancestry*/,
            // every parent range contains its child's range: on the whole chain outside a description, from the first
            // ancestor node on inside a description (the description detail ranges in front are not covered)
            r matches Some(res) ==> (res@.len() == result@.len() + 1 ==> {
                let ch = sel_ranges(res@.last());
                ch.len() >= sp_depth(token)
                    && growing_from(ch, if in_description(token) { ch.len() - sp_depth(token) } else { 0 })
            }) /*@C26.selection.parent-contains-child*/''',
        'iter_names': {0: 'it', 1: 'it2'},
        'loops': {
            0: '''invariant
                sp_doc_ok(&document), sp_tree(token) == sp_doc_id(&document),
                ancestor_chain(token, it.seq()),
                ranges@.len() == init.len() + it.index@,
                k == (if in_description(token) { init.len() as int } else { 0 }),
                !in_description(token) ==> init.len() == 1,
                it.index@ > 0 ==> ranges@.last() == sp_range(it.seq()[it.index@ - 1]),
                (it.index@ == 0 && !in_description(token)) ==> ranges@.last() == sp_range(token),
                ranges@.len() > 0 && !in_description(token) ==> ranges@[0] == sp_range(token),
                off_growing_from(&document, ranges@, k) /*@C26.selection.parent-contains-child.inv*/,''',
            1: '''invariant
                sp_doc_ok(&document),
                it2.seq() == rs.reverse(),
                forall|i: int| 0 <= i < rs.len() ==> range_in_doc(&document, #[trigger] rs[i]),
                (it2.index@ == 0) == (parent is None),
                parent matches Some(p) ==> sel_ranges(*p) == lsp_seq(&document, rs.subrange(rs.len() - it2.index@, rs.len() as int)) /*@C26.selection.chain-is-ancestry.inv*/,''',
        },
        'proof': [
            (r'for ancestor in token\.parent_ancestors\(\)', 'before', '''let ghost init = ranges@;
            let ghost k: int = if in_description(token) { init.len() as int } else { 0 };
            proof {
                axiom_range_in_doc(&document, token);
                assert(off_growing_from(&document, ranges@, k));
            }'''),
            (r'let range = ancestor\.text_range\(\);', 'before', '''proof {
                lemma_chain(token, it.seq(), it.index@ as int);
                axiom_range_in_doc(&document, ancestor);
            }'''),
            (r'let mut parent: Option<Box<SelectionRange>> = None;', 'before', 'let ghost rs = ranges@;'),
            (r'let lsp_range = document\.to_lsp_range\(range\)\?;', 'before', '''let ghost oldp = parent;
            proof { assert(range == rs[rs.len() - 1 - it2.index@]); }'''),
            (r'parent = Some\(Box::new\(selection_range\)\);', 'after', '''proof {
                let n = rs.len() as int; let j = it2.index@ as int;
                let now = lsp_seq(&document, rs.subrange(n - j - 1, n));
                let before = lsp_seq(&document, rs.subrange(n - j, n));
                match oldp {
                    None => { assert(sel_ranges(*parent->Some_0) =~= now); }
                    Some(p) => { assert(seq![doc_lsp_range(&document, range)] + before =~= now); }
                }
            }'''),
            (r'result\.push\(\*selection_range\);', 'before', '''proof {
                assert(rs.subrange(0, rs.len() as int) =~= rs);
                lemma_growing_lsp(&document, rs, k);
            }'''),
        ],
    },
}

# ---------------------------------------------------------------------------------------------------------------
# document symbols
# ---------------------------------------------------------------------------------------------------------------
KEYS = 'vstd::std_specs::hash::obeys_key_model::<LuaSyntaxId>()'
HASH_AX = 'broadcast use vstd::std_specs::hash::group_hash_axioms;'
DOC_S = 'old(self).document'
M_OLD = 'old(self).document_symbols@'
M_FIN = 'final(self).document_symbols@'
SB_FRAME = 'final(self).document == old(self).document && final(self).db == old(self).db && final(self).decl_tree == old(self).decl_tree /*@C26.symbols.frame*/'


def add_symbol(name, elem):
    """add_node_symbol / add_token_symbol: same contract. `elem` = name of the element parameter."""
    node = elem == 'node'
    anc_pre = ('''forall|n: nat| n >= 1 ==> (#[trigger] nth_parent(%(e)s, n) matches Some(a) ==> id_of(a) != id_of(%(e)s)
                    && (%(m)s.contains_key(id_of(a)) ==> off_inside(symbol.range, %(m)s[id_of(a)].range)))''')
    # facts carried through the ancestor walk (loop isolation); m1 = the table right after the insert
    carried = '''
                ''' + KEYS + ''', sp_doc_ok(self.document), syntax_id == id_of(%(e)s),
                self.document == old(self).document && self.db == old(self).db && self.decl_tree == old(self).decl_tree,
                m1 == old(self).document_symbols@.insert(syntax_id, bsym), !old(self).document_symbols@.contains_key(syntax_id),
                bsym.children@.len() == 0 && bsym.range == symbol.range && bsym.selection_range == symbol.selection_range,
                table_ok(self.document, m1), table_extends(old(self).document_symbols@, m1),
                ''' + anc_pre + ','
    if node:
        walk = '''invariant_except_break
                nth_parent(node, n) == Some(current),
                self.document_symbols@ == m1,'''
        dec = 'sp_depth(current)'
    else:
        walk = '''invariant_except_break
                n >= 1 && node == nth_parent(token, n),
                self.document_symbols@ == m1,'''
        dec = '(match node { Some(x) => sp_depth(x) + 1, None => 0nat })'
    loop = (walk + '''
            invariant''' + carried + '''
            ensures
                table_ok(self.document, self.document_symbols@), table_extends(old(self).document_symbols@, self.document_symbols@),
                self.document_symbols@.contains_key(syntax_id) && self.document_symbols@[syntax_id].range == symbol.range
                    && self.document_symbols@[syntax_id].selection_range == symbol.selection_range,
            decreases ''' + dec) % {'e': elem, 'm': M_OLD}
    psym = 'parent_symbol' if node else 'symbol'
    proof = [
        (r'self\.document_symbols\.insert\(syntax_id, Box::new\(symbol\)\);', 'before',
         'let ghost bsym = Box::new(symbol);\nproof { lemma_insert_fresh(self.document, self.document_symbols@, syntax_id, bsym); }'),
        # the walk: `current` / `node` is the n-th ancestor of the element
        ((r'let mut current = node;' if node else r'let mut node = token\.parent\(\);'), 'after',
         'let ghost m1 = self.document_symbols@;\nlet ghost mut n: nat = %s;\nproof { %s }'
         % (('0', '') if node else ('1', 'assert(nth_parent(token, 1) == sp_parent(token)) by { assert(nth_parent(token, 0) == Some(token)); }'))),
        (r'let parent_syntax_id = LuaSyntaxId::new\(parent_node\.kind\(\), parent_node\.text_range\(\)\);', 'before',
         ('''proof {
                axiom_parent_contains(current);
                assert(nth_parent(node, n + 1) == Some(parent_node));
            }''' if node else '''proof {
                assert(nth_parent(token, n) == Some(parent_node));
            }''')),
        (r'(?:parent_symbol|symbol)\.add_child\(syntax_id\);', 'after',
         '''proof {
                // the nearest ancestor that has a symbol: not the element itself, and (precondition) its range contains the new one
                assert(m1.contains_key(parent_syntax_id) && parent_syntax_id != syntax_id);
                assert(old(self).document_symbols@.contains_key(parent_syntax_id) && m1[parent_syntax_id] == old(self).document_symbols@[parent_syntax_id]);
                lemma_link(self.document, m1, parent_syntax_id, syntax_id, *%s);
                assert(table_extends(old(self).document_symbols@, m1.insert(parent_syntax_id, *%s)));
            }''' % (psym, psym)),
        ((r'current = parent_node;' if node else r'node = parent_node\.parent\(\);'), 'after',
         ('proof { n = n + 1; }' if node else
          'proof { if sp_parent(parent_node) is Some { axiom_parent_contains(parent_node); } n = n + 1; assert(nth_parent(token, n) == sp_parent(parent_node)); }')),
    ]
    return fn(
        SB, name, 'DocumentSymbolBuilder', ret='r',
        requires=KEYS + ''', sp_doc_ok(%(d)s), table_ok(%(d)s, %(m)s),
            // what the caller hands in: a childless symbol whose selection range (if any) lies inside its range
            sym_ok(%(d)s, symbol), symbol.children@.len() == 0,
            // the element has not been given a symbol before
            !%(m)s.contains_key(id_of(%(e)s)),
            match parent {
                // explicit parent: not the element itself; the new symbol's range lies inside the parent symbol's range
                Some(p) => p != id_of(%(e)s) && (%(m)s.contains_key(p) ==> off_inside(symbol.range, %(m)s[p].range)),
                // no parent given: the symbol is linked under the NEAREST ancestor node that has a symbol; whichever that is,
                // it is not the element itself (same kind and range) and its symbol's range contains the new one.
                // (Only call site: the root chunk, document_symbol/mod.rs:57, which has no ancestors.)
                None => %(anc)s,
            }''' % {'d': DOC_S, 'm': M_OLD, 'e': elem, 'anc': anc_pre % {'e': elem, 'm': M_OLD}},
        ensures='''r == id_of(%(e)s) /*@C26.symbols.id*/,
            %(frame)s,
            table_ok(%(d)s, %(mf)s) /*@C26.symbols.table-inv*/,
            table_extends(%(m)s, %(mf)s) /*@C26.symbols.table-extends*/,
            %(mf)s.contains_key(r) && %(mf)s[r].range == symbol.range && %(mf)s[r].selection_range == symbol.selection_range /*@C26.symbols.stored*/'''
        % {'d': DOC_S, 'm': M_OLD, 'mf': M_FIN, 'e': elem, 'frame': SB_FRAME},
        body_first=HASH_AX,
        loops={0: loop},
        proof=proof)


SYM_ITEMS = {
    'LuaSymbol': {'src': {'file': SB, 'kind': 'struct', 'name': 'LuaSymbol'}, 'rules': [('struct-fields', {})]},
    'LuaSymbol::new': fn(
        SB, 'new', 'LuaSymbol', ret='r',
        ensures='''r.range == range && r.children@.len() == 0 /*@C26.symbols.new*/,
        // no selection range stored: `build` then uses the full range as selection range
        r.selection_range is None /*@C26.symbols.selection-inside-range*/'''),
    'LuaSymbol::with_selection_range': fn(
        SB, 'with_selection_range', 'LuaSymbol', ret='r',
        ensures='''r.range == range && r.children@.len() == 0 /*@C26.symbols.new*/,
        r.selection_range == Some(selection_range) /*@C26.symbols.with-selection-range*/,
        // the builder never clamps or checks: "selection inside range" is exactly what the CALLER passes
        forall|doc: &LuaDocument| range_in_doc(doc, range) && range_in_doc(doc, selection_range) && off_inside(selection_range, range)
            ==> #[trigger] sym_ok(doc, r) /*@C26.symbols.selection-inside-range*/'''),
    'LuaSymbol::add_child': fn(
        SB, 'add_child', 'LuaSymbol',
        ensures='''final(self).children@ == old(self).children@.push(child) /*@C26.symbols.add-child*/,
        final(self).range == old(self).range && final(self).selection_range == old(self).selection_range /*@C26.symbols.add-child.frame*/'''),
    'DocumentSymbolBuilder': {'src': {'file': SB, 'kind': 'struct', 'name': 'DocumentSymbolBuilder'},
                              'rules': [('struct-fields', {})]},
    'DocumentSymbolBuilder::new': fn(
        SB, 'new', 'DocumentSymbolBuilder', ret='r',
        requires=KEYS,
        ensures='''r.document == document && r.db == db && r.decl_tree == decl_tree /*@C26.symbols.frame*/,
        table_ok(document, r.document_symbols@) /*@C26.symbols.table-inv*/''',
        proof=[(r'\n\s*Self \{', 'before', '''proof {
            let m = Map::<LuaSyntaxId, Box<LuaSymbol>>::empty();
            assert(rank_ok(m, |x: LuaSyntaxId| 0nat));
        }''')]),
    'DocumentSymbolBuilder::add_node_symbol': add_symbol('add_node_symbol', 'node'),
    'DocumentSymbolBuilder::add_token_symbol': add_symbol('add_token_symbol', 'token'),
    'DocumentSymbolBuilder::contains_symbol': fn(
        SB, 'contains_symbol', 'DocumentSymbolBuilder', ret='r',
        requires=KEYS,
        ensures='r == self.document_symbols@.contains_key(*id)',
        body_first=HASH_AX),
    'DocumentSymbolBuilder::link_parent_child': fn(
        SB, 'link_parent_child', 'DocumentSymbolBuilder',
        requires=KEYS + ''', sp_doc_ok(%(d)s), table_ok(%(d)s, %(m)s),
            // the child symbol is stored and still childless (it was inserted by the caller one statement earlier)
            %(m)s.contains_key(child), %(m)s[child].children@.len() == 0, parent != child,
            %(m)s.contains_key(parent) ==> off_inside(%(m)s[child].range, %(m)s[parent].range)''' % {'d': DOC_S, 'm': M_OLD},
        ensures='''%(frame)s,
            table_ok(%(d)s, %(mf)s) /*@C26.symbols.table-inv*/,
            table_extends(%(m)s, %(mf)s) /*@C26.symbols.table-extends*/'''
        % {'d': DOC_S, 'm': M_OLD, 'mf': M_FIN, 'frame': SB_FRAME},
        body_first=HASH_AX,
        proof=[(r'parent_symbol\.add_child\(child\);', 'after',
                'proof { lemma_link(self.document, old(self).document_symbols@, parent, child, *parent_symbol); }')],
        pub=False),
    'DocumentSymbolBuilder::build': fn(
        SB, 'build', 'DocumentSymbolBuilder', ret='r',
        rules=['c26r-closure-contract-to-lsp-range'],
        requires=KEYS + ''', sp_doc_ok(self.document), table_ok(self.document, self.document_symbols@),
            // build_document_symbol stored the root chunk's symbol first (`add_node_symbol(root.syntax().clone(), symbol, None)`)
            self.document_symbols@.contains_key(id_of(*root))''',
        ensures='''
            // the response of textDocument/documentSymbol (its root; the handler returns the root's children)
            ds_sel_ok(r) /*@C26.symbols.selection-inside-range*/,
            ds_nest_ok(r) /*@C26.symbols.child-inside-parent*/,
            r.range == doc_lsp_range(self.document, self.document_symbols@[id_of(*root)].range) /*@C26.symbols.root-range*/''',
        body_first=HASH_AX,
        proof=[(r'let mut document_symbol = DocumentSymbol \{', 'before', '''proof {
                let m = self.document_symbols@;
                assert(sym_ok(self.document, *m[id]));
                assert(children_ok(m, m[id].children@, m[id].range));
                if lua_symbol.selection_range is Some {
                    lemma_inside_lsp(self.document, lua_symbol.selection_range->Some_0, lua_symbol.range);
                }
            }''')]),
    'DocumentSymbolBuilder::build_child_symbol': fn(
        SB, 'build_child_symbol', 'DocumentSymbolBuilder',
        rules=['c26r-closure-contract-to-lsp-range'],
        requires=KEYS + ''', sp_doc_ok(self.document), table_ok(self.document, self.document_symbols@),
            // `symbol` is a symbol of the table (or has the child links of one): every child id is stored, with a range inside
            range_in_doc(self.document, symbol.range), children_ok(self.document_symbols@, symbol.children@, symbol.range),
            // `document_symbol` is the LSP symbol made for `symbol`
            old(document_symbol).range == doc_lsp_range(self.document, symbol.range),
            ds_sel_ok(*old(document_symbol)), ds_nest_ok(*old(document_symbol))''',
        ensures='''ds_sel_ok(*final(document_symbol)) /*@C26.symbols.selection-inside-range*/,
            ds_nest_ok(*final(document_symbol)) /*@C26.symbols.child-inside-parent*/,
            final(document_symbol).range == old(document_symbol).range
                && final(document_symbol).selection_range == old(document_symbol).selection_range /*@C26.symbols.frame*/''',
        # recursion over the child links: terminates because the links are acyclic (table_ok: a rank function exists)
        decreases='sym_rank(self.document_symbols@, *symbol)',
        body_first=HASH_AX,
        iter_names={0: 'it'},
        loops={0: '''invariant
                ''' + KEYS + ''', sp_doc_ok(self.document), table_ok(self.document, self.document_symbols@),
                range_in_doc(self.document, symbol.range), children_ok(self.document_symbols@, symbol.children@, symbol.range),
                it.seq().len() == symbol.children@.len(),
                forall|i: int| 0 <= i < it.seq().len() ==> *(#[trigger] it.seq()[i]) == symbol.children@[i],
                document_symbol.range == doc_lsp_range(self.document, symbol.range),
                document_symbol.range == old(document_symbol).range && document_symbol.selection_range == old(document_symbol).selection_range,
                ds_sel_ok(*document_symbol) /*@C26.symbols.selection-inside-range.inv*/,
                ds_nest_ok(*document_symbol) /*@C26.symbols.child-inside-parent.inv*/,'''},
        proof=[
            (r'let child_symbol = self\.document_symbols\.get\(child\)\?;', 'after', '''proof {
                let m = self.document_symbols@;
                assert(*child == symbol.children@[it.index@ as int]);
                assert(m.contains_key(*child) && *child_symbol == m[*child]);
                assert(sym_ok(self.document, *m[*child]));
                assert(children_ok(m, m[*child].children@, m[*child].range));
                lemma_child_rank(m, *symbol, it.index@ as int);
            }'''),
            (r'let mut lsp_document_symbol = DocumentSymbol \{', 'before', '''proof {
                if child_symbol.selection_range is Some {
                    lemma_inside_lsp(self.document, child_symbol.selection_range->Some_0, child_symbol.range);
                }
                lemma_inside_lsp(self.document, child_symbol.range, symbol.range);
            }'''),
            (r'document_symbol\s*\.children\s*\.get_or_insert_with', 'before', 'let ghost before = *document_symbol;'),
            (r'\.push\(lsp_document_symbol\);', 'after', '''proof {
                let now = document_symbol.children->Some_0@;
                let prev = match before.children { Some(v) => v@, None => Seq::<DocumentSymbol>::empty() };
                assert(now =~= prev.push(lsp_document_symbol));
                assert forall|i: int| 0 <= i < now.len() implies ds_sel_ok(#[trigger] now[i]) by {
                    if i < prev.len() { assert(now[i] == prev[i]); }
                }
                assert forall|i: int| 0 <= i < now.len() implies lsp_inside((#[trigger] now[i]).range, document_symbol.range) && ds_nest_ok(now[i]) by {
                    if i < prev.len() { assert(now[i] == prev[i]); }
                }
            }'''),
        ],
        pub=False),
}

# ---- call sites of LuaSymbol::with_selection_range whose selection range is a syntactic child: statement slices --------
SST = H + 'document_symbol/stats.rs'
SCO = H + 'document_symbol/comment.rs'
B_DOC = 'old(builder).document'
B_M = 'old(builder).document_symbols@'
B_MF = 'final(builder).document_symbols@'


def with_sel_slice(host_file, host, name, head, frm, to, tail, owner, sel, extra_req=''):
    """the statements `range = <owner>.get_range(); selection = <sel>…; with_selection_range(..); add_node_symbol(<owner>, .., Some(parent_id))`"""
    return {
        'src': {'kind': 'slice', 'name': name, 'in': {'file': host_file, 'kind': 'fn', 'name': host},
                'from': frm, 'to': to, 'head': head, 'tail': tail},
        'ret': 'r',
        'requires': KEYS + ''', sp_doc_ok(%(d)s), table_ok(%(d)s, %(m)s),
            sp_tree(%(o)s) == sp_doc_id(%(d)s),
            // established by the statements in front of the slice: the name / `--region` token is a direct child of the node
            child_of(%(s)s, %(o)s),
            // ASSUMED of the caller (the traversal in document_symbol/mod.rs): the node has no symbol yet, and the parent
            // symbol is the symbol of an enclosing construct whose range contains the node
            !%(m)s.contains_key(id_of(%(o)s)), parent_id != id_of(%(o)s),
            %(m)s.contains_key(parent_id) ==> off_inside(sp_range(%(o)s), %(m)s[parent_id].range)%(x)s'''
        % {'d': B_DOC, 'm': B_M, 'o': owner, 's': sel, 'x': extra_req},
        'ensures': '''r == id_of(%(o)s) && %(mf)s.contains_key(r) /*@C26.symbols.id*/,
            // the symbol stored for the node: its range is the node's range, its selection range the child's range — inside it
            %(mf)s[r].range == sp_range(%(o)s) && %(mf)s[r].selection_range == Some(sp_range(%(s)s))
                && sym_ok(%(d)s, *%(mf)s[r]) /*@C26.symbols.selection-inside-range*/,
            table_ok(%(d)s, %(mf)s) /*@C26.symbols.table-inv*/,
            table_extends(%(m)s, %(mf)s) /*@C26.symbols.table-extends*/,
            final(builder).document == old(builder).document /*@C26.symbols.frame*/'''
        % {'d': B_DOC, 'm': B_M, 'mf': B_MF, 'o': owner, 's': sel},
        'proof': [(r'let symbol = LuaSymbol::with_selection_range\(', 'before', '''proof {
                axiom_range_in_doc(builder.document, %(o)s);
                axiom_range_in_doc(builder.document, %(s)s);
                axiom_parent_contains(%(s)s);
            }''' % {'o': owner, 's': sel})],
    }


CALLSITE_ITEMS = {
    'build_func_stat_symbol::symbol': with_sel_slice(
        SST, 'build_func_stat_symbol', 'func_stat_symbol',
        '''pub fn func_stat_symbol(builder: &mut DocumentSymbolBuilder, func: LuaFuncStat, func_name: LuaVarExpr, name: String,
        desc: (SymbolKind, Option<String>), parent_id: LuaSyntaxId) -> LuaSyntaxId''',
        r'let full_range = func\.get_range\(\);',
        r'let func_id = builder\.add_node_symbol\(func\.syntax\(\)\.clone\(\), symbol, Some\(parent_id\)\);',
        'func_id', 'func', 'func_name'),
    'build_doc_region_symbol::region_token': {
        'src': {'kind': 'slice', 'name': 'doc_region_token', 'in': {'file': SCO, 'kind': 'fn', 'name': 'build_doc_region_symbol'},
                'from': r'let mut region_token = None;', 'to': r'let region_token = region_token\?;',
                'head': 'pub fn doc_region_token(comment: LuaComment) -> Option<LuaSyntaxToken>', 'tail': 'Some(region_token)'},
        'ret': 'r',
        'ensures': 'r matches Some(t) ==> child_of(t, comment) && sp_kind(t) == sp_kind_of_token_kind(LuaTokenKind::TkDocRegion) /*@C26.symbols.region-token-is-child*/',
        'iter_names': {0: 'it'},
        'loops': {0: '''invariant
                forall|i: int| 0 <= i < it.seq().len() ==> child_of(#[trigger] not_syn(it.seq()[i]), comment),
            invariant_except_break
                region_token is None,
            ensures
                region_token matches Some(t) ==> child_of(t, comment) && sp_kind(t) == sp_kind_of_token_kind(LuaTokenKind::TkDocRegion),'''},
        'proof': [(r'if token\.kind\(\) == LuaTokenKind::TkDocRegion\.into\(\) \{', 'before',
                   'proof { assert(child_of(not_syn(child), comment)); }')],
    },
    'build_doc_region_symbol::symbol': with_sel_slice(
        SCO, 'build_doc_region_symbol', 'doc_region_symbol',
        '''pub fn doc_region_symbol(builder: &mut DocumentSymbolBuilder, comment: LuaComment, region_token: LuaSyntaxToken,
        description: String, parent_id: LuaSyntaxId) -> LuaSyntaxId''',
        r'let range = comment\.get_range\(\);',
        r'let symbol_id = builder\.add_node_symbol\(comment\.syntax\(\)\.clone\(\), symbol, Some\(parent_id\)\);',
        'symbol_id', 'comment', 'region_token'),
}

ITEMS = {}
ITEMS.update(CALLSITE_ITEMS)
ITEMS.update(FOLD_ITEMS)
ITEMS.update(SEL_ITEMS)
ITEMS.update(SYM_ITEMS)

UNIT = {
    'items': ITEMS,
    'extra_rules': [
        ('c26r-closure-contract-to-lsp-range', r'\|range\| self\.document\.to_lsp_range\(range\)',
         '|range: TextRange| -> (o: Option<lsp_types::Range>)\n'
         '                requires sp_doc_ok(self.document), range_in_doc(self.document, range)\n'
         '                ensures o == Some(doc_lsp_range(self.document, range))\n'
         '                { self.document.to_lsp_range(range) }',
         'contract overlay on the closure passed to Option::and_then (vstd specifies and_then through the closure\'s contract): '
         'parameter type, named result, `requires`/`ensures` (= the contract of the callee) are added; the body expression is kept '
         'verbatim and Verus checks the contract against it, and the `requires` where and_then calls it'),
        ('c26r-into-iter-rev', r'(\w+)\.into_iter\(\)\.rev\(\)', r'vx_into_iter_rev(\1)',
         '`for x in V.into_iter().rev()` -> `for x in vx_into_iter_rev(V)`: std doc of DoubleEndedIterator::rev ("reverses an '
         'iterator\'s direction"): the loop sees the elements of the Vec V last-first; the helper returns exactly that sequence '
         'as a Vec (ensures r@ == V@.reverse()) and `for x in vec` visits a Vec in order'),
        ('c26r-drop-default-attr', r'\n\s*#\[default\]', '',
         'the `#[default]` variant attribute only feeds `#[derive(Default)]`, which is dropped with the other outer attributes '
         'of the enum (Default::default() is not called by the code under proof)'),
    ],
    'allow': [
        r'external_body', r'\buninterp\b', r'axiom_line_col_monotonic', r'axiom_range_in_doc', r'axiom_parent_contains',
        r'assume_specification<T, F: FnOnce\(\) -> T>\[ Option::<T>::get_or_insert_with \]',
        r'assume_specification<\'a, K: Eq \+ Hash \+ Borrow<Q>, V, S: BuildHasher, A: Allocator, Q: Hash \+ Eq \+ \?Sized>\[ HashMap::<K, V, S, A>::get_mut \]',
    ],
    'min_obligations': 20,
    'trusted': [],
    'not_covered': [],
    'samples': [],
    'mutants': [],
}
