// unit c26_ranges — C26, the range-shape sentences other than semantic tokens:
//   "folding ranges have start <= end"                        fold_range/{builder,stats,expr,comment,imports,mod}.rs
//   "document symbols nest within their parents with selection ranges inside their ranges"
//                                                             document_symbol/builder.rs
//   "selection ranges strictly grow outward"                  document_selection_range/mod.rs (slice of the handler)
// Hand-written part: shims of lsp_types / LuaDocument / the rowan syntax tree, the std contracts used, the
// vocabulary of the property, lemmas. `//@@` items are extracted from /repo on every run.
#![feature(allocator_api)]
use vstd::prelude::*;
use std::collections::HashMap;
use std::hash::{Hash, BuildHasher};
use std::borrow::Borrow;
use std::alloc::Allocator;
verus! {

//@@include common/textsize.rs

// ---------------------------------------------------------------------------------------------
// shims: text-size additions
// ---------------------------------------------------------------------------------------------
/// `TextSize` derives `Ord` in text-size 1.1.1 (`#[derive(Default, Copy, Clone, PartialEq, Eq, PartialOrd, Ord, Hash)]`
/// on a u32 newtype); the common shim omits it. `finish_region` calls `Ord::min` / `Ord::max` (vstd specifies these
/// default methods through `cmp_spec`).
impl vstd::std_specs::cmp::OrdSpecImpl for TextSize {
    open spec fn obeys_cmp_spec() -> bool { true }
    open spec fn cmp_spec(&self, other: &TextSize) -> core::cmp::Ordering {
        if self.raw < other.raw { core::cmp::Ordering::Less }
        else if self.raw == other.raw { core::cmp::Ordering::Equal }
        else { core::cmp::Ordering::Greater }
    }
}
impl Ord for TextSize {
    fn cmp(&self, other: &TextSize) -> core::cmp::Ordering {
        if self.raw < other.raw { core::cmp::Ordering::Less }
        else if self.raw == other.raw { core::cmp::Ordering::Equal }
        else { core::cmp::Ordering::Greater }
    }
}
impl TextRange {
    /// `TextRange::cover`, transcribed from text-size-1.1.1/src/range.rs:246-250 (the common shim omits it):
    ///     let start = cmp::min(self.start(), other.start());
    ///     let end = cmp::max(self.end(), other.end());
    ///     TextRange::new(start, end)
    /// "Find the smallest range that completely contains both ranges." The run-time assertion of `TextRange::new`
    /// (start <= end) is a PRECONDITION here, as in the common shim; it holds whenever one of the two ranges is ordered.
    pub fn cover(self, other: TextRange) -> (r: TextRange)
        requires
            (if self.start.raw <= other.start.raw { self.start.raw } else { other.start.raw })
                <= (if self.end.raw >= other.end.raw { self.end.raw } else { other.end.raw }),
        ensures
            r.start == (if self.start.raw <= other.start.raw { self.start } else { other.start }),
            r.end == (if self.end.raw >= other.end.raw { self.end } else { other.end }),
            r.wf(),
    {
        let start = if self.start.raw <= other.start.raw { self.start } else { other.start };
        let end = if self.end.raw >= other.end.raw { self.end } else { other.end };
        TextRange::new(start, end)
    }
}

// ---------------------------------------------------------------------------------------------
// shims: lsp_types (emmy_lsp_types 0.1.0), transcribed field by field
// ---------------------------------------------------------------------------------------------
pub mod lsp_types {
    use vstd::prelude::*;
    verus!{
    #[derive(Clone, Copy)]
    pub struct Position { pub line: u32, pub character: u32 }
    #[derive(Clone, Copy)]
    pub struct Range { pub start: Position, pub end: Position }
    /// folding_range.rs: `pub enum FoldingRangeKind { Comment, Imports, Region }`
    pub enum FoldingRangeKind { Comment, Imports, Region }
    /// folding_range.rs:117-145
    pub struct FoldingRange {
        pub start_line: u32,
        pub start_character: Option<u32>,
        pub end_line: u32,
        pub end_character: Option<u32>,
        pub kind: Option<FoldingRangeKind>,
        pub collapsed_text: Option<String>,
    }
    /// `pub struct SymbolKind(i32)` / `pub struct SymbolTag(i32)` (transparent i32 newtypes, Copy)
    #[derive(Clone, Copy)]
    pub struct SymbolKind(pub i32);
    impl SymbolKind {
        /// lib.rs:1215 `pub const NAMESPACE: SymbolKind = SymbolKind(3);`
        pub const NAMESPACE: SymbolKind = SymbolKind(3);
    }
    #[derive(Clone, Copy)]
    pub struct SymbolTag(pub i32);
    /// document_symbols.rs:76-104
    pub struct DocumentSymbol {
        pub name: String,
        pub detail: Option<String>,
        pub kind: SymbolKind,
        pub tags: Option<Vec<SymbolTag>>,
        pub deprecated: Option<bool>,
        pub range: Range,
        pub selection_range: Range,
        pub children: Option<Vec<DocumentSymbol>>,
    }
    /// selection_range.rs:79-86
    pub struct SelectionRange {
        pub range: Range,
        pub parent: Option<Box<SelectionRange>>,
    }
    }
}
pub use lsp_types::{FoldingRange, FoldingRangeKind, DocumentSymbol, SymbolKind, SelectionRange};

// ---------------------------------------------------------------------------------------------
// shims: emmylua_code_analysis::LuaDocument — contracts PROVED in unit c22_lineindex
// ---------------------------------------------------------------------------------------------
/// opaque. Vocabulary (uninterpreted functions of the document, as in unit c26_semantic_tokens):
///   sp_doc_ok(doc)      = c22 `wf(doc.line_index, doc.text.bytes)`  (includes text.len() < 2^32 - 1)
///   sp_in_doc(doc, off) = c22 `off <= text.len() && is_char_boundary(text, off)`
///   sp_pos(doc, off)    = the (line, col) of the offset (c22: the line the offset lies on, chars before it on that line)
///   sp_doc_id(doc)      = identity of the document's text (ties syntax-tree elements to the document they were parsed from)
#[verifier::external_body]
pub struct LuaDocument<'a> { _p: core::marker::PhantomData<&'a ()> }
pub uninterp spec fn sp_doc_ok(doc: &LuaDocument) -> bool;
pub uninterp spec fn sp_in_doc(doc: &LuaDocument, off: TextSize) -> bool;
pub uninterp spec fn sp_pos(doc: &LuaDocument, off: TextSize) -> (usize, usize);
pub uninterp spec fn sp_doc_id(doc: &LuaDocument) -> int;

pub open spec fn range_in_doc(doc: &LuaDocument, range: TextRange) -> bool {
    range.wf() && sp_in_doc(doc, range.start) && sp_in_doc(doc, range.end)
}
/// LSP position of an offset
pub open spec fn doc_lsp_pos(doc: &LuaDocument, off: TextSize) -> lsp_types::Position {
    lsp_types::Position { line: sp_pos(doc, off).0 as u32, character: sp_pos(doc, off).1 as u32 }
}
pub open spec fn doc_lsp_range(doc: &LuaDocument, range: TextRange) -> lsp_types::Range {
    lsp_types::Range { start: doc_lsp_pos(doc, range.start), end: doc_lsp_pos(doc, range.end) }
}

impl<'a> LuaDocument<'a> {
    /// proved in unit c22_lineindex: C22.doc.get_line_col (always `Some`, the position of the offset) and
    /// lemma_position_fits (line, col < 2^32 - 1 because the text is shorter than 2^32 - 1 bytes)
    #[verifier::external_body]
    pub fn get_line_col(&self, offset: TextSize) -> (r: Option<(usize, usize)>)
        requires sp_doc_ok(self), sp_in_doc(self, offset),
        ensures
            r == Some(sp_pos(self, offset)),
            sp_pos(self, offset).0 < u32::MAX && sp_pos(self, offset).1 < u32::MAX,
    { unimplemented!() }

    /// proved in unit c22_lineindex: C21.range-wellformed (an ordered in-text range gives an ordered LSP range) and
    /// C22.doc.to_lsp_range (always `Some`; start / end are the LSP positions of range.start / range.end)
    #[verifier::external_body]
    pub fn to_lsp_range(&self, range: TextRange) -> (r: Option<lsp_types::Range>)
        requires sp_doc_ok(self), range_in_doc(self, range),
        ensures
            r == Some(doc_lsp_range(self, range)),
            pos_le(doc_lsp_range(self, range).start, doc_lsp_range(self, range).end),
            sp_pos(self, range.start).0 < u32::MAX && sp_pos(self, range.start).1 < u32::MAX,
            sp_pos(self, range.end).0 < u32::MAX && sp_pos(self, range.end).1 < u32::MAX,
    { unimplemented!() }
}
/// positions are monotone in the offset — proved in unit c22_lineindex: lemma_line_col_monotonic (+ lemma_position_fits
/// for the bounds)
#[verifier::external_body]
pub proof fn axiom_line_col_monotonic(doc: &LuaDocument, a: TextSize, b: TextSize)
    requires sp_doc_ok(doc), sp_in_doc(doc, a), sp_in_doc(doc, b), a.raw <= b.raw,
    ensures
        sp_pos(doc, a).0 < sp_pos(doc, b).0 || (sp_pos(doc, a).0 == sp_pos(doc, b).0 && sp_pos(doc, a).1 <= sp_pos(doc, b).1),
        sp_pos(doc, a).0 < u32::MAX && sp_pos(doc, a).1 < u32::MAX,
        sp_pos(doc, b).0 < u32::MAX && sp_pos(doc, b).1 < u32::MAX,
{ }
/// ASSUMPTION `line-col-injective` (the one fact about the shimmed positions that is NOT re-proved in unit
/// c22_lineindex on every run): two char-boundary offsets of the document with the same (line, col) are the same
/// offset. It is the C22 round trip: c22 `lemma_round_trip` (offset -> (line, col) -> offset returns the offset) with
/// `lemma_on_line`: if a and b both have position (l, c) then b satisfies c22 `offset_ok(l, c, b)`, so the round trip
/// from a gives b == a. Needed because document_selection_range compares TEXT ranges before it pushes one, while the
/// property speaks about the LSP ranges it returns.
#[verifier::external_body]
pub proof fn axiom_line_col_injective(doc: &LuaDocument, a: TextSize, b: TextSize)
    requires sp_doc_ok(doc), sp_in_doc(doc, a), sp_in_doc(doc, b), sp_pos(doc, a) == sp_pos(doc, b),
    ensures a == b,
{ }

// ---------------------------------------------------------------------------------------------
// shims: the rowan syntax tree (emmylua_parser). ASSUMED contracts (rowan's red tree), not proved here.
// ---------------------------------------------------------------------------------------------
/// ONE opaque type stands for every handle into the syntax tree: rowan `SyntaxNode` / `SyntaxToken` /
/// `SyntaxElement` and the typed AST wrappers (`LuaBlock`, `LuaForStat`, … each of which is
/// `struct X { syntax: LuaSyntaxNode }`; `syntax()` returns that field). The distinct repository type names are
/// aliases of it (below), so the extracted code type-checks against a SUPERSET of the real typing; every
/// accessor carries only the contract stated on it.
///   sp_range(e)  its text range          sp_kind(e) its kind
///   sp_tree(e)   identity of the document text the tree was parsed from (cf. sp_doc_id)
///   sp_parent(e) its parent node         sp_depth(e) number of ancestors
///   sp_before(e) / sp_after(e) number of siblings before / after it
#[verifier::external_body]
pub struct Syn { _p: () }
pub uninterp spec fn sp_range(e: Syn) -> TextRange;
pub uninterp spec fn sp_kind(e: Syn) -> LuaKind;
pub uninterp spec fn sp_tree(e: Syn) -> int;
pub uninterp spec fn sp_parent(e: Syn) -> Option<Syn>;
pub uninterp spec fn sp_depth(e: Syn) -> nat;
pub uninterp spec fn sp_before(e: Syn) -> nat;
pub uninterp spec fn sp_after(e: Syn) -> nat;

pub type LuaSyntaxNode = Syn;
pub type LuaSyntaxToken = Syn;
pub type LuaSyntaxElement = Syn;
pub type LuaChunk = Syn;
pub type LuaBlock = Syn;
pub type LuaComment = Syn;
pub type LuaStat = Syn;
pub type LuaForStat = Syn;
pub type LuaForRangeStat = Syn;
pub type LuaWhileStat = Syn;
pub type LuaRepeatStat = Syn;
pub type LuaDoStat = Syn;
pub type LuaIfStat = Syn;
pub type LuaTableExpr = Syn;
pub type LuaLiteralExpr = Syn;
pub type LuaClosureExpr = Syn;
pub type LuaStringToken = Syn;
pub type LuaFuncStat = Syn;
pub type LuaVarExpr = Syn;
pub type LuaLocalStat = Syn;
pub type LuaAssignStat = Syn;
pub type LuaExpr = Syn;

/// ASSUMPTION (tree/document agreement): an element of the tree parsed from the document's text has an ordered
/// range whose two ends are offsets of that text on char boundaries (tokens are made of whole chars; C01: the tree
/// text is the input text).
#[verifier::external_body]
pub proof fn axiom_range_in_doc(doc: &LuaDocument, e: Syn)
    requires sp_tree(e) == sp_doc_id(doc),
    ensures range_in_doc(doc, sp_range(e)),
{ }
/// ASSUMPTION (rowan ancestry): a parent's range contains its child's range; the parent is in the same tree, one
/// level up.
#[verifier::external_body]
pub proof fn axiom_parent_contains(e: Syn)
    requires sp_parent(e) is Some,
    ensures
        off_inside(sp_range(e), sp_range(sp_parent(e)->Some_0)),
        sp_tree(sp_parent(e)->Some_0) == sp_tree(e),
        sp_depth(sp_parent(e)->Some_0) + 1 == sp_depth(e),
{ }

/// `child` is a direct child (node or token) of `parent`
pub open spec fn child_of(child: Syn, parent: Syn) -> bool { sp_parent(child) == Some(parent) && sp_tree(child) == sp_tree(parent) }
/// children handed out by an accessor, in text order: each a child of `parent`, pairwise ordered
pub open spec fn ordered_children(v: Seq<Syn>, parent: Syn) -> bool {
    &&& forall|i: int| 0 <= i < v.len() ==> child_of(#[trigger] v[i], parent)
    &&& forall|i: int, j: int| 0 <= i < j < v.len() ==> sp_range(#[trigger] v[i]).end.raw <= sp_range(#[trigger] v[j]).start.raw
}

/// emmylua_parser::LuaKind (enum of LuaSyntaxKind / LuaTokenKind), opaque value
#[derive(Clone, Copy)]
pub struct LuaKind { pub raw: u16 }
impl vstd::std_specs::cmp::PartialEqSpecImpl for LuaKind {
    open spec fn obeys_eq_spec() -> bool { true }
    open spec fn eq_spec(&self, other: &LuaKind) -> bool { self.raw == other.raw }
}
impl PartialEq for LuaKind { fn eq(&self, other: &LuaKind) -> bool { self.raw == other.raw } }
impl Eq for LuaKind {}
/// emmylua_parser::LuaTokenKind: the five variants the code under proof names + `Other` for the remaining ~110
pub enum LuaTokenKind { TkShortComment, TkWhitespace, TkEndOfLine, TkDocRegion, TkDocEndRegion, Other }
pub uninterp spec fn sp_token_kind(k: LuaKind) -> LuaTokenKind;
pub uninterp spec fn sp_kind_of_token_kind(k: LuaTokenKind) -> LuaKind;
impl vstd::std_specs::convert::FromSpecImpl<LuaKind> for LuaTokenKind {
    open spec fn obeys_from_spec() -> bool { true }
    open spec fn from_spec(v: LuaKind) -> LuaTokenKind { sp_token_kind(v) }
}
impl From<LuaKind> for LuaTokenKind {
    #[verifier::external_body]
    fn from(k: LuaKind) -> (r: LuaTokenKind) { unimplemented!() }
}
impl vstd::std_specs::convert::FromSpecImpl<LuaTokenKind> for LuaKind {
    open spec fn obeys_from_spec() -> bool { true }
    open spec fn from_spec(v: LuaTokenKind) -> LuaKind { sp_kind_of_token_kind(v) }
}
impl From<LuaTokenKind> for LuaKind {
    #[verifier::external_body]
    fn from(k: LuaTokenKind) -> (r: LuaKind) { unimplemented!() }
}

/// rowan::NodeOrToken, transcribed
pub enum NodeOrToken<N, T> { Node(N), Token(T) }

/// emmylua_parser::LuaLiteralToken: the variant named by the code + `Other`
pub enum LuaLiteralToken { String(LuaStringToken), Other }

/// emmylua_parser::LuaAst: the ten variants `build_folding_ranges` dispatches on + `Other` for the rest
pub enum LuaAst {
    LuaForStat(LuaForStat), LuaForRangeStat(LuaForRangeStat), LuaWhileStat(LuaWhileStat), LuaRepeatStat(LuaRepeatStat),
    LuaDoStat(LuaDoStat), LuaTableExpr(LuaTableExpr), LuaComment(LuaComment), LuaLiteralExpr(LuaLiteralExpr),
    LuaClosureExpr(LuaClosureExpr), LuaIfStat(LuaIfStat), Other,
}
/// the element an AST value wraps
pub open spec fn ast_syn(a: LuaAst) -> Option<Syn> {
    match a {
        LuaAst::LuaForStat(x) => Some(x), LuaAst::LuaForRangeStat(x) => Some(x), LuaAst::LuaWhileStat(x) => Some(x),
        LuaAst::LuaRepeatStat(x) => Some(x), LuaAst::LuaDoStat(x) => Some(x), LuaAst::LuaTableExpr(x) => Some(x),
        LuaAst::LuaComment(x) => Some(x), LuaAst::LuaLiteralExpr(x) => Some(x), LuaAst::LuaClosureExpr(x) => Some(x),
        LuaAst::LuaIfStat(x) => Some(x), LuaAst::Other => None,
    }
}

impl Clone for Syn {
    /// rowan handles are reference-counted cursors: a clone denotes the same element
    #[verifier::external_body]
    fn clone(&self) -> (r: Syn) ensures r == *self { unimplemented!() }
}

impl Syn {
    /// LuaAstNode::syntax / LuaAstToken::syntax: the wrapped element (the wrapper IS the element here)
    #[verifier::external_body]
    pub fn syntax(&self) -> (r: &Syn) ensures *r == *self { unimplemented!() }
    #[verifier::external_body]
    pub fn text_range(&self) -> (r: TextRange) ensures r == sp_range(*self) { unimplemented!() }
    /// LuaAstNode::get_range = self.syntax().text_range()
    #[verifier::external_body]
    pub fn get_range(&self) -> (r: TextRange) ensures r == sp_range(*self) { unimplemented!() }
    #[verifier::external_body]
    pub fn kind(&self) -> (r: LuaKind) ensures r == sp_kind(*self) { unimplemented!() }
    #[verifier::external_body]
    pub fn parent(&self) -> (r: Option<Syn>) ensures r == sp_parent(*self) { unimplemented!() }
    /// LuaChunk::get_syntax_id / LuaAstNode::get_syntax_id = LuaSyntaxId::from_node(self.syntax())
    #[verifier::external_body]
    pub fn get_syntax_id(&self) -> (r: LuaSyntaxId) ensures r == id_of(*self) { unimplemented!() }

    /// ASSUMED (rowan): the previous sibling ends where or before this element starts, has the same parent/tree, and
    /// there is one sibling less in front of it
    #[verifier::external_body]
    pub fn prev_sibling_or_token(&self) -> (r: Option<Syn>)
        ensures r matches Some(p) ==> sp_range(p).end.raw <= sp_range(*self).start.raw && sp_tree(p) == sp_tree(*self)
            && sp_parent(p) == sp_parent(*self) && sp_before(p) < sp_before(*self),
    { unimplemented!() }
    /// ASSUMED (rowan): the next sibling starts where or after this element ends
    #[verifier::external_body]
    pub fn next_sibling_or_token(&self) -> (r: Option<Syn>)
        ensures r matches Some(n) ==> sp_range(*self).end.raw <= sp_range(n).start.raw && sp_tree(n) == sp_tree(*self)
            && sp_parent(n) == sp_parent(*self) && sp_after(n) < sp_after(*self),
    { unimplemented!() }
    /// ASSUMED: typed child accessors (`child()` of LuaAstNode): a direct child node
    #[verifier::external_body]
    pub fn get_block(&self) -> (r: Option<Syn>) ensures r matches Some(b) ==> child_of(b, *self) { unimplemented!() }
    #[verifier::external_body]
    pub fn get_else_clause(&self) -> (r: Option<Syn>) ensures r matches Some(b) ==> child_of(b, *self) { unimplemented!() }
    /// ASSUMED: `children()` accessors (LuaAstChildren<_> iterators, shimmed as the Vec of what they yield): direct
    /// children in text order
    #[verifier::external_body]
    pub fn get_else_if_clause_list(&self) -> (r: Vec<Syn>) ensures ordered_children(r@, *self) { unimplemented!() }
    #[verifier::external_body]
    pub fn get_stats(&self) -> (r: Vec<Syn>) ensures ordered_children(r@, *self) { unimplemented!() }
    /// rowan `children_with_tokens()` (iterator, shimmed as the Vec of what it yields): direct children in text order
    #[verifier::external_body]
    pub fn children_with_tokens(&self) -> (r: Vec<NodeOrToken<Syn, Syn>>)
        ensures forall|i: int| 0 <= i < r@.len() ==> child_of(#[trigger] not_syn(r@[i]), *self),
    { unimplemented!() }
    /// LuaLiteralExpr::get_literal: the literal token, a direct child
    #[verifier::external_body]
    pub fn get_literal(&self) -> (r: Option<LuaLiteralToken>)
        ensures r matches Some(LuaLiteralToken::String(s)) ==> child_of(s, *self),
    { unimplemented!() }
    /// LuaAstNode::descendants::<LuaAst>() (iterator, shimmed as the Vec of what it yields): every yielded node lies in
    /// the tree of `self`
    #[verifier::external_body]
    pub fn descendants<T>(&self) -> (r: Vec<LuaAst>)
        ensures forall|i: int| 0 <= i < r@.len() ==> (ast_syn(#[trigger] r@[i]) matches Some(x) ==> sp_tree(x) == sp_tree(*self)),
    { unimplemented!() }
    /// rowan `SyntaxToken::parent_ancestors()` (iterator, shimmed as the Vec of what it yields): the chain
    /// parent, grand-parent, … up to the root
    #[verifier::external_body]
    pub fn parent_ancestors(&self) -> (r: Vec<Syn>)
        ensures ancestor_chain(*self, r@),
    { unimplemented!() }
}
pub open spec fn not_syn(x: NodeOrToken<Syn, Syn>) -> Syn {
    match x { NodeOrToken::Node(n) => n, NodeOrToken::Token(t) => t }
}
/// all ancestors, nearest first: v[k] is the (k+1)-th ancestor of e; as many as e has ancestors
pub open spec fn ancestor_chain(e: Syn, v: Seq<Syn>) -> bool {
    &&& v.len() == sp_depth(e)
    &&& forall|k: int| 0 <= k < v.len() ==> nth_parent(e, (k + 1) as nat) == Some(#[trigger] v[k])
}
/// n-th ancestor of an element (0: the element itself)
pub open spec fn nth_parent(e: Syn, n: nat) -> Option<Syn>
    decreases n
{
    if n == 0 { Some(e) } else {
        match nth_parent(e, (n - 1) as nat) { Some(p) => sp_parent(p), None => None }
    }
}

/// emmylua_parser::LuaSyntaxId, transcribed (`#[derive(Debug, Clone, Copy, PartialEq, Eq, Hash)] struct { kind: LuaKind,
/// range: TextRange }`)
#[derive(Clone, Copy)]
pub struct LuaSyntaxId { pub kind: LuaKind, pub range: TextRange }
impl vstd::std_specs::cmp::PartialEqSpecImpl for LuaSyntaxId {
    open spec fn obeys_eq_spec() -> bool { true }
    open spec fn eq_spec(&self, other: &LuaSyntaxId) -> bool { *self == *other }
}
impl PartialEq for LuaSyntaxId {
    fn eq(&self, other: &LuaSyntaxId) -> bool {
        self.kind.raw == other.kind.raw && self.range.start.raw == other.range.start.raw && self.range.end.raw == other.range.end.raw
    }
}
impl Eq for LuaSyntaxId {}
impl Hash for LuaSyntaxId {
    /// the derived Hash is outside the proof: `obeys_key_model::<LuaSyntaxId>()` is a PRECONDITION of every fn that
    /// touches the symbol map
    #[verifier::external_body]
    fn hash<H: core::hash::Hasher>(&self, state: &mut H) { unimplemented!() }
}
impl LuaSyntaxId {
    pub fn new(kind: LuaKind, range: TextRange) -> (r: LuaSyntaxId) ensures r == (LuaSyntaxId { kind, range }) { LuaSyntaxId { kind, range } }
}
pub open spec fn id_of(e: Syn) -> LuaSyntaxId { LuaSyntaxId { kind: sp_kind(e), range: sp_range(e) } }

/// emmylua_code_analysis::{DbIndex, LuaDeclarationTree}: opaque (fields of the builders that the functions
/// under proof never read)
#[verifier::external_body]
pub struct DbIndex { _p: () }
#[verifier::external_body]
pub struct LuaDeclarationTree { _p: () }

// ---- std contracts (trusted) -------------------------------------------------------------------
/// Option::get_or_insert_with: "Inserts a value computed from f into the option if it is None, then returns a mutable
/// reference to the contained value."
pub assume_specification<T, F: FnOnce() -> T>[ Option::<T>::get_or_insert_with ](o: &mut Option<T>, f: F) -> (r: &mut T)
    requires *old(o) is None ==> call_requires(f, ()),
    ensures
        match *old(o) { Some(x) => *r == x, None => call_ensures(f, (), *r) },
        *final(o) == Some(*final(r));

/// HashMap::get_mut: "Returns a mutable reference to the value corresponding to the key." (same specification as in
/// unit c10_remove2): for a present key the reference points at the stored value and whatever is written through it
/// is the value stored under that key when the borrow ends; every other entry is untouched; an absent key gives None.
pub assume_specification<'a, K: Eq + Hash + Borrow<Q>, V, S: BuildHasher, A: Allocator, Q: Hash + Eq + ?Sized>[ HashMap::<K, V, S, A>::get_mut ](m: &'a mut HashMap<K, V, S, A>, k: &Q) -> (r: Option<&'a mut V>)
    ensures
        vstd::std_specs::hash::obeys_key_model::<K>() && vstd::std_specs::hash::builds_valid_hashers::<S>() ==> match r {
            Some(v) => vstd::std_specs::hash::contains_borrowed_key(old(m)@, k)
                && vstd::std_specs::hash::maps_borrowed_key_to_value(old(m)@, k, *v)
                && exists|kk: K| #[trigger] old(m)@.contains_key(kk) && old(m)@[kk] == *v
                    && vstd::std_specs::hash::contains_borrowed_key(Map::<K, V>::empty().insert(kk, *v), k)
                    && final(m)@ == old(m)@.insert(kk, *final(v)),
            None => !vstd::std_specs::hash::contains_borrowed_key(old(m)@, k) && final(m)@ == old(m)@,
        };

/// `V.into_iter().rev()` driven by a `for` loop (rule c26r-into-iter-rev): std doc of DoubleEndedIterator::rev:
/// "Reverses an iterator's direction": the elements of V, last first.
#[verifier::external_body]
pub fn vx_into_iter_rev<T>(v: Vec<T>) -> (r: Vec<T>)
    ensures r@ == v@.reverse(),
{ v.into_iter().rev().collect() }

// ---------------------------------------------------------------------------------------------
// property vocabulary
// ---------------------------------------------------------------------------------------------
pub open spec fn pos_le(a: lsp_types::Position, b: lsp_types::Position) -> bool {
    a.line < b.line || (a.line == b.line && a.character <= b.character)
}
/// LSP range a lies inside LSP range b
pub open spec fn lsp_inside(a: lsp_types::Range, b: lsp_types::Range) -> bool { pos_le(b.start, a.start) && pos_le(a.end, b.end) }
/// text range a lies inside text range b
pub open spec fn off_inside(a: TextRange, b: TextRange) -> bool { b.start.raw <= a.start.raw && a.end.raw <= b.end.raw }

//@@include c26_ranges/fold_spec.rs
//@@include c26_ranges/symbol_spec.rs
//@@include c26_ranges/selection_spec.rs

// ---------------------------------------------------------------------------------------------
// extracted from /repo
// ---------------------------------------------------------------------------------------------
//@@ ClientId

//@@ FoldingRangeBuilder
impl FoldingRangeBuilder<'_> {
    //@@ FoldingRangeBuilder::new
    //@@ FoldingRangeBuilder::get_root
    //@@ FoldingRangeBuilder::get_document
    //@@ FoldingRangeBuilder::build
    //@@ FoldingRangeBuilder::push
    //@@ FoldingRangeBuilder::begin_region
    //@@ FoldingRangeBuilder::finish_region
    //@@ FoldingRangeBuilder::get_block_collapsed_range
    //@@ FoldingRangeBuilder::get_folding_lsp_range
}

//@@ build_for_stat_fold_range
//@@ build_for_range_stat_fold_range
//@@ build_while_stat_fold_range
//@@ build_repeat_stat_fold_range
//@@ build_do_stat_fold_range
//@@ build_if_stat_fold_range
//@@ build_table_expr_fold_range
//@@ build_string_fold_range
//@@ build_closure_expr_fold_range
//@@ build_comment_fold_range
//@@ build_imports_fold_range
//@@ build_folding_ranges

//@@ selection_chain

//@@ LuaSymbol
impl LuaSymbol {
    //@@ LuaSymbol::new
    //@@ LuaSymbol::with_selection_range
    //@@ LuaSymbol::add_child
}
//@@ DocumentSymbolBuilder
impl<'a> DocumentSymbolBuilder<'a> {
    //@@ DocumentSymbolBuilder::new
    //@@ DocumentSymbolBuilder::add_node_symbol
    //@@ DocumentSymbolBuilder::add_token_symbol
    //@@ DocumentSymbolBuilder::contains_symbol
    //@@ DocumentSymbolBuilder::link_parent_child
    //@@ DocumentSymbolBuilder::build
    //@@ DocumentSymbolBuilder::build_child_symbol
}
// call sites of `with_selection_range` whose selection range is a syntactic child (statement slices)
//@@ build_func_stat_symbol::symbol
//@@ build_doc_region_symbol::region_token
//@@ build_doc_region_symbol::symbol
// the range of the symbol of one binding of a local / assignment statement (the symbols of the value expression are hung
// under it): statement slices
//@@ build_local_stat_symbol::binding_range
//@@ build_assign_stat_symbol::binding_range

} // verus!
fn main() {}
