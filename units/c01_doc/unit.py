"""unit c01_doc — the doc-comment link of C01 (the link that unit c01_parser only ASSUMES as the contract of
`LuaDocParser::parse`) and its share of C02:

  D1  LuaDocLexer (lexer/lua_doc_lexer.rs): reset + repeated lex tile the range they are given, every call makes progress
  D2  the doc parser driver (parser/lua_doc_parser.rs): structural invariant, "the eaten ranges tile the prefix", bump progress
  D3  parse_comment / parse_docs (grammar/doc/mod.rs): the loop ends only at TkEof, i.e. when the whole span is eaten

The Reader contracts are those of unit c01_reader: the Reader part of its template is spliced in (not copied) and its
item table (READER) is imported, so the Reader functions are re-proved here on the current text."""
import importlib.util
import os
import re

from vc.rules import rule
from vc.extract import Undecided
from vc import rustlex as L

_here = os.path.dirname(os.path.abspath(__file__))


def _load(unit):
    spec = importlib.util.spec_from_file_location('unit_%s_for_c01_doc' % unit, os.path.join(_here, '..', unit, 'unit.py'))
    m = importlib.util.module_from_spec(spec)
    spec.loader.exec_module(m)
    return m


_rd = _load('c01_reader')       # rules guard-catchall-merge / match-guard-if-chain are registered by this import, READER / LEXER tables
_ps = _load('c01_parser')       # rule trait-spec-overlay, marker contracts


def _read(rel):
    with open(os.path.join(_here, '..', rel), encoding='utf-8') as f:
        return f.read()


def _cut(text, frm, to, what):
    """the lines of `text` from the (unique) line matching `frm` up to, not including, the next line matching `to`"""
    lines = text.split('\n')
    a = [i for i, l in enumerate(lines) if re.search(frm, l)]
    if len(a) != 1:
        raise Undecided('c01_doc splice %s: start marker /%s/ matched %d times' % (what, frm, len(a)))
    b = [i for i in range(a[0] + 1, len(lines)) if re.search(to, lines[i])]
    if not b:
        raise Undecided('c01_doc splice %s: end marker /%s/ not found' % (what, to))
    return '\n'.join(lines[a[0]:b[0]])


def _spec_item(text, name, what):
    """one top-level `pub [open] spec fn` / `pub [broadcast] proof fn` NAME of a spec file, with its doc comment and attributes"""
    m = re.search(r'(?:^[ \t]*(?:///[^\n]*|#\[[^\n]*\])\n)*^[ \t]*pub (?:open spec|broadcast proof|proof) fn %s\b' % re.escape(name), text, flags=re.M)
    if not m:
        raise Undecided('c01_doc splice %s: item %s not found' % (what, name))
    toks = L.code_tokens(text[m.start():])
    ob = next(i for i, t in enumerate(toks) if L.tok_text(text[m.start():], t) == '{' and _depth0(text[m.start():], toks, i))
    cb = L.match_close(text[m.start():], toks, ob)
    return text[m.start():m.start() + toks[cb][2]]


def _depth0(text, toks, idx):
    d = 0
    for t in toks[:idx]:
        s = L.tok_text(text, t)
        if s in ('(', '['): d += 1
        elif s in (')', ']'): d -= 1
    return d == 0


# ---------------------------------------------------------------------------------------------------------
# template = own template.rs with the `//@@splice <name>` lines replaced by parts of the spec files of the units
# c01_reader and c01_parser (read from their files on every run: no copies)
# ---------------------------------------------------------------------------------------------------------
_RT = _read('c01_reader/template.rs')
_PL = _read('c01_parser/lemmas.rs')
_SPLICES = {
    # std shims of c01_reader without char::is_ascii_digit (restated below WITH its std-documented result)
    'reader_std': lambda: '\n'.join(l for l in _cut(_RT, r'^pub assume_specification\[ char::is_alphabetic \]', r'^//@@include c01_reader/lemmas\.rs', 'reader_std').split('\n')
                                    if 'is_ascii_digit' not in l),
    # UTF-8 lemmas, SourceRange, Reader (abstract view, rinv, consumed, bumped, cur_ok + the impl block of placeholders), LuaTokenKind, LuaTokenData
    'reader_spec': lambda: _cut(_RT, r'^//@@include c01_reader/lemmas\.rs', r'^//@@ LexerState', 'reader_spec'),
    'kind_eq': lambda: _cut(_RT, r'^impl vstd::std_specs::cmp::PartialEqSpecImpl for LuaTokenKind', r'^impl vstd::std_specs::cmp::PartialEqSpecImpl for LexerState', 'kind_eq'),
    'name_fns': lambda: _cut(_RT, r'^//@@ is_name_start', r'^/// error sink of the lexer', 'name_fns'),
    # tiled / tok_ok (iface), lemma_tiled_push, reset_then_bumped, real_kind
    'lexer_vocab': lambda: _cut(_RT, r'^//@@include c01_reader/iface\.rs', r"^impl<'a> LuaLexer<'a> \{", 'lexer_vocab'),
    # lemmas of c01_parser about eaten / chain / grows / ev_mono (everything that does not mention LuaParser's `inv`)
    'parser_lemmas': lambda: '\n\n'.join(_spec_item(_PL, n, 'parser_lemmas') for n in (
        'lemma_eaten_push', 'lemma_eaten_same', 'lemma_alters_frame', 'lemma_mono_trans', 'lemma_adjacent_subrange',
        'lemma_chain_cat', 'lemma_grows_refl', 'lemma_grows_push', 'lemma_grows_trans')),
    # frame vocabulary of c01_parser's contract of LuaDocParser::parse
    'parser_frame': lambda: '\n\n'.join(_spec_item(_PL, n, 'parser_frame') for n in ('lvl_ok', 'same_cursor')),
}


def _template():
    t = _read('c01_doc/template.rs')
    out = []
    for line in t.split('\n'):
        m = re.match(r'\s*//@@splice\s+(\w+)\s*$', line)
        if m:
            if m.group(1) not in _SPLICES:
                raise Undecided('c01_doc: unknown splice %s' % m.group(1))
            out.append('// ---- spliced: %s' % m.group(1))
            out.append(_SPLICES[m.group(1)]())
        else:
            out.append(line)
    return '\n'.join(out)


# ---------------------------------------------------------------------------------------------------------
# unit-local rewrite rule: guarded `match` on a char -> if-chain (generalises c01_reader's two rules to guarded
# binding arms in the middle of a match, which LuaDocLexer's state functions are full of)
# ---------------------------------------------------------------------------------------------------------
@rule('match-if-chain')
def match_if_chain(text, **_):
    """every `match` that has at least one GUARDED arm and ends in an unguarded irrefutable arm:
        match E { P1 if G1 => B1, x if G2 => B2, P3 => B3, _ => B4 }
     -> { let vx_m = E; if matches!(vx_m, P1) && (G1) {B1} else if { let x = vx_m; G2 } { let x = vx_m; B2 }
          else if matches!(vx_m, P3) {B3} else {B4} }
    Rust reference, "Match expressions": the scrutinee is evaluated once; arms are tried in order; an arm is taken iff its
    pattern matches and its guard (evaluated with the arm's bindings) is true. Patterns here are char literals / ranges /
    or-patterns (tests without effect, `matches!` is that very test), `_`, or a plain binding `x` (matches every value and
    binds a copy of the scrutinee, a `char`: `let x = vx_m`). A scrutinee that is not `Copy` makes the result fail to
    compile (-> undecided), never changes behaviour. Needed because Verus 0.2026.09.13 loses the `final(..)` link of a
    `&mut` on the fall-through path of a guarded arm (units/c01_reader/probe_guard_limitation.rs)."""
    n = 0
    while True:
        hit = None
        for toks, mi, (scrut, ob, cb, arms) in _rd._matches(text):
            if any(a['guard'] for a in arms):
                hit = (toks, mi, scrut, ob, cb, arms); break
        if not hit: break
        toks, mi, scrut, ob, cb, arms = hit
        last = arms[-1]
        if last['guard'] or not _rd._irrefutable(text, last):
            raise Undecided('match-if-chain: last arm is not an unguarded `_` / binding')
        parts = []
        for a in arms:
            p = text[a['pat'][0]:a['pat'][1]]
            g = text[a['guard'][0]:a['guard'][1]] if a['guard'] else None
            body = _rd._blk(text, a)
            if p == '_':
                cond = '(%s)' % g if g else None
            elif _rd._irrefutable(text, a):
                cond = '{ let %s = vx_m; %s }' % (p, g) if g else None
                body = '{ let %s = vx_m; %s }' % (p, body)
            else:
                if any(t[0] == 'ident' for t in L.code_tokens(p)):
                    raise Undecided('match-if-chain: pattern with identifiers: ' + p)
                cond = 'matches!(vx_m, %s)' % p + (' && (%s)' % g if g else '')
            if a is last:
                parts.append(body)
            else:
                if cond is None:
                    raise Undecided('match-if-chain: unguarded irrefutable arm before the last arm')
                parts.append('if %s %s' % (cond, body))
        new = '{ let vx_m = %s; %s }' % (text[scrut[0]:scrut[1]], ' else '.join(parts))
        text = text[:toks[mi][1]] + new + text[toks[cb][2]:]
        n += 1
    return text, n


DL = 'crates/emmylua_parser/src/lexer/lua_doc_lexer.rs'


def dl_fn(name, **kw):
    d = {'src': {'file': DL, 'kind': 'fn', 'impl': 'LuaDocLexer', 'name': name}}
    d.update(kw)
    return d


RO, RF, RS = '&old(self).reader->0', '&final(self).reader->0', '&self.reader->0'
# frame of every doc-lexer function: the text and the kind of the origin token are never written
LX_FRAME = 'final(self).origin_text == old(self).origin_text, final(self).origin_token_kind == old(self).origin_token_kind'
# contract shared by the 15 state functions and lex_number: called with the reader in front of a char, they only bump
# (the pending token only grows: `bumped`), consume at least that char and return a real kind
ST_REQ = 'old(self).reader is Some, rinv(%s), consumed(%s) < r_n(%s)' % (RO, RO, RO)
ST_ENS = """final(self).reader is Some,
        bumped(%(RO)s, %(RF)s) /*@C01.doclexer.tiles-its-range*/,
        consumed(%(RF)s) > consumed(%(RO)s) /*@C02.doclexer.progress*/,
        real_kind(r) /*@C01.doclexer.real-kind*/,
        %(FR)s""" % {'RO': RO, 'RF': RF, 'FR': LX_FRAME}
ST_FIRST = 'proof { lemma_rinv(%s); }' % RS


def st_fn(name, rules=(), **kw):
    d = dl_fn(name, ret='r', requires=ST_REQ, ensures=ST_ENS, body_first=ST_FIRST, attrs='#[verifier::spinoff_prover]')
    if rules: d['rules'] = list(rules)
    d.update(kw)
    return d


def free_fn(name, **kw):
    d = {'src': {'file': DL, 'kind': 'fn', 'name': name}}
    d.update(kw)
    return d


def scan_loop(extra=''):
    return """
    invariant
        rinv(old(reader)), bumped(old(reader), &*reader),
        %s
    decreases r_n(&*reader) - consumed(&*reader) /*@C02.doclexer.scan-loops-terminate*/
""" % extra


DOCLEXER = {
    'LuaDocLexer': {'src': {'file': DL, 'kind': 'struct', 'name': 'LuaDocLexer'}, 'rules': [('struct-fields', {})]},
    'LuaDocLexerState': {'src': {'file': DL, 'kind': 'enum', 'name': 'LuaDocLexerState', 'drop_attrs': False}},
    'LuaDocLexer::new': dl_fn('new', ret='r',
                              ensures='r.origin_text == origin_text, r.reader is None, r.state == LuaDocLexerState::Init, r.origin_token_kind == LuaTokenKind::None'),
    'LuaDocLexer::is_invalid': dl_fn(
        'is_invalid', ret='r', requires='self.reader is Some ==> rinv(&self.reader->0)',
        ensures='r == lx_done(self) /*@C01.doclexer.invalid-iff-range-exhausted*/'),
    'LuaDocLexer::reset': dl_fn(
        'reset',
        requires="""str_len_ok(old(self).origin_text),
        range.start_offset + range.length <= old(self).origin_text.spec_bytes().len(),
        is_char_boundary(old(self).origin_text.spec_bytes(), range.start_offset as int),
        is_char_boundary(old(self).origin_text.spec_bytes(), range.start_offset + range.length)""",
        ensures="""lxinv(final(self)), final(self).reader is Some,
        final(self).reader->0.valid_range == range /*@C01.doclexer.reset-reads-the-range*/,
        final(self).reader->0.current_buffer_byte_pos == 0 && final(self).reader->0.current_buffer_byte_len == 0 /*@C01.doclexer.reset-starts-at-range-start*/,
        consumed(%(RF)s) == 0,
        final(self).origin_text == old(self).origin_text, final(self).origin_token_kind == kind, final(self).state == old(self).state""" % {'RF': RF},
        proof=[(r'let text = &self\.origin_text\[[^;]*;', 'after', 'proof { assert(text.spec_bytes().len() == range.length); }')]),
    'LuaDocLexer::lex': dl_fn(
        'lex', ret='r',
        requires='old(self).reader is Some, rinv(%s)' % RO,
        ensures="""final(self).reader is Some,
        reset_then_bumped(%(RO)s, %(RF)s) /*@C01.doclexer.tiles-its-range*/,
        consumed(%(RO)s) < r_n(%(RO)s) ==> consumed(%(RF)s) > consumed(%(RO)s) /*@C02.doclexer.progress*/,
        (r == LuaTokenKind::TkEof) <==> consumed(%(RO)s) == r_n(%(RO)s) /*@C01.doclexer.eof-only-when-range-exhausted*/,
        consumed(%(RO)s) < r_n(%(RO)s) ==> real_kind(r) /*@C01.doclexer.real-kind*/,
        %(FR)s""" % {'RO': RO, 'RF': RF, 'FR': LX_FRAME},
        proof=[(r'match self\.state \{', 'before', 'let ghost mid = self.reader->0;\nproof { lemma_rinv(&mid); lemma_rinv(%s); }' % RO)]),
    'LuaDocLexer::current_token_range': dl_fn(
        'current_token_range', ret='r', requires='self.reader is Some, rinv(&self.reader->0)',
        ensures='r.start_offset == lx_lo(self), r.length == self.reader->0.current_buffer_byte_len /*@C01.doclexer.token-range-is-pending-token*/'),
}


# closures handed to Reader::eat_while: ghost `ensures` annotations (the executable body is unchanged and the
# annotation is CHECKED against it); needed where progress of an arm rests on eat_while eating the first char
CLOSURE_RULES = [
    ('closure-true-ensures', r'\|_\| true', '|_c: char| -> (vx_b: bool) ensures vx_b { true }',
     'closure `|_| true` -> `|_c: char| -> (vx_b: bool) ensures vx_b { true }`: parameter `_` named (Verus accepts only variables as closure '
     'parameters) and the closure body restated as a verified `ensures`; executable body unchanged'),
    ('closure-ascii-digit-ensures', r"\|(\w+)\| \1\.is_ascii_digit\(\)( \|\| \1 == '\.')?(?=\))",
     lambda m: "|%(x)s: char| -> (vx_b: bool) ensures vx_b == (('0' <= %(x)s && %(x)s <= '9')%(dot)s) { %(x)s.is_ascii_digit()%(tail)s }" % {
         'x': m.group(1), 'dot': " || %s == '.'" % m.group(1) if m.group(2) else '', 'tail': m.group(2) or ''},
     "closure `|c| c.is_ascii_digit() [|| c == '.']` gets its own meaning (std doc of char::is_ascii_digit) as a verified `ensures` annotation; "
     'executable body unchanged'),
    ('closure-ascii-alpha-ensures', r'\|(\w+)\| \1\.is_ascii_alphabetic\(\)(?=\))',
     lambda m: "|%(x)s: char| -> (vx_b: bool) ensures vx_b == (('A' <= %(x)s && %(x)s <= 'Z') || ('a' <= %(x)s && %(x)s <= 'z')) { %(x)s.is_ascii_alphabetic() }" % {'x': m.group(1)},
     'closure `|c| c.is_ascii_alphabetic()` gets its own meaning (std doc of char::is_ascii_alphabetic) as a verified `ensures` annotation; executable body unchanged'),
    ('long-desc-trailing-count',
     r"let mut chars = text\.chars\(\)\.rev\(\)\.peekable\(\);\s*let mut trivia_count = 0;\s*while let Some\(&ch\) = chars\.peek\(\) \{\s*"
     r"if ch != '\]' && ch != '=' \{\s*break;\s*\}\s*chars\.next\(\);\s*trivia_count \+= 1;\s*\}",
     'let trivia_count = vx_trailing_close_count(text);',
     "lex_long_description: the loop that counts the trailing ']' / '=' chars of the token text (Rev<Chars> / Peekable / ref patterns: no Verus "
     'support) -> call of the shim vx_trailing_close_count(text), ASSUMED ensures r <= text.len() (it counts chars of `text`, a char is at least one byte)'),
]

FN_ENS = {'is_doc_whitespace': "r == (ch == ' ' || ch == '\\t' || ch == '\\r' || ch == '\\n')"}

MIC = 'match-if-chain'
CT = 'closure-true-ensures'

DOCLEXER.update({
    'LuaDocLexer::lex_init': st_fn('lex_init', rules=[(MIC, {'count': 1}), CT]),
    'LuaDocLexer::lex_tag': st_fn('lex_tag', rules=[(MIC, {'count': 1}), CT]),
    'LuaDocLexer::lex_normal': st_fn('lex_normal', rules=[(MIC, {'count': 1}), CT, 'closure-ascii-digit-ensures'], attrs='#[verifier::spinoff_prover]'),
    'LuaDocLexer::lex_field_start': st_fn('lex_field_start', rules=[(MIC, {'count': 1})]),
    'LuaDocLexer::lex_description': st_fn('lex_description', rules=[(MIC, {'count': 1}), CT]),
    'LuaDocLexer::lex_long_description': st_fn(
        'lex_long_description', rules=['long-desc-trailing-count', CT],
        loops={0: """
    invariant
        rinv(%(RO)s), bumped(%(RO)s, &*reader), end_pos <= reader.text.spec_bytes().len(),
    decreases r_n(&*reader) - consumed(&*reader) /*@C02.doclexer.scan-loops-terminate*/
""" % {'RO': RO}},
        proof=[(r'reader\.bump\(\);', 'before', 'proof { lemma_rinv(&*reader); }')]),
    'LuaDocLexer::lex_trivia': st_fn('lex_trivia', rules=[CT]),
    'LuaDocLexer::lex_see': st_fn('lex_see', rules=[CT]),
    'LuaDocLexer::lex_version': st_fn('lex_version', rules=[(MIC, {'count': 1}), 'closure-ascii-digit-ensures']),
    'LuaDocLexer::lex_source': st_fn('lex_source', rules=[(MIC, {'count': 1})]),
    'LuaDocLexer::lex_normal_description': st_fn('lex_normal_description', rules=[(MIC, {'count': 1}), CT, 'closure-ascii-alpha-ensures']),
    'LuaDocLexer::lex_cast_expr': st_fn('lex_cast_expr', rules=[(MIC, {'count': 1})]),
    'LuaDocLexer::lex_attribute_use': st_fn('lex_attribute_use', rules=[(MIC, {'count': 1})]),
    'LuaDocLexer::lex_mapped': st_fn('lex_mapped', rules=[(MIC, {'count': 1})]),
    'LuaDocLexer::lex_extends': st_fn('lex_extends', rules=[(MIC, {'count': 1})]),
    'LuaDocLexer::lex_number': st_fn(
        'lex_number', rules=[MIC],
        loops={0: """
    invariant
        rinv(%(RO)s), bumped(%(RO)s, &*reader), consumed(&*reader) > consumed(%(RO)s),
    decreases r_n(&*reader) - consumed(&*reader) /*@C02.doclexer.scan-loops-terminate*/
""" % {'RO': RO}}),
    'to_tag': free_fn('to_tag', ret='r', ensures='real_kind(r) /*@C01.doclexer.real-kind*/'),
    'to_modification_or_name': free_fn('to_modification_or_name', ret='r', ensures='real_kind(r) /*@C01.doclexer.real-kind*/'),
    'to_token_or_name': free_fn('to_token_or_name', ret='r', ensures='real_kind(r) /*@C01.doclexer.real-kind*/'),
    'is_doc_whitespace': free_fn('is_doc_whitespace', ret='r', ensures=FN_ENS['is_doc_whitespace']),
    'is_source_continue': free_fn('is_source_continue'),
    'read_doc_name': free_fn(
        'read_doc_name', ret='r', rules=[(MIC, {'count': 1})],
        requires='rinv(old(reader))',
        ensures="""bumped(old(reader), final(reader)) /*@C01.doclexer.tiles-its-range*/,
        consumed(old(reader)) < r_n(old(reader)) ==> consumed(final(reader)) > consumed(old(reader)) /*@C02.doclexer.progress*/""",
        body_first='proof { lemma_rinv(&*reader); }',
        loops={0: """
    invariant
        rinv(old(reader)), bumped(old(reader), &*reader),
        consumed(old(reader)) < r_n(old(reader)) ==> consumed(&*reader) > consumed(old(reader)),
    decreases r_n(&*reader) - consumed(&*reader) /*@C02.doclexer.scan-loops-terminate*/
"""}),
})


# =========================================================================================================
# D2: the doc parser driver
# =========================================================================================================
DP = 'crates/emmylua_parser/src/parser/lua_doc_parser.rs'
LP = 'crates/emmylua_parser/src/parser/lua_parser.rs'
MK = 'crates/emmylua_parser/src/parser/marker.rs'
SK = 'crates/emmylua_parser/src/kind/lua_syntax_kind.rs'
TR = 'crates/emmylua_parser/src/text/text_range.rs'
GD = 'crates/emmylua_parser/src/grammar/doc/mod.rs'


def dp_fn(name, **kw):
    d = {'src': {'file': DP, 'kind': 'fn', 'impl': 'LuaDocParser', 'name': name}}
    d.update(kw)
    return d


def dpc_fn(name, **kw):
    d = {'src': {'file': DP, 'kind': 'fn', 'impl': 'MarkerEventContainer for LuaDocParser', 'name': name}, 'pub': False}
    d.update(kw)
    return d


O, F, S = 'old(self)', 'final(self)', '&*self'
# what every driver function that may eat establishes: the invariant again, a pending token or TkEof (never None), and
# "the EatToken ranges appended tile [front(old), front(final))"
EATS = """dinv(final(self)) /*@C01.docparser.invariant*/,
        !(final(self).current_token is None),
        ate(old(self), final(self)) /*@C01.docparser.eaten-tile-prefix*/,
        final(self).sp_level() == old(self).sp_level()"""
SPIN = '#[verifier::spinoff_prover]'

# ghost interface of the trait (rule trait-spec-overlay of unit c01_parser, with a prophetic `sp_rest`: for the doc
# parser it mentions the final value of the borrowed LuaParser)
TRAIT_GHOST = """
    // ghost interface added by rule `trait-spec-overlay` (specification only)
    spec fn sp_events(&self) -> Seq<MarkEvent>;
    spec fn sp_level(&self) -> nat;
    #[verifier::prophetic]
    spec fn sp_rest(&self) -> Rest<'_>;
    proof fn lemma_events_bounded(&self) ensures self.sp_events().len() <= usize::MAX;
"""

WS_LOOP = """
    invariant
        dinv(self) /*@C01.docparser.invariant*/,
        !(self.current_token is None), lexready(old(self)),
        dframe(old(self), self), self.sp_level() == old(self).sp_level(),
        tiles(eaten(self.lua_parser.events@).skip(eaten(old(self).lua_parser.events@).len() as int), nxt(old(self)), front(self), self.lexer.origin_text.spec_bytes()) /*@C01.docparser.eaten-tile-prefix*/,
    decreases span_hi(self.tokens@) - front(self) /*@C02.docparser.skip-loops-terminate*/
"""
WS_STEP = """
            let ghost q0 = *self;
            proof { lemma_front_bounds(&q0); }
            self.eat_current_and_lex_next();
            proof {
                lemma_front_bounds(&*self);
                lemma_dframe_trans(old(self), &q0, &*self);
                lemma_tiles_step(eaten(old(self).lua_parser.events@), eaten(q0.lua_parser.events@), eaten(self.lua_parser.events@),
                    nxt(old(self)), front(&q0), front(&*self), self.lexer.origin_text.spec_bytes());
            }"""


def m_fn(owner, name, **kw):
    d = {'src': {'file': MK, 'kind': 'fn', 'impl': owner, 'name': name}}
    d.update(kw)
    return d


def pc_fn(name, **kw):
    d = {'src': {'file': LP, 'kind': 'fn', 'impl': 'MarkerEventContainer for LuaParser', 'name': name}, 'pub': False}
    d.update(kw)
    return d


# contracts of the marker API (generic over P: MarkerEventContainer). Same clauses as unit c01_parser proves for them (kept as
# own text here: that unit's tables are being extended with clauses about c01_green's `events_ok`, which this unit does not use)
FRAME_P = ('final(p).sp_rest() == old(p).sp_rest() /*@C01.marker.frame*/,\n'
           '            eaten(final(p).sp_events()) == eaten(old(p).sp_events()) /*@C01.marker.frame*/,\n'
           '            ev_mono(old(p).sp_events(), final(p).sp_events()) /*@C02.marker.nodestart-stable*/')
FRAME_SELF = FRAME_P.replace('(p)', '(self)')
TRAIT_METHODS = {
    'get_mark_level': {'ret': 'r', 'ensures': 'r == self.sp_level()'},
    'incr_mark_level': {
        'requires': 'old(self).sp_level() < usize::MAX',
        'ensures': 'final(self).sp_level() == old(self).sp_level() + 1, final(self).sp_events() == old(self).sp_events(), final(self).sp_rest() == old(self).sp_rest()'},
    'decr_mark_level': {
        'requires': 'old(self).sp_level() > 0',
        'ensures': 'final(self).sp_level() == old(self).sp_level() - 1, final(self).sp_events() == old(self).sp_events(), final(self).sp_rest() == old(self).sp_rest()'},
    'get_events': {
        'ret': 'r',
        'ensures': 'r@ == old(self).sp_events(), final(self).sp_events() == final(r)@, final(self).sp_level() == old(self).sp_level(), final(self).sp_rest() == old(self).sp_rest()'},
    'mark': {
        'ret': 'm',
        'requires': 'old(self).sp_level() <= old(self).sp_events().len()',
        'ensures': """final(self).sp_events() == old(self).sp_events().push(MarkEvent::NodeStart { kind, parent: 0 }),
            m.position == old(self).sp_events().len(),
            final(self).sp_level() == old(self).sp_level() + 1,
            """ + FRAME_SELF,
        'body_first': 'broadcast use lemma_eaten_push;',
        'proof': [(r'\.push\(MarkEvent::NodeStart \{ kind, parent: 0 \}\);', 'after', 'proof { self.lemma_events_bounded(); }')]},
    'push_node_end': {
        'requires': 'old(self).sp_level() > 0',
        'ensures': """final(self).sp_events() == old(self).sp_events().push(MarkEvent::NodeEnd),
            final(self).sp_level() == old(self).sp_level() - 1,
            """ + FRAME_SELF,
        'body_first': 'broadcast use lemma_eaten_push;'},
}
MARKER_OK = 'self.position < old(p).sp_events().len(), old(p).sp_events()[self.position as int] is NodeStart'
DERIVE_KIND = '#[derive(Clone, Copy, PartialEq, Eq, Structural)]'

DRIVER = {
    'LuaSyntaxKind': {'src': {'file': SK, 'kind': 'enum', 'name': 'LuaSyntaxKind'}, 'attrs': DERIVE_KIND},
    'MarkEvent': {'src': {'file': MK, 'kind': 'enum', 'name': 'MarkEvent'}},
    'SourceRange::EMPTY': {'src': {'file': TR, 'kind': 'const', 'impl': 'SourceRange', 'name': 'EMPTY'}},
    'MarkerEventContainer': {
        'src': {'file': MK, 'kind': 'trait', 'name': 'MarkerEventContainer'},
        'rules': ['vis-pub', ('trait-spec-overlay', {'ghost': TRAIT_GHOST, 'methods': TRAIT_METHODS})],
    },
    'Marker': {'src': {'file': MK, 'kind': 'struct', 'name': 'Marker'}, 'rules': ['vis-pub']},
    'Marker::new': m_fn('Marker', 'new', ret='r', ensures='r.position == position'),
    'Marker::complete': m_fn(
        'Marker', 'complete', ret='cm',
        requires=MARKER_OK + ',\n        old(p).sp_events().len() != self.position + 1 ==> old(p).sp_level() > 0',
        ensures="""old(p).sp_events().len() == self.position + 1 ==> final(p).sp_level() == old(p).sp_level(),
            old(p).sp_events().len() != self.position + 1 ==> final(p).sp_level() == old(p).sp_level() - 1,
            old(p).sp_level() <= old(p).sp_events().len() ==> final(p).sp_level() <= final(p).sp_events().len(),
            """ + FRAME_P,
        body_first='broadcast use lemma_eaten_push;',
        proof=[(r'return CompleteMarker \{', 'before',
                'proof { lemma_alters_frame(old(p).sp_events(), p.sp_events(), self.position as int); }')]),
    'Marker::undo': m_fn(
        'Marker', 'undo', ret='cm',
        requires=MARKER_OK,
        ensures="""alters_start(old(p).sp_events(), final(p).sp_events(), self.position as int) /*@C02.marker.touches-own-nodestart-only*/,
            final(p).sp_level() == old(p).sp_level(),
            """ + FRAME_P,
        proof=[(r'_ => unreachable!\(\),\s*\}', 'after',
                'proof { lemma_alters_frame(old(p).sp_events(), p.sp_events(), self.position as int); }')]),
    'CompleteMarker': {'src': {'file': MK, 'kind': 'struct', 'name': 'CompleteMarker'}, 'rules': ['vis-pub', ('struct-fields', {})]},
    'LuaParser': {'src': {'file': LP, 'kind': 'struct', 'name': 'LuaParser'},
                  'rules': [('struct-fields', {'keep': ['text', 'events', 'tokens', 'token_index', 'current_token', 'mark_level', 'parse_config']})]},
    'LuaParser::get_mark_level': pc_fn('get_mark_level', body_first='proof { assert(self.sp_level() == self.mark_level); }  // (hint: makes the impl\'s definition of sp_level part of the query)'), 'LuaParser::incr_mark_level': pc_fn('incr_mark_level'),
    'LuaParser::decr_mark_level': pc_fn('decr_mark_level'), 'LuaParser::get_events': pc_fn('get_events'),
    'LuaParser::origin_text': {'src': {'file': LP, 'kind': 'fn', 'impl': 'LuaParser', 'name': 'origin_text'}, 'ret': 'r', 'ensures': 'r == self.text'},

    'LuaDocParserState': {'src': {'file': DP, 'kind': 'enum', 'name': 'LuaDocParserState', 'drop_attrs': False}},
    'LuaDocParser': {'src': {'file': DP, 'kind': 'struct', 'name': 'LuaDocParser'}, 'rules': [('struct-fields', {})]},
    'LuaDocParser::get_mark_level': dpc_fn('get_mark_level'), 'LuaDocParser::incr_mark_level': dpc_fn('incr_mark_level'),
    'LuaDocParser::decr_mark_level': dpc_fn('decr_mark_level'), 'LuaDocParser::get_events': dpc_fn('get_events'),
    'is_invalid_kind': {'src': {'file': DP, 'kind': 'fn', 'name': 'is_invalid_kind'}, 'ret': 'r',
                        'ensures': 'r == !real_kind(kind) /*@C01.docparser.invalid-kinds-are-none-and-eof*/'},

    'LuaDocParser::lex_token': dp_fn(
        'lex_token', ret='t', attrs=SPIN,
        requires='lexready(old(self))',
        ensures="""dbase(final(self)), dframe(old(self), final(self)), final(self).sp_level() == old(self).sp_level(),
        t.kind is TkEof ==> lx_done(&old(self).lexer),
        final(self).lua_parser.events@ == old(self).lua_parser.events@,
        final(self).current_token == old(self).current_token, final(self).current_token_range == old(self).current_token_range,
        final(self).origin_token_index >= old(self).origin_token_index,
        t.kind is TkEof ==> (nxt(old(self)) == span_hi(old(self).tokens@) && t.range.start_offset == nxt(old(self)) && t.range.length == 0
            && rend(old(self).current_token_range) == span_hi(old(self).tokens@)
            && lx_done(&final(self).lexer) && final(self).origin_token_index == final(self).tokens@.len() - 1) /*@C01.docparser.eof-only-when-all-origin-tokens-are-lexed*/,
        !(t.kind is TkEof) ==> (real_kind(t.kind) && t.range.start_offset == nxt(old(self)) && placed(final(self), t.range)) /*@C01.docparser.next-token-starts-where-lexing-stopped*/""",
        body_first="""
        proof { lemma_dframe_refl(&*self); }""",
        loops={0: """
    invariant_except_break
        lexready(self), dframe(old(self), self), self.sp_level() == old(self).sp_level(),
        self.lua_parser.events@ == old(self).lua_parser.events@, self.lexer == old(self).lexer,
        self.current_token == old(self).current_token, self.current_token_range == old(self).current_token_range,
        self.origin_token_index == old(self).origin_token_index,
    ensures
        dbase(self), dframe(old(self), self), self.sp_level() == old(self).sp_level(),
        self.lua_parser.events@ == old(self).lua_parser.events@,
        self.current_token == old(self).current_token, self.current_token_range == old(self).current_token_range,
        self.origin_token_index >= old(self).origin_token_index,
        self.lexer.reader is Some, real_kind(kind),
        lx_end(&self.lexer) == rend(self.tokens@[self.origin_token_index as int].range),
        self.tokens@[self.origin_token_index as int].range.start_offset <= self.lexer.reader->0.valid_range.start_offset,
        lx_lo(&self.lexer) == nxt(old(self)),
        self.lexer.reader->0.current_buffer_byte_len > 0,
    decreases 0int
"""},
        proof=[
            (r'if self\.lexer\.is_invalid\(\) \{', 'before', """
            proof {
                if self.lexer.reader is Some { lemma_lx(&self.lexer); lemma_rinv(&self.lexer.reader->0); }
                let ti = self.origin_token_index as int;
                if ti + 1 < self.tokens@.len() { lemma_tok_next(self.tokens@, self.lexer.origin_text.spec_bytes(), ti); }
            }"""),
            (r'\.reset\(next_origin_token\.kind, next_origin_token\.range\);', 'after', """
                proof { lemma_rinv(&self.lexer.reader->0); lemma_lx(&self.lexer); }"""),
            (r'kind = self\.lexer\.lex\(\);', 'before', 'let ghost lx0 = self.lexer;'),
            (r'kind = self\.lexer\.lex\(\);', 'after', """
            proof { lemma_rinv(&lx0.reader->0); lemma_rinv(&self.lexer.reader->0); lemma_lx(&lx0); }"""),
            (r'LuaTokenData::new\(kind, self\.lexer\.current_token_range\(\)\)\s*\}\s*$', 'before', 'proof { lemma_lx(&self.lexer); }'),
        ]),

    'LuaDocParser::eat_current_and_lex_next': dp_fn(
        'eat_current_and_lex_next', attrs=SPIN,
        requires='dinv(old(self)), real_kind(old(self).current_token)',
        ensures=EATS + """,
        front(final(self)) == rend(old(self).current_token_range) /*@C02.docparser.eat-progress*/,
        eaten(final(self).lua_parser.events@) == eaten(old(self).lua_parser.events@).push(old(self).current_token_range) /*@C01.docparser.eat-pushes-current-range*/""",
        proof=[(r'let token = self\.lex_token\(\);', 'before', """
        let ghost q0 = *self;
        proof { lemma_after_push(old(self), &q0); /*@C01.docparser.eaten-tile-prefix*/ }"""),
               (r'self\.current_token_range = token\.range;\s*\}', 'after', """
        proof {
            lemma_tiles_refl(eaten(q0.lua_parser.events@), nxt(&q0), self.lexer.origin_text.spec_bytes());
            lemma_after_next(old(self), &q0, &*self);
        }""")]),

    'LuaDocParser::calc_next_current_token': dp_fn(
        'calc_next_current_token', attrs=SPIN,
        requires='lexready(old(self))',
        ensures="""dinv(final(self)) /*@C01.docparser.invariant*/,
        !(final(self).current_token is None),
        dframe(old(self), final(self)), final(self).sp_level() == old(self).sp_level(),
        tiles(eaten(final(self).lua_parser.events@).skip(eaten(old(self).lua_parser.events@).len() as int), nxt(old(self)), front(final(self)), old(self).lexer.origin_text.spec_bytes()) /*@C01.docparser.eaten-tile-prefix*/""",
        loops={0: WS_LOOP, 1: WS_LOOP, 2: WS_LOOP, 3: WS_LOOP},
        rules=[('c01doc-ws-step', {'count': 4})],
        proof=[(r'if self\.current_token == LuaTokenKind::TkEof \{', 'before', """
        proof {
            lemma_tiles_refl(eaten(old(self).lua_parser.events@), nxt(old(self)), self.lexer.origin_text.spec_bytes());
        }""")]),

    'LuaDocParser::bump': dp_fn(
        'bump', attrs=SPIN,
        requires='dinv(old(self))',
        ensures=EATS + """,
        real_kind(old(self).current_token) ==> front(final(self)) > front(old(self)) /*@C02.docparser.bump-progress*/""",
        proof=[(r'self\.calc_next_current_token\(\);', 'before', """
        let ghost q0 = *self;
        proof { lemma_after_push(old(self), &q0); /*@C01.docparser.eaten-tile-prefix*/ }"""),
               (r'self\.calc_next_current_token\(\);', 'after', """
        proof { lemma_after_next(old(self), &q0, &*self); }""")]),

    'LuaDocParser::init': dp_fn(
        'init',
        requires='dinv(old(self)), old(self).current_token is None, old(self).lexer.reader is None',
        ensures=EATS + ',\n        front(old(self)) == span_lo(old(self).tokens@)'),

    'LuaDocParser::current_token': dp_fn('current_token', ret='r', ensures='r == self.current_token'),
    'LuaDocParser::current_token_range': dp_fn('current_token_range', ret='r', ensures='r == self.current_token_range'),
    'LuaDocParser::origin_text': dp_fn('origin_text', ret='r', ensures='r == self.sp_rest().text'),
    'LuaDocParser::set_parser_state': dp_fn(
        'set_parser_state',
        ensures='final(self).sp_rest() == (Rest { doc: Some(DocRest { state: state, ..old(self).sp_rest().doc->0 }), ..old(self).sp_rest() }), final(self).sp_events() == old(self).sp_events(), final(self).sp_level() == old(self).sp_level()'),
    'LuaDocParser::set_current_token_kind': dp_fn(
        'set_current_token_kind',
        requires='dinv(old(self)), real_kind(old(self).current_token), real_kind(kind)',
        ensures=EATS + ',\n        final(self).lua_parser.events@ == old(self).lua_parser.events@, front(final(self)) == front(old(self)), final(self).current_token == kind',
        body_first='proof { lemma_ate_refl(&*self); }'),
}


NOT_RELEX = '!(state is Description) && !(state is Normal)'
RESET_HINT = """
        let ghost q1 = *self;
        proof {
            lemma_lx(&old(self).lexer);
            lemma_rinv(&self.lexer.reader->0);
            lemma_lx(&self.lexer);
            // only the lexer (re-positioned at the start of the current token) and the kind of the current token have changed
            lemma_dframe_refl(old(self));
            assert(dframe(old(self), &q1));
            lemma_tiles_refl(eaten(old(self).lua_parser.events@), front(old(self)), self.lexer.origin_text.spec_bytes());
            assert(front(&q1) == front(old(self))) /*@C01.docparser.relex-starts-at-current-token-start*/;
            assert(ate(old(self), &q1)) /*@C01.docparser.eaten-tile-prefix*/;
        }"""
DRIVER.update({
    'LuaDocParser::re_calc_detail': dp_fn(
        're_calc_detail', attrs=SPIN,
        requires='dinv(old(self)), real_kind(old(self).current_token)',
        ensures=EATS,
        body_first='proof { lemma_ate_refl(&*self); }',
        proof=[(r'self\.lexer\.state = LuaDocLexerState::Description;', 'after', RESET_HINT + """
        proof { assert(dinv(&q1)) /*@C01.docparser.relex-nothing-pending*/; }"""),
               (r'self\.bump\(\);', 'after', 'proof { lemma_ate_trans(old(self), &q1, &*self); }')]),
    'LuaDocParser::re_calc_cast_type': dp_fn(
        're_calc_cast_type', attrs=SPIN,
        requires='dinv(old(self)), !(old(self).current_token is None)',
        ensures=EATS + ',\n        front(final(self)) == front(old(self)), final(self).lua_parser.events@ == old(self).lua_parser.events@, real_kind(final(self).current_token) == real_kind(old(self).current_token)',
        body_first='proof { lemma_ate_refl(&*self); }',
        proof=[(r'self\.lexer\.state = LuaDocLexerState::Normal;', 'after', RESET_HINT),
               (r'self\.current_token_range = token\.range;\s*\}', 'after', """
        proof {
            lemma_dframe_trans(old(self), &q1, &*self);
            lemma_tiles_refl(eaten(old(self).lua_parser.events@), front(old(self)), self.lexer.origin_text.spec_bytes());
        }""")]),
    'LuaDocParser::set_lexer_state': dp_fn(
        'set_lexer_state', attrs=SPIN,
        requires='dinv(old(self)), !(old(self).current_token is None)',
        ensures=EATS + """,
        final(self).lexer.state == state,
        (%(NR)s) ==> front(final(self)) == front(old(self)) && final(self).lua_parser.events@ == old(self).lua_parser.events@
            && real_kind(final(self).current_token) == real_kind(old(self).current_token)""" % {'NR': NOT_RELEX},
        body_first='proof { lemma_ate_refl(&*self); }'),
    'LuaDocParser::bump_to_end': dp_fn(
        'bump_to_end', attrs=SPIN,
        requires='dinv(old(self)), real_kind(old(self).current_token)',
        ensures=EATS + ',\n        front(final(self)) > front(old(self)) /*@C02.docparser.bump-progress*/',
        proof=[(r'self\.set_lexer_state\(LuaDocLexerState::Trivia\);', 'after', 'let ghost q1 = *self;'),
               (r'self\.set_lexer_state\(LuaDocLexerState::Init\);', 'before', 'let ghost q2 = *self;'),
               (r'self\.set_lexer_state\(LuaDocLexerState::Init\);', 'after', 'let ghost q3 = *self;'),
               (r'self\.bump\(\);', 'after', """
        proof {
            lemma_ate_trans(old(self), &q1, &q2); lemma_ate_trans(old(self), &q2, &q3); lemma_ate_trans(old(self), &q3, &*self);
            lemma_ate_le(&q3, &*self);
        }""")]),
    'LuaDocParser::current_token_text': dp_fn(
        'current_token_text', ret='r', requires='dinv(self), real_kind(self.current_token)',
        body_first='proof { if !lx_done(&self.lexer) { lemma_lx(&self.lexer); } }'),
    'LuaDocParser::parse': dp_fn(
        'parse', attrs=SPIN,
        requires="""lvl_ok(old(lua_parser)), str_len_ok(old(lua_parser).text),
        dtoks_ok(tokens@, old(lua_parser).text.spec_bytes())""",
        ensures="""same_cursor(final(lua_parser), old(lua_parser)), final(lua_parser).text == old(lua_parser).text,
        ev_mono(old(lua_parser).events@, final(lua_parser).events@),
        final(lua_parser).mark_level >= old(lua_parser).mark_level,
        lvl_ok(final(lua_parser)),
        grows(eaten(old(lua_parser).events@), eaten(final(lua_parser).events@)),
        chain_over(eaten(final(lua_parser).events@).skip(eaten(old(lua_parser).events@).len() as int), ranges(tokens@)) /*@C01.docparser.parse-emits-whole-span*/,
        forall|i: int| eaten(old(lua_parser).events@).len() <= i < eaten(final(lua_parser).events@).len()
            ==> is_char_boundary(old(lua_parser).text.spec_bytes(), (#[trigger] eaten(final(lua_parser).events@)[i]).start_offset as int) /*@C01.docparser.eaten-ranges-start-on-char-boundaries*/""",
        proof=[(r'state: LuaDocParserState::Normal,\s*\};', 'after', 'let ghost q0 = parser;'),
               (r'parse_comment\(&mut parser\);', 'before', 'let ghost q1 = parser;'),
               (r'parse_comment\(&mut parser\);', 'after', """
        proof {
            lemma_gstep_of_drive(&q0, &q1);
            lemma_gstep_trans(&q0, &q1, &parser);
            let e0 = eaten(q0.lua_parser.events@);
            let e9 = eaten(parser.lua_parser.events@);
            let d = e9.skip(e0.len() as int);
            let r = ranges(tokens@);
            assert(r[0] == tokens@[0].range);
            assert(r.last() == tokens@.last().range);
            assert forall|i: int| e0.len() <= i < e9.len() implies is_char_boundary(q0.lexer.origin_text.spec_bytes(), (#[trigger] e9[i]).start_offset as int) by {
                assert(e9[i] == d[i - e0.len()]);
            }
        }""")]),
})

# =========================================================================================================
# D3: parse_comment and its loop (grammar/doc/mod.rs); tag grammar under the frame contract gram_pre / gram_post
# =========================================================================================================
def gd_fn(name, **kw):
    d = {'src': {'file': GD, 'kind': 'fn', 'name': name}, 'requires': 'gram_pre(old(p))',
         'ensures': 'gram_post(old(p), final(p)) /*@C01.docparser.grammar-keeps-invariant*/'}
    d.update(kw)
    return d


GB = 'broadcast use {lemma_gstep_trans, lemma_gstep_of_drive, lemma_gstep_of_marker};'
GLOOP = """
    invariant
        gram_pre(old(p)), gstep(old(p), p), plvl_ok(p), %(X)s
    decreases span_hi(p.tokens@) - front(p) /*@C02.docparser.grammar-loops-terminate*/
"""
MARKED = 'm.position < p.sp_events().len(), p.sp_events()[m.position as int] is NodeStart, p.sp_level() > old(p).sp_level(),'

GRAMMAR = {
    'parse_comment': gd_fn(
        'parse_comment', attrs=SPIN,
        ensures="""gram_post(old(p), final(p)) /*@C01.docparser.grammar-keeps-invariant*/,
        final(p).current_token is TkEof && front(final(p)) == span_hi(final(p).tokens@) /*@C01.docparser.parse-emits-whole-span*/""",
        body_first=GB),
    'parse_docs': gd_fn(
        'parse_docs', attrs=SPIN,
        ensures="""gram_post(old(p), final(p)) /*@C01.docparser.grammar-keeps-invariant*/,
        final(p).current_token is TkEof /*@C01.docparser.loop-ends-only-at-eof*/""",
        body_first=GB + '\nproof { lemma_gstep_refl(&*p); }',
        loops={0: GLOOP % {'X': 'p.sp_level() >= old(p).sp_level(),'},
               1: GLOOP % {'X': MARKED + ' front(p) > front(&s0),'}},
        proof=[(r'match p\.current_token\(\) \{', 'before', GB + '\nlet ghost s0 = *p;'),
               (r'\| LuaTokenKind::TkNormalStart = p\.current_token\(\)\s*\{', 'after', GB)]),
    'parse_description': gd_fn(
        'parse_description', attrs=SPIN, body_first=GB,
        loops={0: GLOOP % {'X': MARKED}},
        proof=[(r'\| LuaTokenKind::TkNormalStart = p\.current_token\(\)\s*\{', 'after', GB)]),
    'if_token_bump': gd_fn(
        'if_token_bump', ret='r',
        ensures="""gram_post(old(p), final(p)) /*@C01.docparser.grammar-keeps-invariant*/,
        final(p).sp_level() == old(p).sp_level()""",
        body_first=GB + '\nproof { lemma_gstep_refl(&*p); }'),
}

UNIT = {
    'items': dict(_rd.READER, **{k: _rd.LEXER[k] for k in ('LuaTokenKind', 'LuaTokenData', 'LuaTokenData::new', 'is_name_start', 'is_name_continue')}),
    'extra_rules': list(_rd.UNIT['extra_rules']) + CLOSURE_RULES + [
        ('c01doc-ws-step', r'\n\s*self\.eat_current_and_lex_next\(\);', WS_STEP,
         'calc_next_current_token: ghost bookkeeping around each `self.eat_current_and_lex_next();` in the four whitespace-skipping loops '
         '(a ghost snapshot before, lemma calls after; the call itself is kept verbatim) - a proof overlay that has to be placed at four '
         'textually identical anchors, which the `proof` overlay key (unique anchors only) cannot address'),
    ],
    'allow': [r'assume_specification\[ char::is_(alphabetic|alphanumeric|ascii_digit|ascii_alphabetic) \]', r'assume_specification<I: SliceIndex<str>>\[ <str as Index<I>>::index \]', r'external_body'],
    'min_obligations': 150,
    'trusted': [
        'ASSUMED frame contract of the tag grammar: parse_tag / parse_long_tag (grammar/doc/tag.rs 822 lines, grammar/doc/types.rs 661 lines, not extracted, external_body): '
        'requires gram_pre (driver invariant dinv, current token not None, mark_level <= #events); ensures gram_post (dinv again, current token not None, '
        'the EatToken ranges appended between entry and exit tile exactly [front(entry), front(exit)) each starting on a char boundary, frontier inside the span, '
        'origin tokens / text / LuaParser cursor+config untouched, the borrowed LuaParser not exchanged, events only grow with NodeStarts staying NodeStarts, '
        'mark_level >= entry value and <= #events). Basis (grep over crates/emmylua_parser/src, not proved): get_events() is called only in marker.rs and '
        'lua_doc_parser.rs {get_events delegation, bump, eat_current_and_lex_next}; `.reset(` of the doc lexer only in lua_doc_parser.rs {lex_token, re_calc_detail, '
        're_calc_cast_type}; `current_token_range =` only in {calc_next_current_token, eat_current_and_lex_next, re_calc_cast_type}; `current_token =` of the doc parser only in '
        '{calc_next_current_token, eat_current_and_lex_next, set_lexer_state, re_calc_detail, re_calc_cast_type, set_current_token_kind}; origin_token_index only in lex_token (write) '
        'and re_calc_* (read); the pub field `lexer` is read in grammar/doc/types.rs:58 (p.lexer.state) and :322 (p.lexer.clone() for a look-ahead on the copy) and in '
        'grammar/doc/mod.rs:77 (p.lexer.reader, extracted here) and never written outside lua_doc_parser.rs; set_current_token_kind is called at tag.rs:175 (TkDocConst, current '
        'token is a TkName) and types.rs:536 (TkDocInfer, current token is a TkName): both within its precondition (new kind and current kind real); bump_to_end only in parse_docs',
        'PRECONDITION of LuaDocParser::parse (stronger than the contract unit c01_parser assumes for it): str_len_ok(text) and dtoks_ok(tokens, text bytes) - every comment token range is '
        'non-empty, inside the text and on char boundaries, consecutive ranges adjacent. All of it follows from link L1 (c01_reader: `tiled`), but c01_parser does not carry the '
        'char-boundary / inside-the-text facts to the call site (its tokens_ok has adjacency and non-emptiness only)',
        'PRECONDITIONS of driver functions towards the (unextracted) grammar: set_current_token_kind(kind): kind and the current kind are real (not None / TkEof) - '
        'set_current_token_kind(None) on a pending token WOULD drop its bytes at the next bump; bump_to_end / eat_current_and_lex_next: current kind real; set_lexer_state, '
        're_calc_cast_type: current kind not None; bump: none beyond the invariant (bump at TkEof is a no-op)',
        'vx_trailing_close_count (rule long-desc-trailing-count, external_body): the number of trailing `]`/`=` chars of the token text is <= its byte length',
        'assume_specification <str as Index<I>>::index: the result of `&s[range]` satisfies SliceIndex::index\'s postcondition (vstd defines it for str as bytes == s.bytes.subrange(start, end) '
        'but attaches it only to slices); char::is_ascii_digit / is_ascii_alphabetic with their std-documented ranges; char::is_alphabetic / is_alphanumeric total, result unconstrained',
        'ParserConfig: opaque external type (never inspected by the doc parser driver)',
        'everything unit c01_reader trusts for Reader (str_len_ok, vstd specs of Chars / str slicing / len_utf8, PartialEqSpecImpl of the derived PartialEq on LuaTokenKind; same for '
        'LuaDocLexerState here)',
        'rewrite rules: match-if-chain, closure-true-ensures, closure-ascii-digit-ensures, closure-ascii-alpha-ensures, long-desc-trailing-count, c01doc-ws-step (this unit); '
        'assert-eq, closure-ensures, closure-wildcard, debug-assert, assert-bang, struct-fields, vis-pub, letchain-nest, trait-spec-overlay (c01_reader / c01_parser / catalogue)',
    ],
    'not_covered': [
        'grammar/doc/tag.rs and grammar/doc/types.rs (the tag and type grammar): under the frame contract gram_pre / gram_post only; panics and termination inside them are not covered',
        'C02 / H-EV for the doc parser: preservation of c01_green\'s events_ok (parent links) is not stated here (the driver pushes only EatToken events and `mark` pushes parent: 0; '
        'CompleteMarker::precede, the only writer of `parent`, is called from the unextracted grammar)',
        'LuaDocParser::push_error (writes lua_parser.errors, a field projected out of LuaParser), expect_token (i18n macro), is_mapped_type (look-ahead on a clone of the lexer), '
        'Marker::set_kind / CompleteMarker::{precede,empty,is_invalid} (proved generically in unit c01_parser, not needed by the extracted doc code)',
        'which KIND a doc token gets and the lexer state machine (only: the kind is never None / TkEof before the range is exhausted)',
        'the composition with unit c01_parser (replacing its external_body shim of LuaDocParser::parse by this contract) is not mechanised: see the precondition gap above',
    ],
    'samples': [
        'LuaDocLexer::lex (+ 15 state functions, lex_number, read_doc_name, verbatim up to match->if-chain): exactly one reset_buff then bumps only (the token starts where the previous one ended), '
        'ends inside the range, >= 1 char consumed and a real kind unless the range is exhausted; TkEof <==> range exhausted; all offsets on char boundaries of origin_text (lemma_lx)',
        'driver invariant dinv(p) = dbase(p) && match current_token { None => (reader None && origin_token_index == 0) || lexer has input left, '
        'TkEof => lexer exhausted && origin_token_index == last && end(current_token_range) == span end, _ => placed(p, current_token_range) }',
        'bump: requires dinv; ensures dinv, current != None, ate(old, final): eaten(events) grew by ranges tiling exactly [front(old), front(final)); real kind ==> front strictly larger',
        're_calc_detail / re_calc_cast_type: the lexer is re-positioned at the START of the current, not yet eaten token (front unchanged): no byte is lost or duplicated',
        'parse_docs: gstep(entry, p) is a loop invariant, span_hi - front(p) decreases in every iteration, exit only with current_token == TkEof i.e. front == span_hi',
        'LuaDocParser::parse: eaten(events) grows by ranges that tile exactly [start of tokens[0], end of tokens.last()), each starting on a char boundary; tokens / cursor / config of the '
        'LuaParser untouched; events monotone; mark_level >= entry and <= #events  (= the contract unit c01_parser assumes, plus H-DOC of c01_compose)',
    ],
    'mutants': [
        # ---- D1
        {'name': 'doclexer-arm-forgets-to-bump', 'item': 'LuaDocLexer::lex_normal',
         'pattern': r"':' => \{\s*reader\.bump\(\);", 'repl': "':' => {", 'expect': r'C02\.doclexer\.progress'},
        {'name': 'doclexer-whitespace-arm-does-not-eat', 'item': 'LuaDocLexer::lex_tag',
         'pattern': r'reader\.eat_while\(is_doc_whitespace\);', 'repl': '', 'expect': r'C02\.doclexer\.progress'},
        {'name': 'doclexer-lex-without-reset-buff', 'item': 'LuaDocLexer::lex',
         'pattern': r'reader\.reset_buff\(\);', 'repl': '', 'expect': r'C01\.doclexer\.tiles-its-range'},
        {'name': 'doclexer-eof-by-sentinel', 'item': 'LuaDocLexer::lex',
         'pattern': r'if reader\.is_eof\(\) \{', 'repl': "if reader.current_char() == '\\0' {",
         'expect': r'C01\.doclexer\.eof-only-when-range-exhausted|LuaDocLexer::lex:precondition'},
        {'name': 'doclexer-reset-to-wrong-offset', 'item': 'LuaDocLexer::reset',
         'pattern': r'Reader::new_with_range\(text, range\)', 'repl': 'Reader::new_with_range(text, SourceRange::new(0, range.length))',
         'expect': r'C01\.doclexer\.reset-reads-the-range'},
        {'name': 'doclexer-is-invalid-ignores-reader', 'item': 'LuaDocLexer::is_invalid',
         'pattern': r'Some\(ref reader\) => reader\.is_eof\(\),', 'repl': 'Some(ref reader) => false,',
         'expect': r'C01\.doclexer\.invalid-iff-range-exhausted'},
        {'name': 'doclexer-token-range-is-tail', 'item': 'LuaDocLexer::current_token_range',
         'pattern': r'\.current_range\(\)', 'repl': '.tail_range()', 'expect': r'C01\.doclexer\.token-range-is-pending-token'},
        {'name': 'doclexer-name-loop-does-not-bump', 'item': 'read_doc_name',
         'pattern': r"'`' => \{\s*str_tpl = true;\s*reader\.bump\(\);", 'repl': "'`' => { str_tpl = true;",
         'expect': r'read_doc_name:decreases-not-satisfied'},
        {'name': 'doclexer-tag-kind-eof', 'item': 'to_tag',
         'pattern': r'_ => LuaTokenKind::TkTagOther,', 'repl': '_ => LuaTokenKind::TkEof,', 'expect': r'C01\.doclexer\.real-kind'},
        # ---- D2
        {'name': 'docparser-bump-does-not-push', 'item': 'LuaDocParser::bump',
         'pattern': r'if !is_invalid_kind\(self\.current_token\) \{', 'repl': 'if false {', 'expect': r'C01\.docparser\.eaten-tile-prefix'},
        {'name': 'docparser-bump-pushes-eof', 'item': 'LuaDocParser::bump',
         'pattern': r'if !is_invalid_kind\(self\.current_token\) \{', 'repl': 'if self.current_token != LuaTokenKind::None {',
         'expect': r'C01\.docparser\.eaten-tile-prefix'},
        {'name': 'docparser-invalid-kind-set', 'item': 'is_invalid_kind',
         'pattern': r'LuaTokenKind::None \| LuaTokenKind::TkEof', 'repl': 'LuaTokenKind::None | LuaTokenKind::TkEof | LuaTokenKind::TkDocDetail',
         'expect': r'C01\.docparser\.invalid-kinds-are-none-and-eof'},
        {'name': 'docparser-eat-pushes-empty-range', 'item': 'LuaDocParser::eat_current_and_lex_next',
         'pattern': r'range: self\.current_token_range,', 'repl': 'range: SourceRange::EMPTY,', 'expect': r'C01\.docparser\.eaten-tile-prefix'},
        {'name': 'docparser-lex-token-skips-origin-token', 'item': 'LuaDocParser::lex_token',
         'pattern': r'self\.origin_token_index \+ 1', 'repl': 'self.origin_token_index + 2',
         'expect': r'C01\.docparser\.(next-token-starts-where-lexing-stopped|eof-only-when-all-origin-tokens-are-lexed)'},
        {'name': 'docparser-lex-token-relexes-first-token', 'item': 'LuaDocParser::lex_token',
         'pattern': r'if self\.origin_token_index == 0 && self\.current_token == LuaTokenKind::None \{', 'repl': 'if self.origin_token_index == 0 {',
         'expect': r'C01\.docparser\.(next-token-starts-where-lexing-stopped|eof-only-when-all-origin-tokens-are-lexed)'},
        {'name': 'docparser-eof-token-at-start-of-last', 'item': 'LuaDocParser::lex_token',
         'pattern': r'SourceRange::new\(self\.current_token_range\.end_offset\(\), 0\)', 'repl': 'SourceRange::new(self.current_token_range.start_offset, 0)',
         'expect': r'C01\.docparser\.eof-only-when-all-origin-tokens-are-lexed'},
        {'name': 'docparser-passthrough-drops-whitespace', 'item': 'LuaDocParser::lex_token',
         'pattern': r'return next_origin_token;', 'repl': 'continue;', 'expect': r'LuaDocParser::lex_token:'},
        {'name': 'docparser-calc-next-keeps-old-range', 'item': 'LuaDocParser::calc_next_current_token',
         'pattern': r'self\.current_token_range = token\.range;', 'repl': '', 'expect': r'C01\.docparser\.(invariant|eaten-tile-prefix)'},
        {'name': 'docparser-recalc-from-token-end', 'item': 'LuaDocParser::re_calc_detail',
         'pattern': r'start_offset: read_range\.start_offset,\s*length: origin_token_range\.end_offset\(\) - read_range\.start_offset,',
         'repl': 'start_offset: read_range.end_offset(), length: origin_token_range.end_offset() - read_range.end_offset(),',
         'expect': r'C01\.docparser\.relex-starts-at-current-token-start'},
        {'name': 'docparser-recalc-keeps-current-pending', 'item': 'LuaDocParser::re_calc_detail',
         'pattern': r'self\.current_token = LuaTokenKind::None;', 'repl': '', 'expect': r'C01\.docparser\.relex-nothing-pending'},
        {'name': 'docparser-recalc-cast-from-token-end', 'item': 'LuaDocParser::re_calc_cast_type',
         'pattern': r'start_offset: read_range\.start_offset,\s*length: origin_token_range\.end_offset\(\) - read_range\.start_offset,',
         'repl': 'start_offset: read_range.end_offset(), length: origin_token_range.end_offset() - read_range.end_offset(),',
         'expect': r'C01\.docparser\.eaten-tile-prefix'},
        {'name': 'docparser-trivia-state-drops-token', 'item': 'LuaDocParser::set_lexer_state',
         'pattern': r'self\.current_token = LuaTokenKind::TkDocTrivia;', 'repl': 'self.current_token = LuaTokenKind::None;',
         'expect': r'C01\.docparser\.(invariant|eaten-tile-prefix)|LuaDocParser::set_lexer_state:postcondition'},
        {'name': 'docparser-bump-to-end-without-eat', 'item': 'LuaDocParser::bump_to_end',
         'pattern': r'self\.eat_current_and_lex_next\(\);', 'repl': 'let token = self.lex_token(); self.current_token = token.kind; self.current_token_range = token.range;',
         'expect': r'LuaDocParser::bump_to_end:'},
        # ---- D3
        {'name': 'parse-docs-stops-before-eof', 'item': 'parse_docs',
         'pattern': r'while p\.current_token\(\) != LuaTokenKind::TkEof \{', 'repl': 'while p.current_token() != LuaTokenKind::TkEof && p.current_token() != LuaTokenKind::TkDocTrivia {',
         'expect': r'C01\.docparser\.loop-ends-only-at-eof'},
        {'name': 'parse-docs-arm-without-bump', 'item': 'parse_docs',
         'pattern': r'LuaTokenKind::TKDocTriviaStart => \{\s*p\.bump\(\);', 'repl': 'LuaTokenKind::TKDocTriviaStart => {',
         'expect': r'parse_docs:decreases-not-satisfied'},
        {'name': 'parse-without-init', 'item': 'LuaDocParser::parse',
         'pattern': r'parser\.init\(\);', 'repl': '', 'expect': r'LuaDocParser::parse:'},
        {'name': 'parse-comment-skips-docs', 'item': 'parse_comment',
         'pattern': r'parse_docs\(p\);', 'repl': '', 'expect': r'C01\.docparser\.parse-emits-whole-span'},
    ],
}
UNIT['items'].update(DOCLEXER)
UNIT['items'].update(DRIVER)
UNIT['items'].update(GRAMMAR)

# Reader::consume_char_n_times: c01_reader's contract plus one clause the doc lexer needs (the `'/'` arm of lex_init /
# lex_normal_description makes progress only through it): the first char is eaten if it is `ch` and count > 0.
# Same extracted text, same loop overlay; re-proved here.
_ccn = dict(_rd.READER['Reader::consume_char_n_times'])
_ccn['ensures'] = _ccn['ensures'] + """,
        (consumed(old(self)) < r_n(old(self)) && old(self).text@[consumed(old(self))] == ch && count > 0) ==> r > 0 /*@C02.reader.consume-n-eats-first-match*/"""
UNIT['items']['Reader::consume_char_n_times'] = _ccn
UNIT['template_text'] = _template()
