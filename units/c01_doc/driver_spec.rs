// ---- specification vocabulary of D2 / D3 (LuaDocParser driver, parse_comment) ----------------------------------

/// everything of a marker-event container that the marker API must not touch. For a LuaParser: its token stream, cursor,
/// text and configuration. For a LuaDocParser additionally: all of its own fields and the prophecy of its `&mut LuaParser`
/// (what the borrowed parser will be when the doc parser is dropped) — so that "rest unchanged" lets `LuaDocParser::parse`
/// speak about the caller's parser.
pub ghost struct Rest<'a> {
    pub text: &'a str,
    pub tokens: Seq<LuaTokenData>,
    pub token_index: usize,
    pub current_token: LuaTokenKind,
    pub parse_config: ParserConfig<'a>,
    pub doc: Option<DocRest<'a>>,
}

pub ghost struct DocRest<'a> {
    pub tokens: Seq<LuaTokenData>,
    pub lexer: LuaDocLexer<'a>,
    pub current_token: LuaTokenKind,
    pub current_token_range: SourceRange,
    pub origin_token_index: usize,
    pub state: LuaDocParserState,
    pub fin: LuaParser<'a>,
}

/// `d` tiles [a, b) (c01_parser's `chain`) and every range of `d` starts on a char boundary of the text (`ob` = its
/// bytes): the second half is the hypothesis H-DOC of unit c01_compose
pub open spec fn tiles(d: Seq<SourceRange>, a: int, b: int, ob: Seq<u8>) -> bool {
    &&& chain(d, a, b)
    &&& forall|i: int| 0 <= i < d.len() ==> is_char_boundary(ob, (#[trigger] d[i]).start_offset as int)
}

pub proof fn lemma_tiles_nil(a: int, ob: Seq<u8>)
    ensures tiles(Seq::<SourceRange>::empty(), a, a, ob),
{
}

pub proof fn lemma_tiles_cat(d1: Seq<SourceRange>, d2: Seq<SourceRange>, a: int, m: int, b: int, ob: Seq<u8>)
    requires tiles(d1, a, m, ob), tiles(d2, m, b, ob),
    ensures tiles(d1 + d2, a, b, ob),
{
    lemma_chain_cat(d1, d2, a, m, b);
    let d = d1 + d2;
    assert forall|i: int| 0 <= i < d.len() implies is_char_boundary(ob, (#[trigger] d[i]).start_offset as int) by {
        if i < d1.len() { assert(d[i] == d1[i]); } else { assert(d[i] == d2[i - d1.len()]); }
    }
}

pub proof fn lemma_tiles_one(r: SourceRange, ob: Seq<u8>)
    requires is_char_boundary(ob, r.start_offset as int),
    ensures tiles(seq![r], r.start_offset as int, rend(r), ob),
{
    let d = seq![r];
    assert(d[0] == r);
    assert(d.last() == r);
}

/// the eaten ranges `e1` are `e0` followed by `d1`, `e2` is `e1` followed by `d2` ...: bookkeeping for "what was appended"
pub proof fn lemma_tiles_step(e0: Seq<SourceRange>, e1: Seq<SourceRange>, e2: Seq<SourceRange>, a: int, m: int, b: int, ob: Seq<u8>)
    requires
        grows(e0, e1), grows(e1, e2),
        tiles(e1.skip(e0.len() as int), a, m, ob),
        tiles(e2.skip(e1.len() as int), m, b, ob),
    ensures
        grows(e0, e2),
        tiles(e2.skip(e0.len() as int), a, b, ob),
{
    lemma_grows_trans(e0, e1, e2);
    lemma_tiles_cat(e1.skip(e0.len() as int), e2.skip(e1.len() as int), a, m, b, ob);
}

/// one more range pushed
pub proof fn lemma_tiles_push(e0: Seq<SourceRange>, e1: Seq<SourceRange>, r: SourceRange, a: int, ob: Seq<u8>)
    requires
        grows(e0, e1),
        tiles(e1.skip(e0.len() as int), a, r.start_offset as int, ob),
        is_char_boundary(ob, r.start_offset as int),
    ensures
        grows(e0, e1.push(r)),
        tiles(e1.push(r).skip(e0.len() as int), a, rend(r), ob),
{
    lemma_grows_push(e0, e1, r);
    lemma_tiles_one(r, ob);
    lemma_tiles_cat(e1.skip(e0.len() as int), seq![r], a, r.start_offset as int, rend(r), ob);
    assert(e1.skip(e0.len() as int).push(r) =~= e1.skip(e0.len() as int) + seq![r]);
}

/// a tiling never runs backwards
pub proof fn lemma_tiles_le(d: Seq<SourceRange>, a: int, b: int, ob: Seq<u8>)
    requires tiles(d, a, b, ob),
    ensures a <= b,
    decreases d.len(),
{
    if d.len() > 1 {
        let p = d.drop_last();
        let m = d.last().start_offset as int;
        assert(rend(d[d.len() - 2]) == d[d.len() - 2 + 1].start_offset);
        assert(p.last() == d[d.len() - 2]);
        assert(p[0] == d[0]);
        assert forall|i: int| #![trigger p[i]] 0 <= i < p.len() - 1 implies rend(p[i]) == p[i + 1].start_offset by {
            assert(p[i] == d[i]);
            assert(p[i + 1] == d[i + 1]);
        }
        assert forall|i: int| 0 <= i < p.len() implies is_char_boundary(ob, (#[trigger] p[i]).start_offset as int) by {
            assert(p[i] == d[i]);
        }
        lemma_tiles_le(p, a, m, ob);
    }
}

pub proof fn lemma_tiles_refl(e: Seq<SourceRange>, a: int, ob: Seq<u8>)
    ensures grows(e, e), tiles(e.skip(e.len() as int), a, a, ob),
{
    lemma_grows_refl(e);
}

// ---- the origin tokens -------------------------------------------------------------------------------------------
/// what `LuaDocParser::parse` needs of the comment tokens it is given (all of it is established by link L1, unit
/// c01_reader: `tiled`): a non-empty list of adjacent, non-empty ranges, inside the text, on char boundaries
pub open spec fn dtoks_ok(t: Seq<LuaTokenData>, ob: Seq<u8>) -> bool {
    &&& t.len() > 0
    &&& adjacent(ranges(t))
    &&& forall|i: int| 0 <= i < t.len() ==> {
            &&& (#[trigger] t[i]).range.length > 0
            &&& rend(t[i].range) <= ob.len()
            &&& is_char_boundary(ob, t[i].range.start_offset as int)
            &&& is_char_boundary(ob, rend(t[i].range))
        }
}

/// the byte span of the origin tokens: [span_lo, span_hi)
pub open spec fn span_lo(t: Seq<LuaTokenData>) -> int { t[0].range.start_offset as int }
pub open spec fn span_hi(t: Seq<LuaTokenData>) -> int { rend(t.last().range) }

pub proof fn lemma_tok_next(t: Seq<LuaTokenData>, ob: Seq<u8>, i: int)
    requires dtoks_ok(t, ob), 0 <= i < t.len() - 1,
    ensures rend(t[i].range) == t[i + 1].range.start_offset,
{
    let r = ranges(t);
    assert(rend(r[i]) == r[i + 1].start_offset);
}

pub proof fn lemma_tok_le_hi(t: Seq<LuaTokenData>, ob: Seq<u8>, i: int)
    requires dtoks_ok(t, ob), 0 <= i < t.len(),
    ensures span_lo(t) <= t[i].range.start_offset, rend(t[i].range) <= span_hi(t),
    decreases t.len() - i, i
{
    if i < t.len() - 1 {
        lemma_tok_next(t, ob, i);
        lemma_tok_le_hi(t, ob, i + 1);
    }
    if i > 0 {
        lemma_tok_lo(t, ob, i);
    }
}

pub proof fn lemma_tok_lo(t: Seq<LuaTokenData>, ob: Seq<u8>, i: int)
    requires dtoks_ok(t, ob), 0 <= i < t.len(),
    ensures span_lo(t) <= t[i].range.start_offset,
    decreases i
{
    if i > 0 {
        lemma_tok_next(t, ob, i - 1);
        lemma_tok_lo(t, ob, i - 1);
    }
}

// ---- the driver invariant -----------------------------------------------------------------------------------------
/// where the next `lex_token` continues: the lexer's cursor; or, when the lexer's range is exhausted, the end of the current
/// origin token (= the start of the next one); before the very first call, the start of the first origin token
pub open spec fn nxt(p: &LuaDocParser) -> int {
    if !lx_done(&p.lexer) {
        lx_hi(&p.lexer)
    } else if p.origin_token_index == 0 && p.current_token is None {
        span_lo(p.tokens@)
    } else {
        rend(p.tokens@[p.origin_token_index as int].range)
    }
}

/// the eaten frontier: every byte of the span in front of it is covered by an EatToken event, no byte behind it is
pub open spec fn front(p: &LuaDocParser) -> int {
    if p.current_token is TkEof {
        rend(p.current_token_range)
    } else if p.current_token is None {
        nxt(p)
    } else {
        p.current_token_range.start_offset as int
    }
}

/// part of the invariant that also holds INSIDE the driver functions: the origin tokens are fine, the lexer is in a valid
/// state, and while the lexer has input left, its range ends where the current origin token ends
#[verifier::prophetic]
pub open spec fn dbase(p: &LuaDocParser) -> bool {
    let t = p.tokens@;
    let l = &p.lexer;
    let oi = p.origin_token_index as int;
    &&& dtoks_ok(t, l.origin_text.spec_bytes())
    &&& lxinv(l)
    &&& p.lua_parser.text == l.origin_text
    &&& 0 <= oi < t.len()
    &&& (!lx_done(l) ==> lx_end(l) == rend(t[oi].range) && t[oi].range.start_offset <= l.reader->0.valid_range.start_offset)
}

/// the pending token `c` lies inside the current origin token, starts on a char boundary, and ends exactly where lexing continues
#[verifier::prophetic]
pub open spec fn placed(p: &LuaDocParser, c: SourceRange) -> bool {
    let t = p.tokens@;
    let l = &p.lexer;
    let oi = p.origin_token_index as int;
    &&& c.length > 0
    &&& t[oi].range.start_offset <= c.start_offset
    &&& rend(c) <= rend(t[oi].range)
    &&& is_char_boundary(l.origin_text.spec_bytes(), c.start_offset as int)
    &&& (!lx_done(l) ==> c.start_offset == lx_lo(l) && rend(c) == lx_hi(l))
    &&& (lx_done(l) ==> rend(c) == rend(t[oi].range))
}

/// precondition of `lex_token`: the current token is accounted for (eaten, or to be re-lexed), lexing can continue at `nxt`
#[verifier::prophetic]
pub open spec fn lexready(p: &LuaDocParser) -> bool {
    &&& dbase(p)
    &&& (lx_done(&p.lexer) ==> (p.origin_token_index == 0 && p.current_token is None)
            || rend(p.current_token_range) == rend(p.tokens@[p.origin_token_index as int].range))
}

/// THE DRIVER INVARIANT (structural half): "the current token + the rest of the lexer's range + the remaining origin
/// tokens tile the rest of the span".
///  * current_token == None: nothing is pending; either nothing has been lexed yet (fresh parser), or the lexer has just been
///    re-positioned at the start of the not yet eaten current token and has input left (re_calc_detail);
///  * current_token == TkEof: everything is consumed: lexer exhausted, last origin token, the range ends at the end of the span;
///  * otherwise a non-empty pending token, `placed`.
#[verifier::prophetic]
pub open spec fn dinv(p: &LuaDocParser) -> bool {
    let t = p.tokens@;
    let l = &p.lexer;
    &&& dbase(p)
    &&& match p.current_token {
        LuaTokenKind::None => (l.reader is None && p.origin_token_index == 0) || !lx_done(l),
        LuaTokenKind::TkEof => lx_done(l) && p.origin_token_index == t.len() - 1 && rend(p.current_token_range) == span_hi(t),
        _ => placed(p, p.current_token_range),
    }
}

/// frame of every driver / grammar function: the origin tokens, the text, the borrowed LuaParser's cursor and configuration
/// are untouched (the grammar's own mode flag `state` is free), the borrowed parser is never exchanged (same prophecy), events only
/// grow (NodeStarts stay NodeStarts) and so do the eaten ranges
#[verifier::prophetic]
pub open spec fn dframe(a: &LuaDocParser, b: &LuaDocParser) -> bool {
    &&& b.tokens@ == a.tokens@
    &&& b.lexer.origin_text == a.lexer.origin_text
    &&& same_cursor(&*a.lua_parser, &*b.lua_parser)
    &&& b.lua_parser.text == a.lua_parser.text
    &&& *final(b.lua_parser) == *final(a.lua_parser)
    &&& ev_mono(a.lua_parser.events@, b.lua_parser.events@)
    &&& grows(eaten(a.lua_parser.events@), eaten(b.lua_parser.events@))
}

/// (eaten half of the driver invariant, as a step) between the states `a` and `b` the EatToken ranges appended tile
/// exactly [front(a), front(b)), each starting on a char boundary
#[verifier::prophetic]
pub open spec fn ate(a: &LuaDocParser, b: &LuaDocParser) -> bool {
    &&& dframe(a, b)
    &&& tiles(eaten(b.lua_parser.events@).skip(eaten(a.lua_parser.events@).len() as int), front(a), front(b), a.lexer.origin_text.spec_bytes())
}

pub proof fn lemma_dframe_refl(a: &LuaDocParser)
    ensures dframe(a, a),
{
    lemma_grows_refl(eaten(a.lua_parser.events@));
}

pub proof fn lemma_ate_refl(a: &LuaDocParser)
    ensures ate(a, a),
{
    lemma_dframe_refl(a);
    lemma_tiles_refl(eaten(a.lua_parser.events@), front(a), a.lexer.origin_text.spec_bytes());
}

pub proof fn lemma_dframe_trans(a: &LuaDocParser, b: &LuaDocParser, c: &LuaDocParser)
    requires dframe(a, b), dframe(b, c),
    ensures dframe(a, c),
{
    lemma_grows_trans(eaten(a.lua_parser.events@), eaten(b.lua_parser.events@), eaten(c.lua_parser.events@));
}

pub proof fn lemma_ate_trans(a: &LuaDocParser, b: &LuaDocParser, c: &LuaDocParser)
    requires ate(a, b), ate(b, c),
    ensures ate(a, c),
{
    lemma_dframe_trans(a, b, c);
    lemma_tiles_step(eaten(a.lua_parser.events@), eaten(b.lua_parser.events@), eaten(c.lua_parser.events@),
        front(a), front(b), front(c), a.lexer.origin_text.spec_bytes());
}

/// the frontier never leaves the span
pub proof fn lemma_front_bounds(p: &LuaDocParser)
    requires dinv(p),
    ensures span_lo(p.tokens@) <= front(p) <= span_hi(p.tokens@),
{
    let t = p.tokens@;
    let ob = p.lexer.origin_text.spec_bytes();
    let oi = p.origin_token_index as int;
    lemma_tok_le_hi(t, ob, oi);
    lemma_tok_le_hi(t, ob, 0);
    if !lx_done(&p.lexer) { lemma_lx(&p.lexer); }
}

/// `bump` / `eat_current_and_lex_next`, first half: state `b` is state `a` after the optional push of the current token
/// (pushed iff its kind is neither None nor TkEof). Then lexing can continue at nxt(b), and the eaten ranges appended so
/// far tile [front(a), nxt(b))
pub proof fn lemma_after_push(a: &LuaDocParser, b: &LuaDocParser)
    requires
        dinv(a),
        b.sp_rest() == a.sp_rest(), b.sp_level() == a.sp_level(),
        real_kind(a.current_token) ==> b.sp_events() == a.sp_events().push(MarkEvent::EatToken { kind: a.current_token, range: a.current_token_range }),
        !real_kind(a.current_token) ==> b.sp_events() == a.sp_events(),
    ensures
        lexready(b), dframe(a, b),
        tiles(eaten(b.sp_events()).skip(eaten(a.sp_events()).len() as int), front(a), nxt(b), a.lexer.origin_text.spec_bytes()),
        real_kind(a.current_token) ==> nxt(b) == rend(a.current_token_range) && front(a) < nxt(b)
            && eaten(b.sp_events()) == eaten(a.sp_events()).push(a.current_token_range),
        a.current_token is TkEof ==> nxt(b) == front(a) && nxt(b) == span_hi(a.tokens@),
{
    broadcast use lemma_eaten_push;
    let ob = a.lexer.origin_text.spec_bytes();
    let e0 = eaten(a.sp_events());
    assert(b.lexer == a.lexer);
    assert(b.tokens@ == a.tokens@);
    if !lx_done(&a.lexer) { lemma_lx(&a.lexer); }
    if real_kind(a.current_token) {
        lemma_tiles_refl(e0, front(a), ob);
        lemma_tiles_push(e0, e0, a.current_token_range, front(a), ob);
    } else {
        lemma_tiles_refl(e0, front(a), ob);
    }
}

/// second half: `c` is `b` after `calc_next_current_token` / the next `lex_token`
pub proof fn lemma_after_next(a: &LuaDocParser, b: &LuaDocParser, c: &LuaDocParser)
    requires
        dframe(a, b), dframe(b, c),
        tiles(eaten(b.sp_events()).skip(eaten(a.sp_events()).len() as int), front(a), nxt(b), a.lexer.origin_text.spec_bytes()),
        tiles(eaten(c.sp_events()).skip(eaten(b.sp_events()).len() as int), nxt(b), front(c), a.lexer.origin_text.spec_bytes()),
    ensures
        ate(a, c),
        nxt(b) <= front(c),
{
    lemma_tiles_le(eaten(c.sp_events()).skip(eaten(b.sp_events()).len() as int), nxt(b), front(c), a.lexer.origin_text.spec_bytes());
    lemma_dframe_trans(a, b, c);
    lemma_tiles_step(eaten(a.sp_events()), eaten(b.sp_events()), eaten(c.sp_events()),
        front(a), nxt(b), front(c), a.lexer.origin_text.spec_bytes());
}

pub proof fn lemma_ate_le(a: &LuaDocParser, b: &LuaDocParser)
    requires ate(a, b),
    ensures front(a) <= front(b),
{
    lemma_tiles_le(eaten(b.sp_events()).skip(eaten(a.sp_events()).len() as int), front(a), front(b), a.lexer.origin_text.spec_bytes());
}

/// marker level never above the number of events (c01_parser's `lvl_ok`, for the doc parser)
pub open spec fn plvl_ok(p: &LuaDocParser) -> bool { p.sp_level() <= p.sp_events().len() }

/// a step that changes nothing but the event list, and there only non-EatToken events (the marker API), or only the
/// lexer mode / the kind of the pending token within the real kinds
pub proof fn lemma_quiet_step(a: &LuaDocParser, b: &LuaDocParser)
    requires
        b.sp_rest() == a.sp_rest(),
        eaten(b.sp_events()) == eaten(a.sp_events()),
        ev_mono(a.sp_events(), b.sp_events()),
    ensures
        dinv(a) == dinv(b), front(a) == front(b), ate(a, b), b.current_token == a.current_token,
{
    assert(b.lexer == a.lexer);
    assert(b.tokens@ == a.tokens@);
    lemma_tiles_refl(eaten(a.sp_events()), front(a), a.lexer.origin_text.spec_bytes());
}

// ---- D3: contract shape of the grammar functions ---------------------------------------------------------------------
/// what a grammar function may rely on
#[verifier::prophetic]
pub open spec fn gram_pre(p: &LuaDocParser) -> bool {
    dinv(p) && !(p.current_token is None) && plvl_ok(p)
}

/// one or more steps of the driver / the grammar, from state `a` to state `b`: the invariant holds again, a token or TkEof is
/// pending, the EatToken ranges appended in between tile exactly [front(a), front(b)) ("does not un-eat"), inside the span
#[verifier::prophetic]
pub open spec fn gstep(a: &LuaDocParser, b: &LuaDocParser) -> bool {
    &&& dinv(b)
    &&& !(b.current_token is None)
    &&& ate(a, b)
    &&& front(a) <= front(b) <= span_hi(b.tokens@)
}

/// what a grammar function must establish: `gstep` from entry to exit; marker level not below its entry value and <= #events
#[verifier::prophetic]
pub open spec fn gram_post(a: &LuaDocParser, b: &LuaDocParser) -> bool {
    &&& gstep(a, b)
    &&& b.sp_level() >= a.sp_level()
    &&& plvl_ok(b)
}

pub proof fn lemma_gstep_refl(a: &LuaDocParser)
    requires dinv(a), !(a.current_token is None),
    ensures gstep(a, a),
{
    lemma_ate_refl(a);
    lemma_front_bounds(a);
}

/// steps compose (broadcast inside parse_docs / parse_description / parse_comment: the chaining of the ~20 driver calls)
pub broadcast proof fn lemma_gstep_trans(a: &LuaDocParser, b: &LuaDocParser, c: &LuaDocParser)
    requires #[trigger] gstep(a, b), #[trigger] gstep(b, c),
    ensures gstep(a, c),
{
    lemma_ate_trans(a, b, c);
}

/// a driver call is a step
pub broadcast proof fn lemma_gstep_of_drive(a: &LuaDocParser, b: &LuaDocParser)
    requires dinv(b), !(b.current_token is None), #[trigger] ate(a, b),
    ensures gstep(a, b),
{
    lemma_ate_le(a, b);
    lemma_front_bounds(b);
}

/// a marker call (rest untouched, no EatToken added or removed, NodeStarts stay) is a step that leaves the frontier alone
pub broadcast proof fn lemma_gstep_of_marker(a: &LuaDocParser, b: &LuaDocParser)
    requires
        dinv(a), !(a.current_token is None),
        b.sp_rest() == a.sp_rest(),
        eaten(b.sp_events()) == eaten(a.sp_events()),
        #[trigger] ev_mono(a.sp_events(), b.sp_events()),
    ensures
        gstep(a, b), front(b) == front(a), b.current_token == a.current_token,
{
    lemma_quiet_step(a, b);
    lemma_front_bounds(a);
}
