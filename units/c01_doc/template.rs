// unit c01_doc — the doc-comment link of C01: LuaDocLexer (D1), the LuaDocParser driver (D2), parse_comment (D3).
// Hand-written part: specification vocabulary and lemmas only. `//@@ <key>` = real repository text (extracted on every
// run); `//@@splice <name>` = a part of the spec files of units c01_reader / c01_parser (read from there on every run by
// units/c01_doc/unit.py, not copied); `//@@include` = a whole spec file.
use vstd::prelude::*;
use vstd::utf8::*;
use vstd::string::*;
use vstd::std_specs::iter::IteratorSpec;
use std::str::Chars;
use core::ops::Index;
use core::slice::SliceIndex;
verus! {

// ---------------------------------------------------------------------------------------------
// std items without a vstd specification
// ---------------------------------------------------------------------------------------------
//@@splice reader_std
/// std: "Checks if the value is an ASCII decimal digit: U+0030 '0' ..= U+0039 '9'."
pub assume_specification[ char::is_ascii_digit ](c: &char) -> (r: bool)
    ensures r == ('0' <= *c && *c <= '9');
/// std: "Checks if the value is an ASCII alphabetic character: U+0041 'A' ..= U+005A 'Z', or U+0061 'a' ..= U+007A 'z'."
pub assume_specification[ char::is_ascii_alphabetic ](c: &char) -> (r: bool)
    ensures r == (('A' <= *c && *c <= 'Z') || ('a' <= *c && *c <= 'z'));

/// std, `impl<I: SliceIndex<str>> Index<I> for str`: "Returns a slice of the given string from the byte range". vstd specifies
/// the precondition of `&s[range]` (in bounds, on char boundaries) and defines the result (`SliceIndexSpec::index_postcondition`
/// for str: the bytes of the result are `s.spec_bytes().subrange(start, end)`) but does not attach the latter to `str`'s
/// `Index::index`; this is the same clause that vstd states for `impl Index<I> for [T]` (std_specs/slice.rs).
pub assume_specification<I: SliceIndex<str>>[ <str as Index<I>>::index ](s: &str, index: I) -> (output: &<I as SliceIndex<str>>::Output)
    ensures call_ensures(<I as SliceIndex<str>>::index, (index, s), output);

// ---------------------------------------------------------------------------------------------
// unit c01_reader: UTF-8 lemmas, SourceRange, Reader and its contract vocabulary, token kinds / data
// ---------------------------------------------------------------------------------------------
//@@splice reader_spec
//@@splice kind_eq
//@@splice name_fns
//@@splice lexer_vocab

//@@include c01_doc/lexer_spec.rs

// ---------------------------------------------------------------------------------------------
// D1: LuaDocLexer
// ---------------------------------------------------------------------------------------------
//@@ LuaDocLexerState

impl vstd::std_specs::cmp::PartialEqSpecImpl for LuaDocLexerState {
    open spec fn obeys_eq_spec() -> bool { true }
    open spec fn eq_spec(&self, other: &LuaDocLexerState) -> bool { *self == *other }
}

//@@ LuaDocLexer

impl LuaDocLexer<'_> {
    //@@ LuaDocLexer::new
    //@@ LuaDocLexer::is_invalid
    //@@ LuaDocLexer::reset
    //@@ LuaDocLexer::lex
    //@@ LuaDocLexer::current_token_range
    //@@ LuaDocLexer::lex_init
    //@@ LuaDocLexer::lex_tag
    //@@ LuaDocLexer::lex_normal
    //@@ LuaDocLexer::lex_field_start
    //@@ LuaDocLexer::lex_description
    //@@ LuaDocLexer::lex_long_description
    //@@ LuaDocLexer::lex_trivia
    //@@ LuaDocLexer::lex_see
    //@@ LuaDocLexer::lex_version
    //@@ LuaDocLexer::lex_source
    //@@ LuaDocLexer::lex_normal_description
    //@@ LuaDocLexer::lex_cast_expr
    //@@ LuaDocLexer::lex_attribute_use
    //@@ LuaDocLexer::lex_mapped
    //@@ LuaDocLexer::lex_extends
    //@@ LuaDocLexer::lex_number
}

//@@ to_tag

//@@ to_modification_or_name

//@@ to_token_or_name

//@@ is_doc_whitespace

//@@ read_doc_name

//@@ is_source_continue

/// lex_long_description: number of trailing chars of `text` that are ']' or '=' (rule `long-desc-trailing-count`).
/// ASSUMED: the count is at most the byte length of the text (it counts chars of `text`; a char is at least one byte).
#[verifier::external_body]
pub fn vx_trailing_close_count(text: &str) -> (r: usize)
    ensures r <= text.spec_bytes().len(),
{
    text.chars().rev().take_while(|c| *c == ']' || *c == '=').count()
}

// ---------------------------------------------------------------------------------------------
// D2: the doc parser driver. Data types, marker API (contracts and rule of unit c01_parser), LuaParser projection.
// ---------------------------------------------------------------------------------------------
//@@ LuaSyntaxKind

//@@ MarkEvent

impl SourceRange {
    //@@ SourceRange::EMPTY
    ; // (extractor ends a `const X: T = T { .. };` item at the closing brace: the `;` is supplied here)
}

/// shim of the external type ParserConfig (opaque: never inspected by the doc parser driver)
#[verifier::external_body]
pub struct ParserConfig<'cache> { _p: core::marker::PhantomData<&'cache ()> }

//@@include c01_parser/iface.rs

//@@splice parser_lemmas

//@@splice parser_frame

//@@ LuaParser

//@@ LuaDocParserState

//@@ LuaDocParser

//@@include c01_doc/driver_spec.rs

//@@ MarkerEventContainer

//@@ Marker

impl Marker {
    //@@ Marker::new
    //@@ Marker::complete
    //@@ Marker::undo
}

//@@ CompleteMarker

impl MarkerEventContainer for LuaParser<'_> {
    open spec fn sp_events(&self) -> Seq<MarkEvent> { self.events@ }
    open spec fn sp_level(&self) -> nat { self.mark_level as nat }
    #[verifier::prophetic]
    open spec fn sp_rest(&self) -> Rest<'_> {
        Rest { text: self.text, tokens: self.tokens@, token_index: self.token_index, current_token: self.current_token,
               parse_config: self.parse_config, doc: None }
    }
    proof fn lemma_events_bounded(&self) { assert(self.events.len() == self.events@.len()); }
    //@@ LuaParser::get_mark_level
    //@@ LuaParser::incr_mark_level
    //@@ LuaParser::decr_mark_level
    //@@ LuaParser::get_events
}

impl<'a> LuaParser<'a> {
    //@@ LuaParser::origin_text
}

impl MarkerEventContainer for LuaDocParser<'_, '_> {
    open spec fn sp_events(&self) -> Seq<MarkEvent> { self.lua_parser.events@ }
    open spec fn sp_level(&self) -> nat { self.lua_parser.mark_level as nat }
    #[verifier::prophetic]
    open spec fn sp_rest(&self) -> Rest<'_> {
        Rest { text: self.lua_parser.text, tokens: self.lua_parser.tokens@, token_index: self.lua_parser.token_index,
               current_token: self.lua_parser.current_token, parse_config: self.lua_parser.parse_config,
               doc: Some(DocRest { tokens: self.tokens@, lexer: self.lexer, current_token: self.current_token,
                                   current_token_range: self.current_token_range, origin_token_index: self.origin_token_index,
                                   state: self.state, fin: *final(self.lua_parser) }) }
    }
    proof fn lemma_events_bounded(&self) { assert(self.lua_parser.events.len() == self.lua_parser.events@.len()); }
    //@@ LuaDocParser::get_mark_level
    //@@ LuaDocParser::incr_mark_level
    //@@ LuaDocParser::decr_mark_level
    //@@ LuaDocParser::get_events
}

impl<'b> LuaDocParser<'_, 'b> {
    //@@ LuaDocParser::init
    //@@ LuaDocParser::bump
    //@@ LuaDocParser::calc_next_current_token
    //@@ LuaDocParser::eat_current_and_lex_next
    //@@ LuaDocParser::lex_token
    //@@ LuaDocParser::current_token
    //@@ LuaDocParser::current_token_range
    //@@ LuaDocParser::origin_text
    //@@ LuaDocParser::set_parser_state
    //@@ LuaDocParser::set_current_token_kind
    //@@ LuaDocParser::current_token_text
    //@@ LuaDocParser::set_lexer_state
    //@@ LuaDocParser::re_calc_detail
    //@@ LuaDocParser::re_calc_cast_type
    //@@ LuaDocParser::bump_to_end
    //@@ LuaDocParser::parse
}

//@@ is_invalid_kind

// ---------------------------------------------------------------------------------------------
// D3: grammar/doc/mod.rs
// ---------------------------------------------------------------------------------------------
/// ASSUMED frame contract of the tag grammar (`grammar/doc/tag.rs`, `grammar/doc/types.rs`, ~1500 lines, not extracted):
/// "preserves the driver invariant, does not un-eat". Basis: the grammar reaches the events, the lexer and the current token
/// only through the driver functions and the marker API proved in this unit (scan: `get_events()`, `lexer.reset`,
/// `current_token_range =`, `current_token =`, `origin_token_index` have no writer outside lua_doc_parser.rs / marker.rs;
/// `p.lexer` is read in types.rs (`p.lexer.state`, `p.lexer.clone()`) but never written), each of which establishes `gstep`,
/// and it calls them within their preconditions (`set_current_token_kind` at 2 sites, both on a TkName; `bump`,
/// `set_lexer_state`, `set_parser_state` have none beyond the invariant). Not proved.
#[verifier::external_body]
pub fn parse_tag(p: &mut LuaDocParser)
    requires gram_pre(old(p)),
    ensures gram_post(old(p), final(p)),
{ unimplemented!() }

/// ASSUMED: same frame contract (see `parse_tag`)
#[verifier::external_body]
pub fn parse_long_tag(p: &mut LuaDocParser)
    requires gram_pre(old(p)),
    ensures gram_post(old(p), final(p)),
{ unimplemented!() }

//@@ parse_comment

//@@ parse_docs

//@@ parse_description

//@@ if_token_bump

} // verus!
fn main() {}
