// ---- specification vocabulary of D1 (LuaDocLexer), on top of unit c01_reader's Reader vocabulary ----------------
/// absolute byte offset (in `origin_text`) where the lexer's pending token starts
pub open spec fn lx_lo(l: &LuaDocLexer) -> int {
    l.reader->0.valid_range.start_offset + l.reader->0.current_buffer_byte_pos
}

/// absolute byte offset of the lexer's cursor = end of the pending token = where the next token will start
pub open spec fn lx_hi(l: &LuaDocLexer) -> int {
    lx_lo(l) + l.reader->0.current_buffer_byte_len
}

/// absolute end of the range the lexer was reset to
pub open spec fn lx_end(l: &LuaDocLexer) -> int {
    l.reader->0.valid_range.start_offset + l.reader->0.valid_range.length
}

/// what `is_invalid()` computes: no range, or the range is exhausted
pub open spec fn lx_done(l: &LuaDocLexer) -> bool {
    l.reader is None || consumed(&l.reader->0) == r_n(&l.reader->0)
}

/// representation invariant of the doc lexer: its reader (if any) is a valid Reader over exactly the bytes
/// [valid_range) of `origin_text`, and that range lies on char boundaries inside the text
#[verifier::prophetic]
pub open spec fn lxinv(l: &LuaDocLexer) -> bool {
    &&& str_len_ok(l.origin_text)
    &&& (l.reader is Some ==> {
        let r = l.reader->0;
        let ob = l.origin_text.spec_bytes();
        &&& rinv(&r)
        &&& r.valid_range.start_offset + r.valid_range.length <= ob.len()
        &&& r.text.spec_bytes() == ob.subrange(r.valid_range.start_offset as int, r.valid_range.start_offset + r.valid_range.length)
        &&& is_char_boundary(ob, r.valid_range.start_offset as int)
        &&& is_char_boundary(ob, r.valid_range.start_offset + r.valid_range.length)
    })
}

// ---- char boundaries of a slice are char boundaries of the whole text ------------------------------------------
/// a boundary of a (valid) prefix is a boundary of the whole: `is_char_boundary` only walks the scalars in front of the index
pub proof fn lemma_boundary_prefix(s: Seq<u8>, b: int, k: int)
    requires 0 <= b <= s.len(), valid_utf8(s), valid_utf8(s.subrange(0, b)), is_char_boundary(s.subrange(0, b), k),
    ensures is_char_boundary(s, k),
    decreases s.len(),
{
    let p = s.subrange(0, b);
    if k != 0 {
        assert(0 < k <= p.len());
        assert(p[0] == s[0]);
        let l = length_of_first_scalar(s);
        assert(valid_first_scalar(p));
        assert(valid_first_scalar(s));
        assert(length_of_first_scalar(p) == l);
        assert(1 <= l <= 4);
        assert(l <= b);
        assert(is_char_boundary(pop_first_scalar(p), k - l));
        assert(pop_first_scalar(p) =~= pop_first_scalar(s).subrange(0, b - l));
        lemma_boundary_prefix(pop_first_scalar(s), b - l, k - l);
    }
}

/// a boundary `k` of the (valid) slice [a, b) of `s`, `a` a boundary of `s`, is the boundary `a + k` of `s`
pub proof fn lemma_boundary_slice(s: Seq<u8>, a: int, b: int, k: int)
    requires 0 <= a <= b <= s.len(), valid_utf8(s), valid_utf8(s.subrange(a, b)), is_char_boundary(s, a), is_char_boundary(s.subrange(a, b), k),
    ensures is_char_boundary(s, a + k),
    decreases s.len(),
{
    let sub = s.subrange(a, b);
    if k != 0 { assert(0 < k <= sub.len()); }
    if a == 0 {
        lemma_boundary_prefix(s, b, k);
    } else {
        assert(0 < a <= s.len());
        assert(valid_first_scalar(s));
        let l = length_of_first_scalar(s);
        assert(1 <= l <= 4);
        let t = pop_first_scalar(s);
        assert(valid_utf8(t));
        assert(is_char_boundary(t, a - l));
        if a - l != 0 { assert(0 < a - l); }
        assert(t.subrange(a - l, b - l) =~= sub);
        lemma_boundary_slice(t, a - l, b - l, k);
        assert(is_char_boundary(t, a + k - l));
        assert(0 < a + k <= s.len());
    }
}

/// the facts about absolute offsets that follow from `lxinv`
pub proof fn lemma_lx(l: &LuaDocLexer)
    requires lxinv(l), l.reader is Some,
    ensures
        lx_lo(l) <= lx_hi(l) <= lx_end(l) <= l.origin_text.spec_bytes().len() <= usize::MAX,
        lx_done(l) <==> lx_hi(l) == lx_end(l),
        l.reader->0.valid_range.length == l.reader->0.text.spec_bytes().len(),
        is_char_boundary(l.origin_text.spec_bytes(), lx_lo(l)) /*@C01.doclexer.tokens-on-char-boundaries*/,
        is_char_boundary(l.origin_text.spec_bytes(), lx_hi(l)) /*@C01.doclexer.tokens-on-char-boundaries*/,
{
    let r = l.reader->0;
    let ob = l.origin_text.spec_bytes();
    lemma_rinv(&r);
    let k = consumed(&r);
    assert(r_at(&r, k));
    let a = r.valid_range.start_offset as int;
    let b = a + r.valid_range.length;
    encode_utf8_valid_utf8(l.origin_text@);
    encode_utf8_valid_utf8(r.text@);
    lemma_boundary_slice(ob, a, b, r.current_buffer_byte_pos as int);
    lemma_boundary_slice(ob, a, b, r.current_buffer_byte_pos + r.current_buffer_byte_len);
}
