// =====================================================================================================
// Property vocabulary of C32, taken from its statement:
//   "A dotted flat key such as "diagnostics.enable" means exactly the same as the nested form. When several files
//    set one scalar, the later file's value wins whichever spelling each file uses, and arrays from later files are
//    appended without duplicates."
// =====================================================================================================

// ---- dotted keys ------------------------------------------------------------------------------------
pub open spec fn dotfree(s: Seq<char>) -> bool { forall|i: int| 0 <= i < s.len() ==> s[i] != '.' }

/// the segments joined by '.'
pub open spec fn join_dot(parts: Seq<Seq<char>>) -> Seq<char>
    decreases parts.len()
{
    if parts.len() == 0 { Seq::empty() }
    else if parts.len() == 1 { parts[0] }
    else { join_dot(parts.drop_last()) + seq!['.'] + parts.last() }
}

/// std doc of `str::split` for the char pattern '.': at least one part, no part contains the separator, the parts
/// joined by the separator give back the string
pub open spec fn is_split(parts: Seq<Seq<char>>, s: Seq<char>) -> bool {
    &&& parts.len() >= 1
    &&& forall|i: int| 0 <= i < parts.len() ==> dotfree(#[trigger] parts[i])
    &&& join_dot(parts) == s
}

/// index of the last '.' of s, or -1
pub open spec fn last_dot(s: Seq<char>) -> int
    decreases s.len()
{
    if s.len() == 0 { -1 } else if s.last() == '.' { s.len() - 1 } else { last_dot(s.drop_last()) }
}

/// the segments of a dotted key ("a.b" -> ["a", "b"], "" -> [""], "." -> ["", ""])
pub open spec fn segs(s: Seq<char>) -> Seq<Seq<char>>
    decreases s.len()
{
    let i = last_dot(s);
    if i < 0 || i >= s.len() { seq![s] } else { segs(s.subrange(0, i)).push(s.subrange(i + 1, s.len() as int)) }
}

pub open spec fn is_prefix(q: Seq<Seq<char>>, s: Seq<Seq<char>>) -> bool {
    q.len() <= s.len() && s.subrange(0, q.len() as int) == q
}

pub open spec fn proper_prefix(q: Seq<Seq<char>>, s: Seq<Seq<char>>) -> bool { is_prefix(q, s) && q.len() < s.len() }

// ---- what a configuration value MEANS: the (dotted path -> leaf) pairs it denotes --------------------
/// the path of key `k` below `prefix` (None = top level of the file)
pub open spec fn pjoin(prefix: Option<Seq<char>>, k: Seq<char>) -> Seq<char> {
    match prefix { None => k, Some(p) => p + seq!['.'] + k }
}

pub open spec fn ptext(prefix: Option<Seq<char>>) -> Seq<char> { match prefix { None => Seq::empty(), Some(p) => p } }

/// `v`, found under the dotted path `prefix`, sets the setting `p` to `leaf`. A leaf is any non-object value (scalars
/// and arrays); a key of an object at any level extends the path by '.' + key, whether or not the key itself contains
/// dots: this is the sentence "a dotted flat key means exactly the same as the nested form".
pub open spec fn den(prefix: Option<Seq<char>>, v: JV, p: Seq<char>, leaf: JV) -> bool
    decreases v
{
    match v {
        JV::Object(m) => exists|k: Seq<char>| #[trigger] m.contains_key(k) && den(Some(pjoin(prefix, k)), m[k], p, leaf),
        _ => p == ptext(prefix) && leaf == v,
    }
}

/// `f` is the set of settings of the configuration value `v`: exactly the paths `v` denotes, each with a leaf `v` gives it
pub open spec fn settings_of(f: Map<Seq<char>, JV>, prefix: Option<Seq<char>>, v: JV) -> bool {
    &&& forall|p: Seq<char>| #[trigger] f.contains_key(p) ==> den(prefix, v, p, f[p])
    &&& forall|p: Seq<char>, leaf: JV| #[trigger] den(prefix, v, p, leaf) ==> f.contains_key(p)
}

/// no setting is spelled twice with different values inside the one file
pub open spec fn unambiguous(v: JV) -> bool {
    forall|p: Seq<char>, l1: JV, l2: JV| #[trigger] den(None, v, p, l1) && #[trigger] den(None, v, p, l2) ==> l1 == l2
}

/// every value of a flat map is a leaf
pub open spec fn flat_wf(f: Map<Seq<char>, JV>) -> bool { forall|k: Seq<char>| #[trigger] f.contains_key(k) ==> !(f[k] is Object) }

/// the settings of a file (unique when the file is unambiguous)
pub open spec fn paths(v: JV) -> Map<Seq<char>, JV> { choose|f: Map<Seq<char>, JV>| settings_of(f, None, v) && flat_wf(f) }

// ---- the nested form of a set of settings -----------------------------------------------------------
/// some setting lies at or below the segment path q
pub open spec fn under(f: Map<Seq<char>, JV>, q: Seq<Seq<char>>) -> bool {
    exists|k: Seq<char>| f.contains_key(k) && #[trigger] is_prefix(q, segs(k))
}

/// some setting lies strictly below the segment path q
pub open spec fn interior(f: Map<Seq<char>, JV>, q: Seq<Seq<char>>) -> bool {
    exists|k: Seq<char>| f.contains_key(k) && #[trigger] proper_prefix(q, segs(k))
}

/// `t` is the nested object for the settings of `f` below segment path `q`: one member per next segment; a member is
/// the nested object of the settings below it if there are any, else the leaf of the setting that ends there (a key that is
/// both a value and a prefix of other keys keeps the nested form).
pub open spec fn tree_ok(t: JV, f: Map<Seq<char>, JV>, q: Seq<Seq<char>>) -> bool
    decreases t
{
    t matches JV::Object(m)
    && (forall|h: Seq<char>| #[trigger] m.contains_key(h) <==> under(f, q.push(h)))
    && (forall|h: Seq<char>| #[trigger] m.contains_key(h) ==>
            if interior(f, q.push(h)) { tree_ok(m[h], f, q.push(h)) }
            else { f.contains_key(join_dot(q.push(h))) && m[h] == f[join_dot(q.push(h))] })
}

/// what one round of the inner loop of `to_emmyrc_json` does to the object `t` for the remaining segments `s`
pub open spec fn ins(t: JV, s: Seq<Seq<char>>, v: JV) -> JV
    decreases s.len()
{
    if s.len() == 0 || !(t is Object) { t }
    else {
        let m = t->Object_0;
        let h = s[0];
        if s.len() == 1 {
            if m.contains_key(h) && m[h] is Object { t } else { JV::Object(m.insert(h, v)) }
        } else {
            let child = if m.contains_key(h) && m[h] is Object { m[h] } else { JV::Object(Map::empty()) };
            JV::Object(m.insert(h, ins(child, s.drop_first(), v)))
        }
    }
}

// ---- merging ---------------------------------------------------------------------------------------
/// "arrays from later files are appended without duplicates": every element of the later array that is not present yet
/// is appended, in order
pub open spec fn append_new(base: Seq<JV>, over: Seq<JV>) -> Seq<JV>
    decreases over.len()
{
    if over.len() == 0 { base }
    else { append_new(if base.contains(over[0]) { base } else { base.push(over[0]) }, over.drop_first()) }
}

/// the later value `o` laid over the earlier value `b`
pub open spec fn merge(b: JV, o: JV) -> JV
    decreases o
{
    match (b, o) {
        (JV::Object(bm), JV::Object(om)) => JV::Object(Map::new(bm.dom().union(om.dom()),
            |k: Seq<char>| if om.contains_key(k) { if bm.contains_key(k) { merge(bm[k], om[k]) } else { om[k] } } else { bm[k] })),
        (JV::Array(ba), JV::Array(oa)) => JV::Array(append_new(ba, oa)),
        (_, _) => o,
    }
}

/// the members of `om` listed in `done` laid over `bm`
pub open spec fn merge_keys(bm: Map<Seq<char>, JV>, om: Map<Seq<char>, JV>, done: Set<Seq<char>>) -> Map<Seq<char>, JV> {
    Map::new(bm.dom().union(done),
        |k: Seq<char>| if done.contains(k) { if bm.contains_key(k) { merge(bm[k], om[k]) } else { om[k] } } else { bm[k] })
}

/// settings of a later file laid over the settings so far: "the later file's value wins ... arrays from later files are
/// appended without duplicates"
pub open spec fn lw2(a: Map<Seq<char>, JV>, n: Map<Seq<char>, JV>) -> Map<Seq<char>, JV> {
    Map::new(a.dom().union(n.dom()),
        |p: Seq<char>| if n.contains_key(p) { if a.contains_key(p) { merge(a[p], n[p]) } else { n[p] } } else { a[p] })
}

/// the settings of the files loaded in this order
pub open spec fn later_wins(files: Seq<Map<Seq<char>, JV>>) -> Map<Seq<char>, JV>
    decreases files.len()
{
    if files.len() == 0 { Map::empty() } else { lw2(later_wins(files.drop_last()), files.last()) }
}

/// no setting of one map lies strictly below a setting of the other (shape conflict: the property does not say which wins)
pub open spec fn compat(a: Map<Seq<char>, JV>, n: Map<Seq<char>, JV>) -> bool {
    forall|ka: Seq<char>, kn: Seq<char>| #[trigger] a.contains_key(ka) && #[trigger] n.contains_key(kn)
        ==> !proper_prefix(segs(ka), segs(kn)) && !proper_prefix(segs(kn), segs(ka))
}

// ---- contracts of the flattening functions ------------------------------------------------------------
/// how `flatten_object` reads its `prefix` parameter. The code as it stands passes "" for "top level of the file" and the
/// dotted path otherwise; a version that passes an Option says so directly.
pub trait PrefixArg {
    spec fn pfx(&self) -> Option<Seq<char>>;
    /// the key under which a leaf found at this prefix is stored
    spec fn text(&self) -> Seq<char>;
}
impl<'a> PrefixArg for &'a str {
    open spec fn pfx(&self) -> Option<Seq<char>> { if self@.len() == 0 { None } else { Some(self@) } }
    open spec fn text(&self) -> Seq<char> { self@ }
}
impl<'a> PrefixArg for Option<&'a str> {
    open spec fn pfx(&self) -> Option<Seq<char>> { match *self { None => None, Some(s) => Some(s@) } }
    open spec fn text(&self) -> Seq<char> { match *self { None => Seq::empty(), Some(s) => s@ } }
}

/// `flatten_object(prefix, v, config)` adds exactly the settings that `v` denotes under `prefix`
pub open spec fn flatten_post(c0: Map<Seq<char>, JV>, c1: Map<Seq<char>, JV>, pre: Option<Seq<char>>, v: JV) -> bool {
    &&& forall|p: Seq<char>| #[trigger] c1.contains_key(p) ==> (c0.contains_key(p) && c1[p] == c0[p]) || den(pre, v, p, c1[p])
    &&& forall|p: Seq<char>| #[trigger] c0.contains_key(p) ==> c1.contains_key(p)
    &&& forall|p: Seq<char>, leaf: JV| #[trigger] den(pre, v, p, leaf) ==> c1.contains_key(p)
    &&& flat_wf(c0) ==> flat_wf(c1)
}

/// loop invariant of `flatten_object` after the first `n` members `ks[0..n)` of the object `m`
pub open spec fn flatten_inv(c0: Map<Seq<char>, JV>, c1: Map<Seq<char>, JV>, pre: Option<Seq<char>>, m: Map<Seq<char>, JV>,
                             ks: Seq<Seq<char>>, n: int) -> bool {
    &&& forall|p: Seq<char>| #[trigger] c1.contains_key(p) ==> (c0.contains_key(p) && c1[p] == c0[p]) || den(pre, JV::Object(m), p, c1[p])
    &&& forall|p: Seq<char>| #[trigger] c0.contains_key(p) ==> c1.contains_key(p)
    &&& forall|p: Seq<char>, leaf: JV, j: int| 0 <= j < n && #[trigger] den(Some(pjoin(pre, ks[j])), m[ks[j]], p, leaf) ==> c1.contains_key(p)
    &&& flat_wf(c0) ==> flat_wf(c1)
}

// ---- contract vocabulary of merge_values --------------------------------------------------------------
/// loop invariant of the object arm: the first `n` members `ks[0..n)` of the later object laid over `bm`
pub open spec fn merged_upto(bm: Map<Seq<char>, JV>, om: Map<Seq<char>, JV>, ks: Seq<Seq<char>>, n: int) -> Map<Seq<char>, JV> {
    merge_keys(bm, om, ks.take(n).to_set())
}

/// what a member `k` of the later object does to the earlier object
pub open spec fn member_merged(bm: Map<Seq<char>, JV>, om: Map<Seq<char>, JV>, k: Seq<char>) -> JV {
    if bm.contains_key(k) { merge(bm[k], om[k]) } else { om[k] }
}

// ---- the files of one load ----------------------------------------------------------------------------
pub open spec fn paths_seq(vs: Seq<JV>) -> Seq<Map<Seq<char>, JV>> { Seq::new(vs.len(), |i: int| paths(vs[i])) }

/// the files the property speaks about: no file spells one setting twice, and no setting (of the same or of another file)
/// lies strictly below another setting (`"a": 1` in one place and `"a.b": 2` in another: the property does not say which
/// shape wins)
pub open spec fn files_ok(vs: Seq<JV>) -> bool {
    &&& forall|i: int| 0 <= i < vs.len() ==> unambiguous(#[trigger] vs[i])
    &&& forall|i: int, j: int| 0 <= i <= j < vs.len() ==> compat(#[trigger] paths(vs[i]), #[trigger] paths(vs[j]))
}

/// the dotted prefix that corresponds to the segment path q
pub open spec fn qpre(q: Seq<Seq<char>>) -> Option<Seq<char>> { if q.len() == 0 { None } else { Some(join_dot(q)) } }
