// =====================================================================================================
// Lemmas (every one has a body that verifies)
// =====================================================================================================

// ---- dotted keys ------------------------------------------------------------------------------------
pub proof fn lemma_last_dot_range(s: Seq<char>)
    ensures
        -1 <= last_dot(s) < s.len(),
        last_dot(s) >= 0 ==> s[last_dot(s)] == '.',
        forall|j: int| last_dot(s) < j < s.len() ==> s[j] != '.',
    decreases s.len()
{
    if s.len() > 0 && s.last() != '.' {
        lemma_last_dot_range(s.drop_last());
        assert forall|j: int| last_dot(s) < j < s.len() implies s[j] != '.' by {
            if j < s.len() - 1 { assert(s.drop_last()[j] == s[j]); }
        }
        if last_dot(s) >= 0 { assert(s.drop_last()[last_dot(s)] == s[last_dot(s)]); }
    }
}

pub proof fn lemma_last_dot_dotfree(s: Seq<char>)
    requires dotfree(s)
    ensures last_dot(s) == -1
    decreases s.len()
{
    if s.len() > 0 {
        assert(s.last() == s[s.len() - 1]);
        assert forall|i: int| 0 <= i < s.drop_last().len() implies s.drop_last()[i] != '.' by { assert(s.drop_last()[i] == s[i]); }
        lemma_last_dot_dotfree(s.drop_last());
    }
}

pub proof fn lemma_last_dot_join(a: Seq<char>, b: Seq<char>)
    requires dotfree(b)
    ensures last_dot(a + seq!['.'] + b) == a.len()
    decreases b.len()
{
    let s = a + seq!['.'] + b;
    if b.len() == 0 {
        assert(s.last() == '.');
    } else {
        assert(s.last() == b[b.len() - 1]);
        assert(s.drop_last() =~= a + seq!['.'] + b.drop_last());
        assert forall|i: int| 0 <= i < b.drop_last().len() implies b.drop_last()[i] != '.' by { assert(b.drop_last()[i] == b[i]); }
        lemma_last_dot_join(a, b.drop_last());
    }
}

pub proof fn lemma_segs_is_split(s: Seq<char>)
    ensures is_split(segs(s), s)
    decreases s.len()
{
    lemma_last_dot_range(s);
    let i = last_dot(s);
    if i < 0 {
        assert(segs(s) == seq![s]);
        assert(segs(s)[0] == s);
        assert(dotfree(s));
    } else {
        let a = s.subrange(0, i);
        let b = s.subrange(i + 1, s.len() as int);
        lemma_segs_is_split(a);
        let p = segs(a).push(b);
        assert(segs(s) == p);
        assert(p.drop_last() =~= segs(a));
        assert(p.last() == b);
        assert(dotfree(b)) by { assert forall|j: int| 0 <= j < b.len() implies b[j] != '.' by { assert(b[j] == s[i + 1 + j]); } }
        assert(a + seq!['.'] + b =~= s);
        assert forall|j: int| 0 <= j < p.len() implies dotfree(#[trigger] p[j]) by {
            if j < p.len() - 1 { assert(p[j] == segs(a)[j]); }
        }
    }
}

pub proof fn lemma_split_unique(p: Seq<Seq<char>>, s: Seq<char>)
    requires is_split(p, s)
    ensures p == segs(s)
    decreases p.len()
{
    if p.len() == 1 {
        assert(s == p[0]);
        lemma_last_dot_dotfree(s);
        assert(p =~= seq![s]);
    } else {
        let a = join_dot(p.drop_last());
        let b = p.last();
        assert(s == a + seq!['.'] + b);
        assert(dotfree(b));
        lemma_last_dot_join(a, b);
        let i = last_dot(s);
        assert(s.subrange(0, i) =~= a);
        assert(s.subrange(i + 1, s.len() as int) =~= b);
        assert forall|j: int| 0 <= j < p.drop_last().len() implies dotfree(#[trigger] p.drop_last()[j]) by { assert(p.drop_last()[j] == p[j]); }
        lemma_split_unique(p.drop_last(), a);
        assert(segs(s) == segs(a).push(b));
        assert(p =~= p.drop_last().push(b));
    }
}

pub proof fn lemma_segs_injective(a: Seq<char>, b: Seq<char>)
    requires segs(a) == segs(b)
    ensures a == b
{
    lemma_segs_is_split(a);
    lemma_segs_is_split(b);
}

// ---- the nested form --------------------------------------------------------------------------------
pub proof fn lemma_child_smaller(v: JV, k: Seq<char>)
    requires v is Object, v->Object_0.contains_key(k)
    ensures decreases_to!(v => v->Object_0[k])
{
    vstd::map::axiom_map_index_decreases(v->Object_0, k);
}

/// the nested form of a set of settings is unique: `to_emmyrc_json`'s result is a function of the flat map alone
pub proof fn lemma_tree_unique(t1: JV, t2: JV, f: Map<Seq<char>, JV>, q: Seq<Seq<char>>)
    requires tree_ok(t1, f, q), tree_ok(t2, f, q)
    ensures t1 == t2
    decreases t1
{
    let m1 = t1->Object_0;
    let m2 = t2->Object_0;
    assert forall|h: Seq<char>| m1.contains_key(h) == m2.contains_key(h) by {}
    assert forall|h: Seq<char>| m1.contains_key(h) implies m1[h] == m2[h] by {
        assert(m2.contains_key(h));
        if interior(f, q.push(h)) {
            lemma_child_smaller(t1, h);
            lemma_tree_unique(m1[h], m2[h], f, q.push(h));
        }
    }
    assert(m1 =~= m2);
}

pub proof fn lemma_prefix_push(q: Seq<Seq<char>>, h: Seq<char>, s: Seq<Seq<char>>)
    requires is_prefix(q.push(h), s)
    ensures proper_prefix(q, s), s[q.len() as int] == h
{
    let n = q.len() as int;
    assert(s.subrange(0, n + 1) == q.push(h));
    assert(s.subrange(0, n) =~= q) by {
        assert forall|i: int| 0 <= i < n implies s.subrange(0, n)[i] == q[i] by {
            assert(s.subrange(0, n + 1)[i] == q.push(h)[i]);
        }
    }
    assert(s[n] == s.subrange(0, n + 1)[n]);
}

pub proof fn lemma_prefix_ext(q: Seq<Seq<char>>, s: Seq<Seq<char>>)
    requires proper_prefix(q, s)
    ensures is_prefix(q.push(s[q.len() as int]), s)
{
    let n = q.len() as int;
    assert(s.subrange(0, n) == q);
    assert(s.subrange(0, n + 1) =~= q.push(s[n])) by {
        assert forall|i: int| 0 <= i < n + 1 implies s.subrange(0, n + 1)[i] == q.push(s[n])[i] by {
            if i < n { assert(s.subrange(0, n)[i] == q[i]); }
        }
    }
}

pub proof fn lemma_under_insert(f: Map<Seq<char>, JV>, q: Seq<Seq<char>>, k: Seq<char>, v: JV)
    ensures
        under(f.insert(k, v), q) == (under(f, q) || is_prefix(q, segs(k))),
        interior(f.insert(k, v), q) == (interior(f, q) || proper_prefix(q, segs(k))),
{
    let f2 = f.insert(k, v);
    if under(f, q) {
        let k1 = choose|k1: Seq<char>| f.contains_key(k1) && #[trigger] is_prefix(q, segs(k1));
        assert(f2.contains_key(k1) && is_prefix(q, segs(k1)));
    }
    if is_prefix(q, segs(k)) { assert(f2.contains_key(k) && is_prefix(q, segs(k))); }
    if under(f2, q) {
        let k1 = choose|k1: Seq<char>| f2.contains_key(k1) && #[trigger] is_prefix(q, segs(k1));
        if k1 != k { assert(f.contains_key(k1) && is_prefix(q, segs(k1))); }
    }
    if interior(f, q) {
        let k1 = choose|k1: Seq<char>| f.contains_key(k1) && #[trigger] proper_prefix(q, segs(k1));
        assert(f2.contains_key(k1) && proper_prefix(q, segs(k1)));
    }
    if proper_prefix(q, segs(k)) { assert(f2.contains_key(k) && proper_prefix(q, segs(k))); }
    if interior(f2, q) {
        let k1 = choose|k1: Seq<char>| f2.contains_key(k1) && #[trigger] proper_prefix(q, segs(k1));
        if k1 != k { assert(f.contains_key(k1) && proper_prefix(q, segs(k1))); }
    }
}

/// a setting that does not lie strictly below q does not change the nested form below q
pub proof fn lemma_tree_frame_insert(t: JV, f: Map<Seq<char>, JV>, q: Seq<Seq<char>>, k: Seq<char>, v: JV)
    requires tree_ok(t, f, q), !f.contains_key(k), !proper_prefix(q, segs(k))
    ensures tree_ok(t, f.insert(k, v), q)
    decreases t
{
    let f2 = f.insert(k, v);
    let m = t->Object_0;
    assert forall|h: Seq<char>| under(f2, q.push(h)) == under(f, q.push(h)) && interior(f2, q.push(h)) == interior(f, q.push(h))
        && !proper_prefix(q.push(h), segs(k)) by {
        lemma_under_insert(f, q.push(h), k, v);
        if is_prefix(q.push(h), segs(k)) { lemma_prefix_push(q, h, segs(k)); }
    }
    assert forall|h: Seq<char>| #[trigger] m.contains_key(h) implies
        (if interior(f2, q.push(h)) { tree_ok(m[h], f2, q.push(h)) }
         else { f2.contains_key(join_dot(q.push(h))) && m[h] == f2[join_dot(q.push(h))] }) by {
        if interior(f, q.push(h)) {
            lemma_child_smaller(t, h);
            lemma_tree_frame_insert(m[h], f, q.push(h), k, v);
        }
    }
}

pub proof fn lemma_tree_empty(f: Map<Seq<char>, JV>, q: Seq<Seq<char>>)
    requires !interior(f, q)
    ensures tree_ok(JV::Object(Map::empty()), f, q)
{
    assert forall|h: Seq<char>| !under(f, q.push(h)) by {
        if under(f, q.push(h)) {
            let k = choose|k: Seq<char>| f.contains_key(k) && #[trigger] is_prefix(q.push(h), segs(k));
            lemma_prefix_push(q, h, segs(k));
            assert(f.contains_key(k) && proper_prefix(q, segs(k)));
        }
    }
}

/// one more setting `k -> v`: the inner loop of `to_emmyrc_json` turns the nested form of `f` into that of `f.insert(k, v)`
pub proof fn lemma_ins_tree_ok(t: JV, f: Map<Seq<char>, JV>, q: Seq<Seq<char>>, s: Seq<Seq<char>>, k: Seq<char>, v: JV)
    requires tree_ok(t, f, q), flat_wf(f), !f.contains_key(k), segs(k) == q + s, s.len() >= 1, !(v is Object)
    ensures tree_ok(ins(t, s, v), f.insert(k, v), q)
    decreases s.len()
{
    let f2 = f.insert(k, v);
    let m = t->Object_0;
    let h = s[0];
    let qh = q.push(h);
    let sk = segs(k);
    assert(sk[q.len() as int] == h);
    assert(sk.subrange(0, q.len() as int) =~= q);
    assert(sk.subrange(0, q.len() as int + 1) =~= qh);
    assert(is_prefix(qh, sk));
    lemma_under_insert(f, qh, k, v);
    // members other than h are untouched
    assert forall|h2: Seq<char>| h2 != h implies under(f2, q.push(h2)) == under(f, q.push(h2))
        && interior(f2, q.push(h2)) == interior(f, q.push(h2)) && !proper_prefix(q.push(h2), sk) && !is_prefix(q.push(h2), sk) by {
        lemma_under_insert(f, q.push(h2), k, v);
        if is_prefix(q.push(h2), sk) { lemma_prefix_push(q, h2, sk); }
    }
    assert forall|h2: Seq<char>| h2 != h && #[trigger] m.contains_key(h2) implies
        (if interior(f2, q.push(h2)) { tree_ok(m[h2], f2, q.push(h2)) }
         else { f2.contains_key(join_dot(q.push(h2))) && m[h2] == f2[join_dot(q.push(h2))] }) by {
        if interior(f, q.push(h2)) { lemma_tree_frame_insert(m[h2], f, q.push(h2), k, v); }
    }
    let good = m.contains_key(h) && m[h] is Object;
    // a member that is an object is the nested form of the settings below it
    if good {
        assert(interior(f, qh)) by { if !interior(f, qh) { assert(f.contains_key(join_dot(qh))); } }
    } else {
        assert(!interior(f, qh)) by { if interior(f, qh) { assert(under(f, qh)) by {
            let k1 = choose|k1: Seq<char>| f.contains_key(k1) && #[trigger] proper_prefix(qh, segs(k1));
            assert(f.contains_key(k1) && is_prefix(qh, segs(k1)));
        }
        assert(m.contains_key(h));
        assert(tree_ok(m[h], f, qh)); } }
    }
    if s.len() == 1 {
        assert(sk =~= qh);
        assert(!proper_prefix(qh, sk));
        lemma_segs_is_split(k);
        assert(join_dot(qh) == k);
        if good {
            lemma_tree_frame_insert(m[h], f, qh, k, v);
            assert(ins(t, s, v) == t);
        } else {
            let m2 = m.insert(h, v);
            assert(ins(t, s, v) == JV::Object(m2));
            assert forall|h2: Seq<char>| #[trigger] m2.contains_key(h2) <==> under(f2, q.push(h2)) by {}
        }
    } else {
        assert(proper_prefix(qh, sk));
        let child = if good { m[h] } else { JV::Object(Map::empty()) };
        if !good { lemma_tree_empty(f, qh); }
        assert(sk =~= qh + s.drop_first());
        lemma_ins_tree_ok(child, f, qh, s.drop_first(), k, v);
        let m2 = m.insert(h, ins(child, s.drop_first(), v));
        assert(ins(t, s, v) == JV::Object(m2));
        assert forall|h2: Seq<char>| #[trigger] m2.contains_key(h2) <==> under(f2, q.push(h2)) by {}
    }
}

// ---- the outer loop of to_emmyrc_json: settings handled so far, in whatever order the hash map yields them -------------
pub open spec fn done_part(f: Map<Seq<char>, JV>, ks: Seq<Seq<char>>, n: int) -> Map<Seq<char>, JV> {
    f.restrict(ks.take(n).to_set())
}

pub proof fn lemma_outer_init(f: Map<Seq<char>, JV>)
    ensures
        forall|ks: Seq<Seq<char>>, vs: Seq<JV>| #[trigger] lists_entries(ks, vs, f) ==>
            tree_ok(JV::Object(Map::empty()), done_part(f, ks, 0), Seq::empty())
            && (ks.len() == 0 ==> tree_ok(JV::Object(Map::empty()), f, Seq::empty())),
{
    assert forall|ks: Seq<Seq<char>>, vs: Seq<JV>| #[trigger] lists_entries(ks, vs, f) implies
        tree_ok(JV::Object(Map::empty()), done_part(f, ks, 0), Seq::empty())
        && (ks.len() == 0 ==> tree_ok(JV::Object(Map::empty()), f, Seq::empty())) by {
        let f0 = done_part(f, ks, 0);
        assert(ks.take(0) =~= Seq::<Seq<char>>::empty());
        assert forall|k: Seq<char>| !f0.contains_key(k) by {}
        lemma_tree_empty(f0, Seq::empty());
        if ks.len() == 0 { lemma_outer_done(f, ks, vs); }
    }
}

pub proof fn lemma_outer_step(f: Map<Seq<char>, JV>, ks: Seq<Seq<char>>, vs: Seq<JV>, n: int, t0: JV)
    requires lists_entries(ks, vs, f), 0 <= n < ks.len(), flat_wf(f), tree_ok(t0, done_part(f, ks, n), Seq::empty())
    ensures tree_ok(ins(t0, segs(ks[n]), vs[n]), done_part(f, ks, n + 1), Seq::empty())
{
    let f_n = done_part(f, ks, n);
    let k = ks[n];
    assert(!f_n.contains_key(k)) by {
        if ks.take(n).contains(k) {
            let j = choose|j: int| 0 <= j < ks.take(n).len() && ks.take(n)[j] == k;
            assert(ks[j] == ks[n]);
        }
    }
    assert(f_n.insert(k, vs[n]) =~= done_part(f, ks, n + 1)) by {
        assert(ks.take(n + 1) =~= ks.take(n).push(k));
        assert forall|x: Seq<char>| ks.take(n + 1).contains(x) == (ks.take(n).contains(x) || x == k) by {
            if ks.take(n).contains(x) {
                let j = choose|j: int| 0 <= j < ks.take(n).len() && ks.take(n)[j] == x;
                assert(ks.take(n + 1)[j] == x);
            }
            if x == k { assert(ks.take(n + 1)[n] == x); }
        }
    }
    lemma_segs_is_split(k);
    assert(Seq::<Seq<char>>::empty() + segs(k) =~= segs(k));
    lemma_ins_tree_ok(t0, f_n, Seq::empty(), segs(k), k, vs[n]);
}

pub proof fn lemma_outer_done(f: Map<Seq<char>, JV>, ks: Seq<Seq<char>>, vs: Seq<JV>)
    requires lists_entries(ks, vs, f)
    ensures done_part(f, ks, ks.len() as int) == f
{
    assert(ks.take(ks.len() as int) =~= ks);
    assert(done_part(f, ks, ks.len() as int) =~= f);
}

/// lemma_outer_step / lemma_outer_done for every listing of the map at once (the listing a `for` loop walks is a prophetic
/// value and cannot be handed to a lemma; the solver instantiates this with it)
pub proof fn lemma_outer_step_q(f: Map<Seq<char>, JV>, n: int, t0: JV, k: Seq<char>, v: JV)
    ensures
        forall|ks: Seq<Seq<char>>, vs: Seq<JV>| #![trigger lists_entries(ks, vs, f), done_part(f, ks, n)]
            lists_entries(ks, vs, f) && 0 <= n < ks.len() && ks[n] == k && vs[n] == v && flat_wf(f)
                && tree_ok(t0, done_part(f, ks, n), Seq::empty())
            ==> tree_ok(ins(t0, segs(k), v), done_part(f, ks, n + 1), Seq::empty())
                && (n + 1 == ks.len() ==> done_part(f, ks, n + 1) == f),
{
    assert forall|ks: Seq<Seq<char>>, vs: Seq<JV>| #![trigger lists_entries(ks, vs, f), done_part(f, ks, n)]
        lists_entries(ks, vs, f) && 0 <= n < ks.len() && ks[n] == k && vs[n] == v && flat_wf(f)
            && tree_ok(t0, done_part(f, ks, n), Seq::empty())
        implies tree_ok(ins(t0, segs(k), v), done_part(f, ks, n + 1), Seq::empty())
            && (n + 1 == ks.len() ==> done_part(f, ks, n + 1) == f) by {
        lemma_outer_step(f, ks, vs, n, t0);
        if n + 1 == ks.len() { lemma_outer_done(f, ks, vs); }
    }
}

// ---- flatten_object ---------------------------------------------------------------------------------
/// a member of an object that denotes a setting makes the object denote it
pub proof fn lemma_den_intro(pre: Option<Seq<char>>, m: Map<Seq<char>, JV>, p: Seq<char>, leaf: JV, k: Seq<char>)
    requires m.contains_key(k), den(Some(pjoin(pre, k)), m[k], p, leaf)
    ensures den(pre, JV::Object(m), p, leaf)
{
    let v = JV::Object(m);
    assert(v->Object_0 == m);
    assert(v->Object_0.contains_key(k) && den(Some(pjoin(pre, k)), v->Object_0[k], p, leaf));
}

/// one more member of the object has been flattened
pub proof fn lemma_flatten_step(c0: Map<Seq<char>, JV>, c1: Map<Seq<char>, JV>, c2: Map<Seq<char>, JV>, pre: Option<Seq<char>>,
                                m: Map<Seq<char>, JV>, ks: Seq<Seq<char>>, n: int)
    requires
        0 <= n < ks.len(), m.contains_key(ks[n]),
        flatten_inv(c0, c1, pre, m, ks, n),
        flatten_post(c1, c2, Some(pjoin(pre, ks[n])), m[ks[n]]),
    ensures flatten_inv(c0, c2, pre, m, ks, n + 1)
{
    let k = ks[n];
    let nk = Some(pjoin(pre, k));
    assert forall|p: Seq<char>| #[trigger] c2.contains_key(p) implies (c0.contains_key(p) && c2[p] == c0[p]) || den(pre, JV::Object(m), p, c2[p]) by {
        if c1.contains_key(p) && c2[p] == c1[p] {
            assert((c0.contains_key(p) && c1[p] == c0[p]) || den(pre, JV::Object(m), p, c1[p]));
        } else {
            assert(den(nk, m[k], p, c2[p]));
            lemma_den_intro(pre, m, p, c2[p], k);
        }
    }
    assert forall|p: Seq<char>, leaf: JV, j: int| 0 <= j < n + 1 && #[trigger] den(Some(pjoin(pre, ks[j])), m[ks[j]], p, leaf) implies c2.contains_key(p) by {
        if j < n { assert(c1.contains_key(p)); }
    }
}

/// all members done: the object itself has been flattened
pub proof fn lemma_flatten_done(c0: Map<Seq<char>, JV>, c1: Map<Seq<char>, JV>, pre: Option<Seq<char>>, m: Map<Seq<char>, JV>,
                                ks: Seq<Seq<char>>, vs: Seq<JV>)
    requires lists_entries(ks, vs, m), flatten_inv(c0, c1, pre, m, ks, ks.len() as int)
    ensures flatten_post(c0, c1, pre, JV::Object(m))
{
    assert forall|p: Seq<char>, leaf: JV| #[trigger] den(pre, JV::Object(m), p, leaf) implies c1.contains_key(p) by {
        let k = choose|k: Seq<char>| #[trigger] m.contains_key(k) && den(Some(pjoin(pre, k)), m[k], p, leaf);
        assert(ks.contains(k));
        let j = choose|j: int| 0 <= j < ks.len() && ks[j] == k;
        assert(den(Some(pjoin(pre, ks[j])), m[ks[j]], p, leaf));
    }
}

pub proof fn lemma_flatten_q(c0: Map<Seq<char>, JV>, c1: Map<Seq<char>, JV>, c2: Map<Seq<char>, JV>, pre: Option<Seq<char>>,
                             m: Map<Seq<char>, JV>, n: int, k: Seq<char>)
    ensures
        forall|ks: Seq<Seq<char>>, vs: Seq<JV>| #![trigger lists_entries(ks, vs, m), flatten_inv(c0, c1, pre, m, ks, n)]
            lists_entries(ks, vs, m) && 0 <= n < ks.len() && ks[n] == k && flatten_inv(c0, c1, pre, m, ks, n)
                && flatten_post(c1, c2, Some(pjoin(pre, k)), m[k])
            ==> flatten_inv(c0, c2, pre, m, ks, n + 1) && (n + 1 == ks.len() ==> flatten_post(c0, c2, pre, JV::Object(m))),
{
    assert forall|ks: Seq<Seq<char>>, vs: Seq<JV>| #![trigger lists_entries(ks, vs, m), flatten_inv(c0, c1, pre, m, ks, n)]
        lists_entries(ks, vs, m) && 0 <= n < ks.len() && ks[n] == k && flatten_inv(c0, c1, pre, m, ks, n)
            && flatten_post(c1, c2, Some(pjoin(pre, k)), m[k])
        implies flatten_inv(c0, c2, pre, m, ks, n + 1) && (n + 1 == ks.len() ==> flatten_post(c0, c2, pre, JV::Object(m))) by {
        lemma_flatten_step(c0, c1, c2, pre, m, ks, n);
        if n + 1 == ks.len() { lemma_flatten_done(c0, c2, pre, m, ks, vs); }
    }
}

/// an object without members denotes nothing
pub proof fn lemma_flatten_empty(c0: Map<Seq<char>, JV>, pre: Option<Seq<char>>, m: Map<Seq<char>, JV>)
    ensures
        forall|ks: Seq<Seq<char>>, vs: Seq<JV>| #[trigger] lists_entries(ks, vs, m) ==>
            flatten_inv(c0, c0, pre, m, ks, 0) && (ks.len() == 0 ==> flatten_post(c0, c0, pre, JV::Object(m))),
{
    assert forall|ks: Seq<Seq<char>>, vs: Seq<JV>| #[trigger] lists_entries(ks, vs, m) implies
        flatten_inv(c0, c0, pre, m, ks, 0) && (ks.len() == 0 ==> flatten_post(c0, c0, pre, JV::Object(m))) by {
        if ks.len() == 0 { lemma_flatten_done(c0, c0, pre, m, ks, vs); }
    }
}

/// the settings of an unambiguous file are unique
pub proof fn lemma_settings_unique(f1: Map<Seq<char>, JV>, f2: Map<Seq<char>, JV>, v: JV)
    requires settings_of(f1, None, v), settings_of(f2, None, v), unambiguous(v)
    ensures f1 == f2
{
    assert forall|p: Seq<char>| f1.contains_key(p) == f2.contains_key(p) by {
        if f1.contains_key(p) { assert(den(None, v, p, f1[p])); }
        if f2.contains_key(p) { assert(den(None, v, p, f2[p])); }
    }
    assert forall|p: Seq<char>| f1.contains_key(p) implies f1[p] == f2[p] by {
        assert(den(None, v, p, f1[p]) && den(None, v, p, f2[p]));
    }
    assert(f1 =~= f2);
}

// ---- merge_values -----------------------------------------------------------------------------------
/// the three clauses of merge_values' contract are the three cases of `merge`
pub proof fn lemma_merge_cases(b: JV, o: JV, r: JV)
    requires
        (b is Object && o is Object) ==> r == merge(b, o),
        (b is Array && o is Array) ==> r == JV::Array(append_new(b->Array_0, o->Array_0)),
        !(b is Object && o is Object) && !(b is Array && o is Array) ==> r == o,
    ensures r == merge(b, o)
{
}

pub proof fn lemma_take_push_set(ks: Seq<Seq<char>>, n: int)
    requires 0 <= n < ks.len()
    ensures ks.take(n + 1).to_set() == ks.take(n).to_set().insert(ks[n])
{
    let k = ks[n];
    assert(ks.take(n + 1) =~= ks.take(n).push(k));
    assert forall|x: Seq<char>| ks.take(n + 1).contains(x) == (ks.take(n).contains(x) || x == k) by {
        if ks.take(n).contains(x) {
            let j = choose|j: int| 0 <= j < ks.take(n).len() && ks.take(n)[j] == x;
            assert(ks.take(n + 1)[j] == x);
        }
        if x == k { assert(ks.take(n + 1)[n] == x); }
    }
    ks.take(n + 1).to_set_ensures();
    ks.take(n).to_set_ensures();
    assert forall|x: Seq<char>| ks.take(n + 1).to_set().contains(x) == ks.take(n).to_set().insert(k).contains(x) by {
        assert(ks.take(n + 1).contains(x) == (ks.take(n).contains(x) || x == k));
    }
    assert(ks.take(n + 1).to_set() =~= ks.take(n).to_set().insert(k));
}

pub proof fn lemma_merge_step(bm: Map<Seq<char>, JV>, om: Map<Seq<char>, JV>, ks: Seq<Seq<char>>, vs: Seq<JV>, n: int,
                              cur: Map<Seq<char>, JV>)
    requires lists_entries(ks, vs, om), 0 <= n < ks.len(), cur == merged_upto(bm, om, ks, n)
    ensures
        cur.contains_key(ks[n]) == bm.contains_key(ks[n]),
        bm.contains_key(ks[n]) ==> cur[ks[n]] == bm[ks[n]],
        cur.insert(ks[n], member_merged(bm, om, ks[n])) == merged_upto(bm, om, ks, n + 1),
        n + 1 == ks.len() ==> JV::Object(merged_upto(bm, om, ks, n + 1)) == merge(JV::Object(bm), JV::Object(om)),
{
    let k = ks[n];
    assert(!ks.take(n).to_set().contains(k)) by {
        if ks.take(n).contains(k) {
            let j = choose|j: int| 0 <= j < ks.take(n).len() && ks.take(n)[j] == k;
            assert(ks[j] == ks[n]);
        }
    }
    lemma_take_push_set(ks, n);
    assert(cur.insert(k, member_merged(bm, om, k)) =~= merged_upto(bm, om, ks, n + 1));
    if n + 1 == ks.len() {
        lemma_merge_all(bm, om, ks, vs);
    }
}

pub proof fn lemma_merge_all(bm: Map<Seq<char>, JV>, om: Map<Seq<char>, JV>, ks: Seq<Seq<char>>, vs: Seq<JV>)
    requires lists_entries(ks, vs, om)
    ensures JV::Object(merged_upto(bm, om, ks, ks.len() as int)) == merge(JV::Object(bm), JV::Object(om))
{
    assert(ks.take(ks.len() as int) =~= ks);
    assert(ks.to_set() =~= om.dom());
    let m1 = merged_upto(bm, om, ks, ks.len() as int);
    let m2 = merge(JV::Object(bm), JV::Object(om))->Object_0;
    assert(m1 =~= m2);
}

pub proof fn lemma_merge_step_q(bm: Map<Seq<char>, JV>, om: Map<Seq<char>, JV>, n: int, k: Seq<char>, cur: Map<Seq<char>, JV>)
    ensures
        forall|ks: Seq<Seq<char>>, vs: Seq<JV>| #![trigger lists_entries(ks, vs, om), merged_upto(bm, om, ks, n)]
            lists_entries(ks, vs, om) && 0 <= n < ks.len() && ks[n] == k && cur == merged_upto(bm, om, ks, n)
            ==> cur.contains_key(k) == bm.contains_key(k)
                && (bm.contains_key(k) ==> cur[k] == bm[k])
                && cur.insert(k, member_merged(bm, om, k)) == merged_upto(bm, om, ks, n + 1)
                && (n + 1 == ks.len() ==> JV::Object(merged_upto(bm, om, ks, n + 1)) == merge(JV::Object(bm), JV::Object(om))),
{
    assert forall|ks: Seq<Seq<char>>, vs: Seq<JV>| #![trigger lists_entries(ks, vs, om), merged_upto(bm, om, ks, n)]
        lists_entries(ks, vs, om) && 0 <= n < ks.len() && ks[n] == k && cur == merged_upto(bm, om, ks, n)
        implies cur.contains_key(k) == bm.contains_key(k)
            && (bm.contains_key(k) ==> cur[k] == bm[k])
            && cur.insert(k, member_merged(bm, om, k)) == merged_upto(bm, om, ks, n + 1)
            && (n + 1 == ks.len() ==> JV::Object(merged_upto(bm, om, ks, n + 1)) == merge(JV::Object(bm), JV::Object(om))) by {
        lemma_merge_step(bm, om, ks, vs, n, cur);
    }
}

/// before the first member: nothing laid over yet
pub proof fn lemma_merge_init(bm: Map<Seq<char>, JV>, om: Map<Seq<char>, JV>)
    ensures
        forall|ks: Seq<Seq<char>>, vs: Seq<JV>| #[trigger] lists_entries(ks, vs, om) ==>
            bm == merged_upto(bm, om, ks, 0)
            && (ks.len() == 0 ==> JV::Object(bm) == merge(JV::Object(bm), JV::Object(om))),
{
    assert forall|ks: Seq<Seq<char>>, vs: Seq<JV>| #[trigger] lists_entries(ks, vs, om) implies
        bm == merged_upto(bm, om, ks, 0)
        && (ks.len() == 0 ==> JV::Object(bm) == merge(JV::Object(bm), JV::Object(om))) by {
        assert(ks.take(0) =~= Seq::<Seq<char>>::empty());
        assert(bm =~= merged_upto(bm, om, ks, 0));
        if ks.len() == 0 { lemma_merge_all(bm, om, ks, vs); }
    }
}

pub proof fn lemma_jv_array(a: Vec<Value>)
    ensures jv(Value::Array(a)) == JV::Array(jvs(a@))
{
    assert(jv(Value::Array(a))->Array_0 =~= jvs(a@));
}

/// one element of the later array handled
pub proof fn lemma_append_step(cur: Seq<JV>, over: Seq<JV>, i: int)
    requires 0 <= i < over.len()
    ensures append_new(cur, over.skip(i)) == append_new(if cur.contains(over[i]) { cur } else { cur.push(over[i]) }, over.skip(i + 1))
{
    assert(over.skip(i)[0] == over[i]);
    assert(over.skip(i).drop_first() =~= over.skip(i + 1));
}

pub proof fn lemma_push_to_set(s: Seq<JV>, x: JV)
    ensures s.push(x).to_set() == s.to_set().insert(x)
{
    s.to_set_ensures();
    s.push(x).to_set_ensures();
    assert forall|y: JV| s.push(x).contains(y) == (s.contains(y) || y == x) by {
        if s.contains(y) {
            let j = choose|j: int| 0 <= j < s.len() && s[j] == y;
            assert(s.push(x)[j] == y);
        }
        if y == x { assert(s.push(x)[s.len() as int] == x); }
    }
    assert(s.push(x).to_set() =~= s.to_set().insert(x));
}

// ---- later files over earlier files -------------------------------------------------------------------
pub proof fn lemma_paths_ok(v: JV, f: Map<Seq<char>, JV>)
    requires settings_of(f, None, v), flat_wf(f)
    ensures settings_of(paths(v), None, v), flat_wf(paths(v)), unambiguous(v) ==> f == paths(v)
{
    if unambiguous(v) { lemma_settings_unique(f, paths(v), v); }
}

pub proof fn lemma_under_lw2(a: Map<Seq<char>, JV>, n: Map<Seq<char>, JV>, q: Seq<Seq<char>>)
    ensures
        under(lw2(a, n), q) == (under(a, q) || under(n, q)),
        interior(lw2(a, n), q) == (interior(a, q) || interior(n, q)),
{
    let l = lw2(a, n);
    if under(a, q) { let k = choose|k: Seq<char>| a.contains_key(k) && #[trigger] is_prefix(q, segs(k)); assert(l.contains_key(k) && is_prefix(q, segs(k))); }
    if under(n, q) { let k = choose|k: Seq<char>| n.contains_key(k) && #[trigger] is_prefix(q, segs(k)); assert(l.contains_key(k) && is_prefix(q, segs(k))); }
    if under(l, q) {
        let k = choose|k: Seq<char>| l.contains_key(k) && #[trigger] is_prefix(q, segs(k));
        if a.contains_key(k) { assert(a.contains_key(k) && is_prefix(q, segs(k))); } else { assert(n.contains_key(k) && is_prefix(q, segs(k))); }
    }
    if interior(a, q) { let k = choose|k: Seq<char>| a.contains_key(k) && #[trigger] proper_prefix(q, segs(k)); assert(l.contains_key(k) && proper_prefix(q, segs(k))); }
    if interior(n, q) { let k = choose|k: Seq<char>| n.contains_key(k) && #[trigger] proper_prefix(q, segs(k)); assert(l.contains_key(k) && proper_prefix(q, segs(k))); }
    if interior(l, q) {
        let k = choose|k: Seq<char>| l.contains_key(k) && #[trigger] proper_prefix(q, segs(k));
        if a.contains_key(k) { assert(a.contains_key(k) && proper_prefix(q, segs(k))); } else { assert(n.contains_key(k) && proper_prefix(q, segs(k))); }
    }
}

/// a non-empty segment path that leads towards a setting is the split of its own dotted spelling
pub proof fn lemma_prefix_join(q: Seq<Seq<char>>, k: Seq<char>)
    requires is_prefix(q, segs(k)), q.len() >= 1
    ensures segs(join_dot(q)) == q
{
    lemma_segs_is_split(k);
    assert forall|i: int| 0 <= i < q.len() implies dotfree(#[trigger] q[i]) by {
        assert(segs(k).subrange(0, q.len() as int)[i] == segs(k)[i]);
    }
    lemma_split_unique(q, join_dot(q));
}

pub proof fn lemma_under_shorter(f: Map<Seq<char>, JV>, q: Seq<Seq<char>>, h: Seq<char>)
    requires under(f, q.push(h))
    ensures under(f, q), interior(f, q)
{
    let k = choose|k: Seq<char>| f.contains_key(k) && #[trigger] is_prefix(q.push(h), segs(k));
    lemma_prefix_push(q, h, segs(k));
    assert(f.contains_key(k) && is_prefix(q, segs(k)));
    assert(f.contains_key(k) && proper_prefix(q, segs(k)));
}

/// a key whose dotted spelling is that of the segment path q.push(h), which leads towards a setting of g, lies at q.push(h)
pub proof fn lemma_key_at(f: Map<Seq<char>, JV>, g: Map<Seq<char>, JV>, q: Seq<Seq<char>>, h: Seq<char>)
    requires under(g, q.push(h)), f.contains_key(join_dot(q.push(h)))
    ensures under(f, q.push(h)), segs(join_dot(q.push(h))) == q.push(h)
{
    let k = choose|k: Seq<char>| g.contains_key(k) && #[trigger] is_prefix(q.push(h), segs(k));
    lemma_prefix_join(q.push(h), k);
    let p = join_dot(q.push(h));
    assert(segs(p).subrange(0, q.push(h).len() as int) =~= segs(p));
    assert(f.contains_key(p) && is_prefix(q.push(h), segs(p)));
}

pub proof fn lemma_tree_frame_lw2_left(t: JV, a: Map<Seq<char>, JV>, n: Map<Seq<char>, JV>, q: Seq<Seq<char>>)
    requires tree_ok(t, a, q), !under(n, q)
    ensures tree_ok(t, lw2(a, n), q)
    decreases t
{
    let l = lw2(a, n);
    let m = t->Object_0;
    assert forall|h: Seq<char>| under(l, q.push(h)) == under(a, q.push(h)) && interior(l, q.push(h)) == interior(a, q.push(h)) && !under(n, q.push(h)) by {
        lemma_under_lw2(a, n, q.push(h));
        if under(n, q.push(h)) { lemma_under_shorter(n, q, h); }
        if interior(n, q.push(h)) {
            let k = choose|k: Seq<char>| n.contains_key(k) && #[trigger] proper_prefix(q.push(h), segs(k));
            assert(n.contains_key(k) && is_prefix(q.push(h), segs(k)));
        }
    }
    assert forall|h: Seq<char>| #[trigger] m.contains_key(h) implies
        (if interior(l, q.push(h)) { tree_ok(m[h], l, q.push(h)) }
         else { l.contains_key(join_dot(q.push(h))) && m[h] == l[join_dot(q.push(h))] }) by {
        if interior(a, q.push(h)) {
            lemma_child_smaller(t, h);
            lemma_tree_frame_lw2_left(m[h], a, n, q.push(h));
        } else {
            if n.contains_key(join_dot(q.push(h))) { lemma_key_at(n, a, q, h); }
        }
    }
}

pub proof fn lemma_tree_frame_lw2_right(t: JV, a: Map<Seq<char>, JV>, n: Map<Seq<char>, JV>, q: Seq<Seq<char>>)
    requires tree_ok(t, n, q), !under(a, q)
    ensures tree_ok(t, lw2(a, n), q)
    decreases t
{
    let l = lw2(a, n);
    let m = t->Object_0;
    assert forall|h: Seq<char>| under(l, q.push(h)) == under(n, q.push(h)) && interior(l, q.push(h)) == interior(n, q.push(h)) && !under(a, q.push(h)) by {
        lemma_under_lw2(a, n, q.push(h));
        if under(a, q.push(h)) { lemma_under_shorter(a, q, h); }
        if interior(a, q.push(h)) {
            let k = choose|k: Seq<char>| a.contains_key(k) && #[trigger] proper_prefix(q.push(h), segs(k));
            assert(a.contains_key(k) && is_prefix(q.push(h), segs(k)));
        }
    }
    assert forall|h: Seq<char>| #[trigger] m.contains_key(h) implies
        (if interior(l, q.push(h)) { tree_ok(m[h], l, q.push(h)) }
         else { l.contains_key(join_dot(q.push(h))) && m[h] == l[join_dot(q.push(h))] }) by {
        if interior(n, q.push(h)) {
            lemma_child_smaller(t, h);
            lemma_tree_frame_lw2_right(m[h], a, n, q.push(h));
        } else {
            if a.contains_key(join_dot(q.push(h))) { lemma_key_at(a, n, q, h); }
        }
    }
}

/// a leaf member at q.push(h) and settings strictly below q.push(h) in the other map are a shape conflict
pub proof fn lemma_shape_conflict(a: Map<Seq<char>, JV>, n: Map<Seq<char>, JV>, q: Seq<Seq<char>>, h: Seq<char>)
    requires compat(a, n), interior(a, q.push(h)), under(n, q.push(h)), n.contains_key(join_dot(q.push(h)))
    ensures false
{
    lemma_key_at(n, n, q, h);
    let p = join_dot(q.push(h));
    let k = choose|k: Seq<char>| a.contains_key(k) && #[trigger] proper_prefix(q.push(h), segs(k));
    assert(a.contains_key(k) && n.contains_key(p));
    assert(proper_prefix(segs(p), segs(k)));
}

pub proof fn lemma_shape_conflict2(a: Map<Seq<char>, JV>, n: Map<Seq<char>, JV>, q: Seq<Seq<char>>, h: Seq<char>)
    requires compat(a, n), interior(n, q.push(h)), under(a, q.push(h)), a.contains_key(join_dot(q.push(h)))
    ensures false
{
    lemma_key_at(a, a, q, h);
    let p = join_dot(q.push(h));
    let k = choose|k: Seq<char>| n.contains_key(k) && #[trigger] proper_prefix(q.push(h), segs(k));
    assert(a.contains_key(p) && n.contains_key(k));
    assert(proper_prefix(segs(p), segs(k)));
}

/// merging the nested forms of two shape-compatible sets of settings gives the nested form of "later wins"
pub proof fn lemma_tree_merge(at: JV, a: Map<Seq<char>, JV>, nt: JV, n: Map<Seq<char>, JV>, q: Seq<Seq<char>>)
    requires tree_ok(at, a, q), tree_ok(nt, n, q), flat_wf(a), flat_wf(n), compat(a, n)
    ensures tree_ok(merge(at, nt), lw2(a, n), q)
    decreases nt
{
    let l = lw2(a, n);
    let am = at->Object_0;
    let nm = nt->Object_0;
    let mm = merge(at, nt)->Object_0;
    assert(merge(at, nt) == JV::Object(mm));
    assert forall|h: Seq<char>| #[trigger] mm.contains_key(h) <==> under(l, q.push(h)) by {
        lemma_under_lw2(a, n, q.push(h));
        assert(mm.contains_key(h) == (am.contains_key(h) || nm.contains_key(h)));
    }
    assert forall|h: Seq<char>| #[trigger] mm.contains_key(h) implies
        (if interior(l, q.push(h)) { tree_ok(mm[h], l, q.push(h)) }
         else { l.contains_key(join_dot(q.push(h))) && mm[h] == l[join_dot(q.push(h))] }) by {
        let qh = q.push(h);
        let p = join_dot(qh);
        lemma_under_lw2(a, n, qh);
        if nm.contains_key(h) && am.contains_key(h) {
            assert(mm[h] == merge(am[h], nm[h]));
            if interior(a, qh) && interior(n, qh) {
                lemma_child_smaller(nt, h);
                lemma_tree_merge(am[h], a, nm[h], n, qh);
            } else if !interior(a, qh) && !interior(n, qh) {
                assert(l[p] == merge(a[p], n[p]));
            } else if interior(a, qh) {
                lemma_shape_conflict(a, n, q, h);
            } else {
                lemma_shape_conflict2(a, n, q, h);
            }
        } else if am.contains_key(h) {
            assert(mm[h] == am[h]);
            assert(!under(n, qh));
            if interior(n, qh) {
                let k = choose|k: Seq<char>| n.contains_key(k) && #[trigger] proper_prefix(qh, segs(k));
                assert(n.contains_key(k) && is_prefix(qh, segs(k)));
            }
            if interior(a, qh) { lemma_tree_frame_lw2_left(am[h], a, n, qh); }
            else { if n.contains_key(p) { lemma_key_at(n, a, q, h); } }
        } else {
            assert(mm[h] == nm[h]);
            assert(!under(a, qh));
            if interior(a, qh) {
                let k = choose|k: Seq<char>| a.contains_key(k) && #[trigger] proper_prefix(qh, segs(k));
                assert(a.contains_key(k) && is_prefix(qh, segs(k)));
            }
            if interior(n, qh) { lemma_tree_frame_lw2_right(nm[h], a, n, qh); }
            else { if a.contains_key(p) { lemma_key_at(a, n, q, h); } }
        }
    }
}

pub proof fn lemma_merge_leaf(b: JV, o: JV)
    requires !(o is Object)
    ensures !(merge(b, o) is Object)
{
}

pub proof fn lemma_lw2_flat_wf(a: Map<Seq<char>, JV>, n: Map<Seq<char>, JV>)
    requires flat_wf(a), flat_wf(n)
    ensures flat_wf(lw2(a, n))
{
    assert forall|k: Seq<char>| #[trigger] lw2(a, n).contains_key(k) implies !(lw2(a, n)[k] is Object) by {
        if n.contains_key(k) && a.contains_key(k) { lemma_merge_leaf(a[k], n[k]); }
    }
}

pub proof fn lemma_lw_dom(files: Seq<Map<Seq<char>, JV>>, k: Seq<char>)
    requires later_wins(files).contains_key(k)
    ensures exists|j: int| 0 <= j < files.len() && #[trigger] files[j].contains_key(k)
    decreases files.len()
{
    if files.len() > 0 {
        if files.last().contains_key(k) {
            assert(files[files.len() - 1].contains_key(k));
        } else {
            lemma_lw_dom(files.drop_last(), k);
            let j = choose|j: int| 0 <= j < files.drop_last().len() && #[trigger] files.drop_last()[j].contains_key(k);
            assert(files[j].contains_key(k));
        }
    }
}

pub proof fn lemma_lw_compat(files: Seq<Map<Seq<char>, JV>>, nf: Map<Seq<char>, JV>)
    requires forall|j: int| 0 <= j < files.len() ==> compat(#[trigger] files[j], nf)
    ensures compat(later_wins(files), nf)
{
    let l = later_wins(files);
    assert forall|ka: Seq<char>, kn: Seq<char>| #[trigger] l.contains_key(ka) && #[trigger] nf.contains_key(kn)
        implies !proper_prefix(segs(ka), segs(kn)) && !proper_prefix(segs(kn), segs(ka)) by {
        lemma_lw_dom(files, ka);
        let j = choose|j: int| 0 <= j < files.len() && #[trigger] files[j].contains_key(ka);
        assert(compat(files[j], nf));
    }
}

pub proof fn lemma_lw_compat_self(files: Seq<Map<Seq<char>, JV>>)
    requires forall|i: int, j: int| 0 <= i <= j < files.len() ==> compat(#[trigger] files[i], #[trigger] files[j])
    ensures compat(later_wins(files), later_wins(files))
{
    let l = later_wins(files);
    assert forall|ka: Seq<char>, kn: Seq<char>| #[trigger] l.contains_key(ka) && #[trigger] l.contains_key(kn)
        implies !proper_prefix(segs(ka), segs(kn)) && !proper_prefix(segs(kn), segs(ka)) by {
        lemma_lw_dom(files, ka);
        lemma_lw_dom(files, kn);
        let i = choose|j: int| 0 <= j < files.len() && #[trigger] files[j].contains_key(ka);
        let j = choose|j: int| 0 <= j < files.len() && #[trigger] files[j].contains_key(kn);
        if i <= j { assert(compat(files[i], files[j])); } else { assert(compat(files[j], files[i])); }
    }
}

pub proof fn lemma_lw_step(files: Seq<Map<Seq<char>, JV>>, i: int)
    requires 0 <= i < files.len()
    ensures later_wins(files.take(i + 1)) == lw2(later_wins(files.take(i)), files[i])
{
    assert(files.take(i + 1).drop_last() =~= files.take(i));
    assert(files.take(i + 1).last() == files[i]);
}

pub proof fn lemma_lw_single(f: Map<Seq<char>, JV>)
    ensures later_wins(seq![f]) == f
{
    assert(seq![f].drop_last() =~= Seq::<Map<Seq<char>, JV>>::empty());
    assert(later_wins(seq![f].drop_last()) == Map::<Seq<char>, JV>::empty());
    assert(lw2(Map::<Seq<char>, JV>::empty(), f) =~= f);
}

// ---- the nested form denotes exactly its settings (normalising twice changes nothing) ---------------------
pub proof fn lemma_pjoin_push(q: Seq<Seq<char>>, h: Seq<char>)
    ensures pjoin(qpre(q), h) == join_dot(q.push(h)), qpre(q.push(h)) == Some(join_dot(q.push(h)))
{
    if q.len() == 0 {
        assert(q.push(h)[0] == h);
    } else {
        assert(q.push(h).drop_last() =~= q);
        assert(q.push(h).last() == h);
    }
}

pub proof fn lemma_den_tree(t: JV, l: Map<Seq<char>, JV>, q: Seq<Seq<char>>, p: Seq<char>, leaf: JV)
    requires tree_ok(t, l, q), flat_wf(l), compat(l, l), q.len() == 0 || interior(l, q)
    ensures den(qpre(q), t, p, leaf) <==> (l.contains_key(p) && is_prefix(q, segs(p)) && l[p] == leaf)
    decreases t
{
    let m = t->Object_0;
    assert(t == JV::Object(m));
    if den(qpre(q), t, p, leaf) {
        assert(exists|k: Seq<char>| #[trigger] m.contains_key(k) && den(Some(pjoin(qpre(q), k)), m[k], p, leaf));
        let k = choose|k: Seq<char>| #[trigger] m.contains_key(k) && den(Some(pjoin(qpre(q), k)), m[k], p, leaf);
        lemma_pjoin_push(q, k);
        let pk = join_dot(q.push(k));
        assert(under(l, q.push(k)));
        if interior(l, q.push(k)) {
            lemma_child_smaller(t, k);
            lemma_den_tree(m[k], l, q.push(k), p, leaf);
            lemma_prefix_push(q, k, segs(p));
        } else {
            assert(m[k] == l[pk]);
            assert(p == pk && leaf == m[k]);
            lemma_key_at(l, l, q, k);
            assert(segs(p).subrange(0, q.push(k).len() as int) =~= segs(p));
            lemma_prefix_push(q, k, segs(p));
        }
    }
    if l.contains_key(p) && is_prefix(q, segs(p)) && l[p] == leaf {
        lemma_segs_is_split(p);
        if segs(p).len() == q.len() {
            assert(segs(p) =~= q);
            let k2 = choose|k2: Seq<char>| l.contains_key(k2) && #[trigger] proper_prefix(q, segs(k2));
            assert(l.contains_key(p) && l.contains_key(k2));
            assert(false);
        }
        let h = segs(p)[q.len() as int];
        lemma_prefix_ext(q, segs(p));
        assert(l.contains_key(p) && is_prefix(q.push(h), segs(p)));
        assert(m.contains_key(h));
        lemma_pjoin_push(q, h);
        let pk = join_dot(q.push(h));
        if interior(l, q.push(h)) {
            lemma_child_smaller(t, h);
            lemma_den_tree(m[h], l, q.push(h), p, leaf);
        } else {
            if segs(p).len() > q.len() + 1 { assert(l.contains_key(p) && proper_prefix(q.push(h), segs(p))); }
            assert(segs(p) =~= q.push(h));
            assert(p == pk);
        }
        lemma_den_intro(qpre(q), m, p, leaf, h);
    }
}

/// flattening the nested form of a (shape-consistent) set of settings gives back those settings
pub proof fn lemma_tree_settings(t: JV, l: Map<Seq<char>, JV>, f: Map<Seq<char>, JV>)
    requires tree_ok(t, l, Seq::empty()), flat_wf(l), compat(l, l), settings_of(f, None, t)
    ensures f == l
{
    let q = Seq::<Seq<char>>::empty();
    assert forall|p: Seq<char>| f.contains_key(p) == l.contains_key(p) by {
        if f.contains_key(p) { lemma_den_tree(t, l, q, p, f[p]); }
        if l.contains_key(p) {
            lemma_den_tree(t, l, q, p, l[p]);
            assert(segs(p).subrange(0, 0) =~= q);
        }
    }
    assert forall|p: Seq<char>| f.contains_key(p) implies f[p] == l[p] by {
        lemma_den_tree(t, l, q, p, f[p]);
    }
    assert(f =~= l);
}

// ---- the merging tail of load_configs_raw ---------------------------------------------------------------
pub proof fn lemma_tail_empty(cj: Seq<JV>)
    requires cj.len() == 0
    ensures tree_ok(JV::Object(Map::empty()), later_wins(paths_seq(cj)), Seq::empty())
{
    let l = later_wins(paths_seq(cj));
    assert(l == Map::<Seq<char>, JV>::empty());
    lemma_tree_empty(l, Seq::empty());
}

pub proof fn lemma_tail_init(cj: Seq<JV>)
    ensures
        tree_ok(JV::Object(Map::empty()), later_wins(paths_seq(cj).take(0)), Seq::empty()),
        flat_wf(later_wins(paths_seq(cj).take(0))),
{
    let l = later_wins(paths_seq(cj).take(0));
    assert(l == Map::<Seq<char>, JV>::empty());
    lemma_tree_empty(l, Seq::empty());
}

/// one more file: its nested form merged into the accumulator
pub proof fn lemma_tail_step(cj: Seq<JV>, idx: int, acc: JV)
    requires
        files_ok(cj), 0 <= idx < cj.len(),
        tree_ok(acc, later_wins(paths_seq(cj).take(idx)), Seq::empty()), flat_wf(later_wins(paths_seq(cj).take(idx))),
    ensures
        forall|f: Map<Seq<char>, JV>, nt: JV| #![trigger settings_of(f, None, cj[idx]), tree_ok(nt, f, Seq::empty())]
            settings_of(f, None, cj[idx]) && flat_wf(f) && tree_ok(nt, f, Seq::empty())
            ==> tree_ok(merge(acc, nt), later_wins(paths_seq(cj).take(idx + 1)), Seq::empty())
                && flat_wf(later_wins(paths_seq(cj).take(idx + 1)))
                && (idx + 1 == cj.len() ==> later_wins(paths_seq(cj).take(idx + 1)) == later_wins(paths_seq(cj))),
{
    let ps = paths_seq(cj);
    let a = later_wins(ps.take(idx));
    let v = cj[idx];
    assert forall|f: Map<Seq<char>, JV>, nt: JV| #![trigger settings_of(f, None, cj[idx]), tree_ok(nt, f, Seq::empty())]
        settings_of(f, None, cj[idx]) && flat_wf(f) && tree_ok(nt, f, Seq::empty())
        implies tree_ok(merge(acc, nt), later_wins(paths_seq(cj).take(idx + 1)), Seq::empty())
            && flat_wf(later_wins(paths_seq(cj).take(idx + 1)))
            && (idx + 1 == cj.len() ==> later_wins(paths_seq(cj).take(idx + 1)) == later_wins(paths_seq(cj))) by {
        lemma_paths_ok(v, f);
        assert(f == paths(v));
        assert(ps[idx] == paths(v));
        assert forall|j: int| 0 <= j < ps.take(idx).len() implies compat(#[trigger] ps.take(idx)[j], f) by {
            assert(ps.take(idx)[j] == paths(cj[j]));
            assert(compat(paths(cj[j]), paths(cj[idx])));
        }
        lemma_lw_compat(ps.take(idx), f);
        lemma_tree_merge(acc, a, nt, f, Seq::empty());
        lemma_lw_step(ps, idx);
        lemma_lw2_flat_wf(a, f);
        if idx + 1 == cj.len() { assert(ps.take(idx + 1) =~= ps); }
    }
}

/// a single file
pub proof fn lemma_tail_single(cj: Seq<JV>)
    requires cj.len() == 1, files_ok(cj)
    ensures
        forall|f: Map<Seq<char>, JV>, t: JV| #![trigger settings_of(f, None, cj[0]), tree_ok(t, f, Seq::empty())]
            settings_of(f, None, cj[0]) && flat_wf(f) && tree_ok(t, f, Seq::empty())
            ==> tree_ok(t, later_wins(paths_seq(cj)), Seq::empty()),
{
    assert forall|f: Map<Seq<char>, JV>, t: JV| #![trigger settings_of(f, None, cj[0]), tree_ok(t, f, Seq::empty())]
        settings_of(f, None, cj[0]) && flat_wf(f) && tree_ok(t, f, Seq::empty())
        implies tree_ok(t, later_wins(paths_seq(cj)), Seq::empty()) by {
        lemma_paths_ok(cj[0], f);
        assert(paths_seq(cj) =~= seq![f]);
        lemma_lw_single(f);
    }
}

/// the merged nested form, flattened and nested once more, is itself
pub proof fn lemma_tail_final(cj: Seq<JV>, t: JV)
    requires files_ok(cj), tree_ok(t, later_wins(paths_seq(cj)), Seq::empty()), flat_wf(later_wins(paths_seq(cj)))
    ensures
        forall|f: Map<Seq<char>, JV>, t2: JV| #![trigger settings_of(f, None, t), tree_ok(t2, f, Seq::empty())]
            settings_of(f, None, t) && flat_wf(f) && tree_ok(t2, f, Seq::empty()) ==> t2 == t,
{
    let ps = paths_seq(cj);
    let l = later_wins(ps);
    assert forall|i: int, j: int| 0 <= i <= j < ps.len() implies compat(#[trigger] ps[i], #[trigger] ps[j]) by {
        assert(compat(paths(cj[i]), paths(cj[j])));
    }
    lemma_lw_compat_self(ps);
    assert forall|f: Map<Seq<char>, JV>, t2: JV| #![trigger settings_of(f, None, t), tree_ok(t2, f, Seq::empty())]
        settings_of(f, None, t) && flat_wf(f) && tree_ok(t2, f, Seq::empty()) implies t2 == t by {
        lemma_tree_settings(t, l, f);
        lemma_tree_unique(t2, t, f, Seq::empty());
    }
}

// ---- the example of the property statement, for every key and value ("later-file-wins for two files with one scalar") -----
/// file 1 spells a setting flat (`{"a.b": x}`), file 2 spells it nested (`{"a": {"b": y}}`): both denote the one setting "a.b",
/// the two files are `files_ok`, "later wins" is {a.b -> y}, and its nested form is file 2. (Also shows that the hypotheses of
/// C32.later-file-wins are satisfiable.)
pub proof fn lemma_example_flat_then_nested(a: Seq<char>, b: Seq<char>, x: JV, y: JV)
    requires dotfree(a), dotfree(b), !(x is Object), !(y is Object), !(x is Array && y is Array)
    ensures ({
        let k = a + seq!['.'] + b;
        let v1 = JV::Object(Map::<Seq<char>, JV>::empty().insert(k, x));
        let v2 = JV::Object(Map::<Seq<char>, JV>::empty().insert(a, JV::Object(Map::<Seq<char>, JV>::empty().insert(b, y))));
        let files = seq![v1, v2];
        &&& paths(v1) == Map::<Seq<char>, JV>::empty().insert(k, x)
        &&& paths(v2) == Map::<Seq<char>, JV>::empty().insert(k, y)
        &&& files_ok(files)
        &&& later_wins(paths_seq(files)) == Map::<Seq<char>, JV>::empty().insert(k, y)
        &&& tree_ok(v2, later_wins(paths_seq(files)), Seq::empty())
    })
{
    let k = a + seq!['.'] + b;
    let e = Map::<Seq<char>, JV>::empty();
    let m1 = e.insert(k, x);
    let inner = e.insert(b, y);
    let m2 = e.insert(a, JV::Object(inner));
    let v1 = JV::Object(m1);
    let v2 = JV::Object(m2);
    let f1 = e.insert(k, x);
    let f2 = e.insert(k, y);
    // what the two files denote
    assert forall|p: Seq<char>, leaf: JV| den(None, v1, p, leaf) == (p == k && leaf == x) by {
        if den(None, v1, p, leaf) {
            let kk = choose|kk: Seq<char>| #[trigger] m1.contains_key(kk) && den(Some(pjoin(None, kk)), m1[kk], p, leaf);
            assert(kk == k);
        }
        if p == k && leaf == x {
            assert(den(Some(pjoin(None, k)), m1[k], p, leaf));
            lemma_den_intro(None, m1, p, leaf, k);
        }
    }
    assert forall|p: Seq<char>, leaf: JV| den(None, v2, p, leaf) == (p == k && leaf == y) by {
        assert(pjoin(Some(a), b) == k);
        if den(None, v2, p, leaf) {
            let kk = choose|kk: Seq<char>| #[trigger] m2.contains_key(kk) && den(Some(pjoin(None, kk)), m2[kk], p, leaf);
            assert(kk == a);
            assert(den(Some(a), JV::Object(inner), p, leaf));
            let k2 = choose|k2: Seq<char>| #[trigger] inner.contains_key(k2) && den(Some(pjoin(Some(a), k2)), inner[k2], p, leaf);
            assert(k2 == b);
        }
        if p == k && leaf == y {
            assert(den(Some(pjoin(Some(a), b)), inner[b], p, leaf));
            lemma_den_intro(Some(a), inner, p, leaf, b);
            assert(den(Some(pjoin(None, a)), m2[a], p, leaf));
            lemma_den_intro(None, m2, p, leaf, a);
        }
    }
    assert(settings_of(f1, None, v1) && flat_wf(f1));
    assert(settings_of(f2, None, v2) && flat_wf(f2));
    lemma_paths_ok(v1, f1);
    lemma_paths_ok(v2, f2);
    let files = seq![v1, v2];
    let ps = paths_seq(files);
    assert(ps =~= seq![f1, f2]);
    // shape: the only key is k
    assert(files_ok(files)) by {
        assert forall|i: int, j: int| 0 <= i <= j < files.len() implies compat(#[trigger] paths(files[i]), #[trigger] paths(files[j])) by {}
    }
    // later wins
    assert(ps.drop_last() =~= seq![f1]);
    lemma_lw_single(f1);
    assert(later_wins(ps) == lw2(f1, f2));
    assert(lw2(f1, f2) =~= f2);
    // its nested form
    let l = f2;
    let sk = seq![a, b];
    assert(sk.drop_last() =~= seq![a]);
    assert(join_dot(seq![a]) == a);
    assert(join_dot(sk) == k);
    lemma_split_unique(sk, k);
    let q0 = Seq::<Seq<char>>::empty();
    let qa = q0.push(a);
    assert(qa =~= seq![a]);
    assert(qa.push(b) =~= sk);
    assert forall|h: Seq<char>| under(l, q0.push(h)) == (h == a) by {
        if under(l, q0.push(h)) {
            let kk = choose|kk: Seq<char>| l.contains_key(kk) && #[trigger] is_prefix(q0.push(h), segs(kk));
            lemma_prefix_push(q0, h, segs(kk));
        }
        if h == a { assert(sk.subrange(0, 1) =~= q0.push(a)); assert(l.contains_key(k) && is_prefix(q0.push(a), segs(k))); }
    }
    assert(interior(l, qa)) by { assert(sk.subrange(0, 1) =~= qa); assert(l.contains_key(k) && proper_prefix(qa, segs(k))); }
    assert forall|h: Seq<char>| under(l, qa.push(h)) == (h == b) by {
        if under(l, qa.push(h)) {
            let kk = choose|kk: Seq<char>| l.contains_key(kk) && #[trigger] is_prefix(qa.push(h), segs(kk));
            lemma_prefix_push(qa, h, segs(kk));
        }
        if h == b { assert(sk.subrange(0, 2) =~= qa.push(b)); assert(l.contains_key(k) && is_prefix(qa.push(b), segs(k))); }
    }
    assert(!interior(l, qa.push(b))) by {
        if interior(l, qa.push(b)) {
            let kk = choose|kk: Seq<char>| l.contains_key(kk) && #[trigger] proper_prefix(qa.push(b), segs(kk));
        }
    }
    assert(tree_ok(JV::Object(inner), l, qa));
    assert(tree_ok(v2, l, q0));
}

/// C32 "a dotted flat key means exactly the same as the nested form", end to end: two files that denote the same settings
/// (whatever mixture of flat and nested spelling each uses) are loaded to the same configuration:
/// f_i = parse(v_i).config, t_i = to_emmyrc(parse(v_i)) by the contracts of `parse` and `to_emmyrc_json`.
pub proof fn lemma_same_meaning_same_result(v1: JV, v2: JV, f1: Map<Seq<char>, JV>, f2: Map<Seq<char>, JV>, t1: JV, t2: JV)
    requires
        forall|p: Seq<char>, leaf: JV| den(None, v1, p, leaf) == den(None, v2, p, leaf),
        unambiguous(v1),
        settings_of(f1, None, v1), settings_of(f2, None, v2),
        tree_ok(t1, f1, Seq::empty()), tree_ok(t2, f2, Seq::empty()),
    ensures t1 == t2
{
    assert(settings_of(f2, None, v1)) by {
        assert forall|p: Seq<char>| #[trigger] f2.contains_key(p) implies den(None, v1, p, f2[p]) by { assert(den(None, v2, p, f2[p])); }
        assert forall|p: Seq<char>, leaf: JV| #[trigger] den(None, v1, p, leaf) implies f2.contains_key(p) by { assert(den(None, v2, p, leaf)); }
    }
    lemma_settings_unique(f1, f2, v1);
    lemma_tree_unique(t1, t2, f1, Seq::empty());
}
