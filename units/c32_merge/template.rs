// unit c32_merge — C32 "configuration merging and key flattening" + C31 "loading never panics" for
// config_loader.rs (`merge_values`, the merging tail of `load_configs_raw`) and flatten_config/mod.rs
// (`FlattenConfigObject::parse`, `flatten_object`, `to_emmyrc_json`).
// serde_json::{Value, Map, Number} and hashbrown::HashMap<String, Value> are dependencies: shimmed below.
use vstd::prelude::*;
use vstd::std_specs::iter::{IteratorSpec, IteratorSpecImpl};
verus! {

//@@include c32_merge/json_shim.rs
//@@include c32_merge/spec.rs
//@@include c32_merge/lemmas.rs

//@@ FlattenConfigObject
impl FlattenConfigObject {
    //@@ FlattenConfigObject::parse
    //@@ FlattenConfigObject::to_emmyrc
}
//@@ flatten_object
//@@ to_emmyrc_json
//@@ merge_values
//@@ load_configs_raw::tail

}
fn main() {}
