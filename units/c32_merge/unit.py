import re
from vc import rules as R
from vc import rustlex as L

CFG = 'crates/emmylua_code_analysis/src/config/'
LOADER = CFG + 'config_loader.rs'
FLAT = CFG + 'flatten_config/mod.rs'


@R.rule('fold-loop')
def fold_loop(text, **_):
    """E.into_iter().fold(INIT, |mut A, I| { BODY })  ->
         { let mut __accum = INIT; for I in E { __accum = { let mut A = __accum; BODY }; } __accum }
    std definition of Iterator::fold ("let mut accum = init; while let Some(x) = self.next() { accum = f(accum, x); } accum"),
    with the closure call `f(accum, x)` replaced by the closure's body, its parameters `mut A` and `I` bound to the accumulator
    and to the element (`for I in E` is `IntoIterator::into_iter(E)` followed by that `next` loop). BODY is kept verbatim."""
    toks = L.code_tokens(text)
    for i, t in enumerate(toks):
        if L.tok_text(text, t) != 'fold' or L.tok_text(text, toks[i - 1]) != '.' or L.tok_text(text, toks[i + 1]) != '(':
            continue
        close = L.match_close(text, toks, i + 1)
        # receiver: IDENT . into_iter ( ) . fold
        if [L.tok_text(text, toks[j]) for j in range(i - 5, i)] != ['.', 'into_iter', '(', ')', '.'] or toks[i - 6][0] != 'ident':
            raise R.Undecided('fold-loop: receiver is not `IDENT.into_iter()`')
        recv = L.tok_text(text, toks[i - 6])
        # INIT , | mut A , I | { BODY }
        j = i + 2
        while L.tok_text(text, toks[j]) != '|':
            if L.tok_text(text, toks[j]) in ('(', '[', '{'):
                j = L.match_close(text, toks, j)
            j += 1
        if L.tok_text(text, toks[j - 1]) != ',':
            raise R.Undecided('fold-loop: no closure argument')
        init = text[toks[i + 2][1]:toks[j - 2][2]]
        head = [L.tok_text(text, toks[k]) for k in range(j, j + 6)]
        if head[0] != '|' or head[1] != 'mut' or head[3] != ',' or head[5] != '|' or L.tok_text(text, toks[j + 6]) != '{':
            raise R.Undecided('fold-loop: closure is not `|mut A, I| { .. }`')
        acc, item = head[2], head[4]
        bclose = L.match_close(text, toks, j + 6)
        if bclose + 1 != close:
            raise R.Undecided('fold-loop: text after the closure body')
        body = text[toks[j + 6][2]:toks[bclose][1]]
        new = '{ let mut __accum = %s; for %s in %s { __accum = { let mut %s = __accum;%s}; } __accum }' % (init, item, recv, acc, body)
        return text[:toks[i - 6][1]] + new + text[toks[close][2]:], 1
    return text, 0


@R.rule('extend-filter-loop')
def extend_filter_loop(text, **_):
    """V.extend(W.into_iter().filter(|x| P))  ->  for x in W { if P { V.push(x); } }
    std doc of `impl Extend<T> for Vec<T>` ("extends a collection with the contents of an iterator": every yielded element is pushed,
    in order) and of Iterator::filter (the predicate is called once per element, in order; exactly the elements for which it returns
    true are yielded). In the closure `x` is a `&T`, in the loop a `T`: the rule refuses (undecided) unless every use of `x` in P
    is the method call `x.clone()`, which auto-derefs to the same `T::clone` in both forms."""
    pat = re.compile(r'(\w+)\.extend\(\s*(\w+)\s*\.into_iter\(\)\s*\.filter\(\|(\w+)\| ([^;|]*?)\),?\s*\);', re.S)
    m = pat.search(text)
    if not m:
        return text, 0
    vec, src, x, pred = m.group(1), m.group(2), m.group(3), m.group(4).strip()
    uses = re.findall(r'\b%s\b(\.clone\(\))?' % re.escape(x), pred)
    if not uses or any(u == '' for u in uses):
        raise R.Undecided('extend-filter-loop: the predicate uses `%s` other than as `%s.clone()`' % (x, x))
    new = 'for %s in %s { if %s { %s.push(%s); } }' % (x, src, pred, vec, x)
    return text[:m.start()] + new + text[m.end():], 1


EXTRA_RULES = [
    ('fmt-join-dot', r'format!\("\{\}\.\{\}", (\w+), (\w+)\)', r'vx_join_dot(\1, \2)',
     'format!("{}.{}", A, B) (A, B strings) -> vx_join_dot(A, B), ensures r@ == A@ + "." + B@ (std::fmt: `{}` of a str/String writes its text)'),
    ('split-dot-collect', r"(\w+)\.split\('\.'\)\.collect\(\)", r'vx_split_dot(\1)',
     "S.split('.').collect() into Vec<&str> -> vx_split_dot(S); contract = std doc of str::split for a char pattern: at least one part, "
     "no part contains the separator, the parts joined by the separator give back S"),
    ('hashmap-ref-iter', r'for \((\w+), (\w+)\) in &([\w\.]+) \{', r'for (\1, \2) in \3.iter() {',
     'for (k, v) in &M { B } (M: HashMap) -> for (k, v) in M.iter() { B }: `impl IntoIterator for &HashMap` is '
     '`fn into_iter(self) -> Iter<K, V> { self.iter() }` (hashbrown, as std)'),
    ('for-map-into-iter', r'for \((\w+), (\w+)\) in (overlay_map) \{', r'for (\1, \2) in \3.into_iter() {',
     'for (k, v) in M { B } (M: serde_json::Map by value) -> for (k, v) in M.into_iter() { B }: Rust reference, `for` evaluates '
     'IntoIterator::into_iter(M); the call is only made explicit so that the shim of Map::into_iter carries the contract'),
    ('cloned-collect-set', r'(\w+)\.iter\(\)\.cloned\(\)\.collect\(\)', r'vx_cloned_set(\1)',
     'V.iter().cloned().collect() into a HashSet<Value> (V: Vec<Value>) -> vx_cloned_set(V): std doc of Iterator::cloned + FromIterator '
     'for HashSet: the set of (clones of) the elements of V'),
    ('to-owned-clone', r'\b(k)\.to_owned\(\)', r'\1.clone()',
     'K.to_owned() (K: &String) -> K.clone(): std blanket `impl<T: Clone> ToOwned for T { fn to_owned(&self) -> T { self.clone() } }`'),
    ('drop-log', r'log::(?:info|error)!\("[^"]*"\);', 'vx_log();',
     'log::info!("literal"); / log::error!("literal"); -> vx_log(); (logging a constant message reads nothing of the verified state)'),
]

FLATTEN_OBJECT = {
    'src': {'file': FLAT, 'kind': 'fn', 'name': 'flatten_object'},
    'rules': ['fmt-join-dot', 'to-owned-clone'],
    'attrs': '#[verifier::loop_isolation(false)]\n#[verifier::spinoff_prover]',
    'decreases': 'jv(*val)',
    'ensures': '''
            // exactly the settings that `val` denotes under `prefix` are added (a flat key and its nested spelling denote the same
            // setting: spec fn den), everything else in `config` is kept, every stored value is a leaf
            flatten_post(old(config)@, final(config)@, prefix.pfx(), jv(*val)) /*@C32.flat-equals-nested*/''',
    'body_first': 'let ghost c0 = config@;',
    'iter_names': {0: 'it'},
    'loops': {0: '''invariant
                    lists_entries(keys_of(it.seq()), vals_of(it.seq()), map@),
                    jv(*val) == JV::Object(map@),
                    flatten_inv(c0, config@, prefix.pfx(), map@, keys_of(it.seq()), it.index@) /*@C32.flat-equals-nested.inv*/,
                    it.index@ == it.seq().len() ==> flatten_post(c0, config@, prefix.pfx(), JV::Object(map@)) /*@C32.flat-equals-nested.inv*/,'''},
    'proof': [
        (r'for \(k, v\) in map\.iter\(\) \{', 'before', 'proof { lemma_flatten_empty(c0, prefix.pfx(), map@); }'),
        (r'let new_key = ', 'before', '''let ghost c1 = config@; let ghost n0 = it.index@;
                proof {
                    assert((k, v) == it.seq()[n0]);
                    assert(keys_of(it.seq())[n0] == k@ && vals_of(it.seq())[n0] == jv(*v));
                    assert(map@.contains_key(k@) && map@[k@] == jv(*v));
                    lemma_child_smaller(jv(*val), k@);
                }'''),
        (r'flatten_object\((?:Some\()?&new_key\)?, v, config\);', 'after', 'proof { lemma_flatten_q(c0, c1, config@, prefix.pfx(), map@, n0, k@); }'),
        (r'config\.insert\(', 'before', 'proof { reveal_strlit(""); assert(!(*val is Object)); assert(!(jv(*val) is Object)); }'),
        (r'config\.insert\([^;]*\);', 'after', '''proof {
                let v = jv(*val); let pre = prefix.pfx();
                reveal_strlit("");
                assert(""@ =~= Seq::<char>::empty());
                assert(ptext(pre) =~= prefix.text());
                assert(config@.dom() =~= c0.dom().insert(prefix.text()));
                assert(config@ == c0.insert(ptext(pre), v));
                assert forall|p: Seq<char>, leaf: JV| den(pre, v, p, leaf) == (p == ptext(pre) && leaf == v) by {}
            }'''),
    ],
}

MERGE_VALUES = {
    'src': {'file': LOADER, 'kind': 'fn', 'name': 'merge_values'},
    'rules': ['for-map-into-iter', ('cloned-collect-set', {'optional': True}), 'extend-filter-loop'],
    'attrs': '#[verifier::loop_isolation(false)]\n#[verifier::spinoff_prover]',
    'decreases': 'jv(overlay)',
    'ensures': '''
            // two objects: member by member (recursively); two arrays: the later one's new elements appended; anything else: the later value
            (jv(*old(base)) is Object && jv(overlay) is Object) ==> jv(*final(base)) == merge(jv(*old(base)), jv(overlay)) /*@C32.merge.objects-memberwise*/,
            (jv(*old(base)) is Array && jv(overlay) is Array) ==>
                jv(*final(base)) == JV::Array(append_new(jv(*old(base))->Array_0, jv(overlay)->Array_0)) /*@C32.arrays-append-without-duplicates*/,
            !(jv(*old(base)) is Object && jv(overlay) is Object) && !(jv(*old(base)) is Array && jv(overlay) is Array) ==>
                jv(*final(base)) == jv(overlay) /*@C32.merge.later-value-wins*/''',
    'body_first': 'let ghost b0 = jv(*base); let ghost o0 = jv(overlay);',
    'iter_names': {0: 'it', 1: 'it2'},
    'loops': {
        0: '''invariant
                    lists_entries(okeys_of(it.seq()), ovals_of(it.seq()), om),
                    base_map@ == merged_upto(bm0, om, okeys_of(it.seq()), it.index@) /*@C32.merge.objects-memberwise.inv*/,
                    it.index@ == it.seq().len() ==> JV::Object(base_map@) == merge(JV::Object(bm0), JV::Object(om)) /*@C32.merge.objects-memberwise.inv*/,''',
        1: '''invariant
                    it2.seq() == oa,
                    seen@ == jvs(base_array@).to_set() /*@C32.arrays-append-without-duplicates.inv*/,
                    append_new(jvs(base_array@), jvs(oa).skip(it2.index@)) == append_new(ba0, jvs(oa)) /*@C32.arrays-append-without-duplicates.inv*/,
                    it2.index@ == it2.seq().len() ==> jvs(base_array@) == append_new(ba0, jvs(oa)) /*@C32.arrays-append-without-duplicates.inv*/,''',
    },
    'proof': [
        (r'for \(key, overlay_value\) in overlay_map\.into_iter\(\) \{', 'before',
         'let ghost om = overlay_map@; let ghost bm0 = base_map@; proof { lemma_merge_init(bm0, om); }'),
        (r'match base_map\.get_mut\(&key\) \{', 'before', '''let ghost n0 = it.index@; let ghost cur = base_map@; let ghost kk = key@; let ghost ov = jv(overlay_value);
                proof {
                    assert((key, overlay_value) == it.seq()[n0]);
                    assert(okeys_of(it.seq())[n0] == kk && ovals_of(it.seq())[n0] == ov);
                    assert(om.contains_key(kk) && om[kk] == ov);
                    lemma_child_smaller(o0, kk);
                    lemma_merge_step_q(bm0, om, n0, kk, cur);
                }'''),
        (r'merge_values\(base_value, overlay_value\);', 'after', 'proof { lemma_merge_cases(bm0[kk], ov, jv(*base_value)); }'),
        (r'let mut seen', 'before', '''let ghost oa = overlay_array@; let ghost ba0 = jvs(base_array@);
            proof { lemma_jv_array(*base_array); lemma_jv_array(overlay_array); assert(b0 == JV::Array(ba0)); assert(o0 == JV::Array(jvs(oa)));
                assert(jvs(oa).skip(0) =~= jvs(oa)); if oa.len() == 0 { assert(jvs(oa) =~= Seq::<JV>::empty()); } }'''),
        (r'if [^{}]*seen\.insert\(item\.clone\(\)\)[^{}]*\{', 'before', '''let ghost idx = it2.index@; let ghost x = jv(item); let ghost cur = jvs(base_array@);
                proof { assert(item == oa[idx]); assert(jvs(oa)[idx] == x); lemma_append_step(cur, jvs(oa), idx); cur.to_set_ensures(); }'''),
        (r'base_array\.push\(item\);\s*\}', 'after', '''proof {
                    let now = jvs(base_array@);
                    if cur.contains(x) { assert(now =~= cur); assert(seen@ =~= cur.to_set()); } /*@C32.arrays-append-without-duplicates.step*/
                    else { assert(now =~= cur.push(x)); lemma_push_to_set(cur, x); } /*@C32.arrays-append-without-duplicates.step*/
                    if idx + 1 == oa.len() { assert(jvs(oa).skip(idx + 1) =~= Seq::<JV>::empty()); }
                }'''),
        (r'base_array\.push\(item\);\s*\}\s*\}', 'after', 'proof { lemma_jv_array(*base_array); }'),
    ],
}

TO_EMMYRC_JSON = {
    'src': {'file': FLAT, 'kind': 'fn', 'name': 'to_emmyrc_json'},
    'rules': ['split-dot-collect', 'hashmap-ref-iter'],
    'attrs': '#[verifier::loop_isolation(false)]\n#[verifier::spinoff_prover]',
    'ret': 'r',
    'ensures': '''
            // (no `requires`: the two `expect("always an object")` are unreachable for EVERY map, incl. keys that are both a value and a
            // prefix, empty keys, keys of only dots)
            r is Object /*@C31.flatten.result-is-object*/,
            // the result is the nested form of the flat map: a function of the map alone (lemma_tree_unique), whatever order the
            // hash map yields its entries in
            flat_wf(config.config@) ==> tree_ok(jv(r), config.config@, Seq::empty()) /*@C32.flatten.order-independent*/,
            // ... and nothing else is: any two runs (any two iteration orders) return the same value
            flat_wf(config.config@) ==> forall|t2: JV| tree_ok(t2, config.config@, Seq::empty()) ==> t2 == jv(r) /*@C32.flatten.result-determined-by-the-map*/''',
    'iter_names': {0: 'it'},
    'loops': {
        0: '''invariant
                lists_entries(keys_of(it.seq()), vals_of(it.seq()), config.config@),
                emmyrc is Object /*@C31.flatten.no-panic.outer*/,
                flat_wf(config.config@) ==> tree_ok(jv(emmyrc), done_part(config.config@, keys_of(it.seq()), it.index@), Seq::empty()) /*@C32.flatten.order-independent.inv*/,
                flat_wf(config.config@) && it.index@ == it.seq().len() ==> tree_ok(jv(emmyrc), config.config@, Seq::empty()),''',
        1: '''invariant
                    *current is Object /*@C31.flatten.no-panic*/,
                    (*final(current) is Object && jv(*final(current)) == ins(jv(*current), strs(keys@).skip(i as int), jv(*v)))
                        ==> (e_fin is Object && jv(e_fin) == ins(t0, strs(keys@), jv(*v))) /*@C32.flatten.cursor.inv*/,''',
    },
    'proof': [
        (r'for \(k, v\) in config\.config\.iter\(\) \{', 'before', 'proof { lemma_outer_init(config.config@); }'),
        (r'let mut current = &mut emmyrc;', 'before', 'let ghost t0 = jv(emmyrc); let ghost n0 = it.index@;'),
        (r'let mut current = &mut emmyrc;', 'after', '''let ghost e_fin = *final(current);
        proof { assert(strs(keys@).skip(0) =~= strs(keys@)); }'''),
        (r'let key = keys\[i\];', 'after', '''let ghost cur0 = jv(*current); let ghost rest = strs(keys@).skip(i as int);
            proof { assert(rest[0] == key@); assert(rest.drop_first() =~= strs(keys@).skip(i + 1)); assert(rest.len() == keys@.len() - i); }'''),
        (r'current = slot;\s*\}\s*\}', 'after', '''proof {
            assert(emmyrc == e_fin);
            lemma_split_unique(strs(keys@), k@);
            lemma_outer_step_q(config.config@, n0, t0, k@, jv(*v));
        }'''),
        (r'emmyrc\s*\}\s*$', 'before', '''proof {
        if flat_wf(config.config@) {
            assert forall|t2: JV| tree_ok(t2, config.config@, Seq::empty()) implies t2 == jv(emmyrc) by {
                lemma_tree_unique(t2, jv(emmyrc), config.config@, Seq::empty());
            }
        }
    }'''),
    ],
}

TAIL = {
    'src': {'kind': 'slice', 'name': 'load_tail', 'in': {'file': LOADER, 'kind': 'fn', 'name': 'load_configs_raw'},
            'from': r'if config_jsons\.is_empty\(\) \{', 'to': r'\}(?=\s*\}\s*\Z)',
            'head': 'pub fn load_tail(config_jsons: Vec<Value>) -> Value', 'tail': ''},
    'rules': ['drop-log', 'fold-loop'],
    'attrs': '#[verifier::loop_isolation(false)]\n#[verifier::spinoff_prover]',
    'ret': 'r',
    'ensures': '''
            // every list of parsed files gives a configuration object (no `requires`)
            r is Object /*@C31.load.result-is-object*/,
            // for files that the property speaks about (files_ok), the result is the nested form of: every setting with the value of the
            // last file that sets it, whichever spelling each file uses; arrays: the later files' new elements appended
            files_ok(jvs(config_jsons@)) ==> tree_ok(jv(r), later_wins(paths_seq(jvs(config_jsons@))), Seq::empty()) /*@C32.later-file-wins*/''',
    'body_first': 'let ghost cj = config_jsons@; let ghost cjv = jvs(config_jsons@);',
    'iter_names': {0: 'it'},
    'loops': {0: '''invariant
                    it.seq() == cj,
                    files_ok(cjv) ==> tree_ok(jv(__accum), later_wins(paths_seq(cjv).take(it.index@)), Seq::empty())
                        && flat_wf(later_wins(paths_seq(cjv).take(it.index@))) /*@C32.later-file-wins.inv*/,
                    files_ok(cjv) && it.index@ == it.seq().len() ==> tree_ok(jv(__accum), later_wins(paths_seq(cjv)), Seq::empty())
                        && flat_wf(later_wins(paths_seq(cjv))) /*@C32.later-file-wins.inv*/,'''},
    'proof': [
        (r'vx_log\(\);\s*Value::Object\(Default::default\(\)\)\s*\} else if', 'before', 'proof { lemma_tail_empty(cjv); }'),
        (r'let flatten_config = FlattenConfigObject::parse\(first_config\);', 'before',
         'proof { assert(jv(first_config) == cjv[0]); if files_ok(cjv) { lemma_tail_single(cjv); } }'),
        (r'for item in config_jsons \{', 'before', 'proof { lemma_tail_init(cjv); if cj.len() == 0 { assert(paths_seq(cjv).take(0) =~= paths_seq(cjv)); } }'),
        (r'let mut acc = __accum;', 'before', '''let ghost idx = it.index@; let ghost a0 = jv(__accum);
                    proof { assert(item == cj[idx]); assert(jv(item) == cjv[idx]); if files_ok(cjv) { lemma_tail_step(cjv, idx, a0); } }'''),
        (r'let flatten_config = FlattenConfigObject::parse\(merge_config\.clone\(\)\);', 'after',
         'proof { if files_ok(cjv) { lemma_tail_final(cjv, jv(merge_config)); } }'),
    ],
}

UNIT = {
    'extra_rules': EXTRA_RULES,
    'items': {
        'FlattenConfigObject': {'src': {'file': FLAT, 'kind': 'struct', 'name': 'FlattenConfigObject'},
                                'rules': [('struct-fields', {})]},
        'FlattenConfigObject::parse': {
            'src': {'file': FLAT, 'kind': 'fn', 'impl': 'FlattenConfigObject', 'name': 'parse'},
            'ret': 'r',
            'ensures': '''
            // the flat map holds exactly the settings the file denotes (for an unambiguous file this determines it: lemma_settings_unique)
            settings_of(r.config@, None, jv(luals_json)) /*@C32.parse.settings-of-the-file*/,
            flat_wf(r.config@) /*@C32.parse.values-are-leaves*/''',
            'proof': [(r'flatten_object\(', 'before', 'proof { reveal_strlit(""); }')]},
        'FlattenConfigObject::to_emmyrc': {
            'src': {'file': FLAT, 'kind': 'fn', 'impl': 'FlattenConfigObject', 'name': 'to_emmyrc'},
            'ret': 'r',
            'ensures': '''
            r is Object /*@C31.flatten.result-is-object*/,
            flat_wf(self.config@) ==> tree_ok(jv(r), self.config@, Seq::empty()) /*@C32.flatten.order-independent*/'''},
        'flatten_object': FLATTEN_OBJECT,
        'to_emmyrc_json': TO_EMMYRC_JSON,
        'merge_values': MERGE_VALUES,
        'load_configs_raw::tail': TAIL,
    },
    'allow': [r'external_body', r'uninterp spec fn (view|je_key|je_old|je_fin|jiter_seq|jinto_seq|hmiter_seq)\b'],
    'min_obligations': 50,
    'trusted': [
        'serde_json::Value: the real enum (Null/Bool/Number/String/Array(Vec<Value>)/Object(Map<String, Value>)) with its meaning `jv` (spec datatype JV); '
        'serde_json::Number opaque; derived Clone of Value returns a value with the same meaning',
        'serde_json::Map<String, Value> (shim JsonMap, external_body, view Map<Seq<char>, JV>), each with its serde_json-documented contract: '
        'Default::default (empty), get, get_mut (&mut to the stored value; what it holds at the end of the borrow is stored; rest untouched), '
        'insert, entry + Entry::or_insert (ghost model je_key/je_old/je_fin of the borrow, je_fin a prophecy like final()), '
        'iter and into_iter (every entry exactly once; the ORDER is left unspecified although the BTreeMap-backed map iterates in key order: '
        'nothing proved depends on it), Value::is_object, Value::as_object_mut',
        'hashbrown::HashMap<String, Value> (shim HashMap, external_body, view Map<Seq<char>, JV>): new, insert, iter (every entry exactly once, '
        'arbitrary order); String keys are compared by content',
        'std::collections::HashSet<Value> (shim HashSet, external_body, view Set<JV>): new, insert ("returns whether the value was newly '
        'inserted"); Eq/Hash of serde_json::Value are structural, i.e. two values are equal for the set iff they have the same meaning '
        '(Number: equality of the opaque number)',
        'the three iterator shims implement vstd IteratorSpecImpl with obeys_prophetic_iter_laws = true: `next` yields the elements of '
        '`remaining` in order and then None (vstd contract of Iterator::next, assumed for the external_body `next`)',
        'vx_join_dot (format!("{}.{}", a, b) of two strings = a + "." + b), vx_split_dot (str::split(\'.\').collect(): at least one part, '
        'no part contains \'.\', parts joined by \'.\' give back the string), vx_cloned_set (v.iter().cloned().collect() = set of the '
        'elements; used only by the repaired merge_values), vx_log (log::info!/error! of a literal has no effect)',
        'rewrite rules of this unit (documented in unit.py): fold-loop, extend-filter-loop, for-map-into-iter, hashmap-ref-iter, '
        'fmt-join-dot, split-dot-collect, to-owned-clone, cloned-collect-set, drop-log; catalogue rule is-some-and',
        'vstd specs of String::clone, str::is_empty, str::to_string, Option::{expect, unwrap_or, unwrap_or_else}, Vec::{push, len, '
        'is_empty, index, into_iter}, Vec IntoIter::next',
        'the slice load_configs_raw::tail is wrapped as `fn load_tail(config_jsons: Vec<Value>) -> Value` (its only free variable)',
        'PrefixArg::pfx: how flatten_object reads its `prefix` parameter ("" = top level of the file for a `&str` prefix, None for an '
        '`Option<&str>` prefix): this is the contract the call in `parse` needs; the defect is that the recursive calls do not respect it',
    ],
    'not_covered': [
        'the reading half of load_configs_raw (read_file_with_encoding, serde_json::from_str, load_lua_config, the partial_emmyrcs loop) and '
        'load_configs (serde_json::from_value into Emmyrc, default on error): not under contract; C31 for malformed file CONTENT rests on '
        'the bounded replay /verif/replay/c31 only',
        'C32.later-file-wins is stated for files_ok lists: every file unambiguous (no setting spelled twice with different values inside one '
        'file) and no setting strictly below another one (`"a": 1` here, `"a.b": 2` there; the property does not say which shape wins). '
        'For other inputs only no-panic, the array clause, the order-independence of to_emmyrc_json and the contract of parse are proved; '
        'in particular which of two spellings inside ONE file is kept is not specified (deterministic in reality: key order of the BTreeMap)',
        'a top-level value that is not an object (`5`, `[]`) is treated as the single setting with the empty path (what the code does); '
        'Lua configs: only their serde_json::Value',
    ],
    'samples': [
        'to_emmyrc_json: for every flat map, `r is Object` and no `expect` fires; if all values are leaves, tree_ok(r, map, []) - and '
        'lemma_tree_unique: that determines r, whatever order the hash map iterates in',
        'flatten_object / parse: the flat map holds exactly the (dotted path -> leaf) pairs the JSON value denotes, where a key of an object '
        'at any depth extends the path by "." + key (den); lemma_same_meaning_same_result: same meaning => same configuration',
        'merge_values: Object x Object -> memberwise merge (recursively); Array x Array -> base ++ (elements of the later array not yet '
        'present, in order); otherwise the later value',
        'load_tail: files_ok(files) ==> tree_ok(result, later_wins(paths of the files), []); lemma_example_flat_then_nested: '
        '[{"a.b": x}, {"a": {"b": y}}] loads to {"a": {"b": y}}',
    ],
    'mutants': [
        {'name': 'no-slot-repair', 'item': 'to_emmyrc_json',
         'pattern': r'if !slot\.is_object\(\) \{\s*\*slot = Value::Object\(Default::default\(\)\);\s*\}', 'repl': '',
         'expect': r'C31\.flatten\.no-panic'},
        {'name': 'leaf-overwrites-object', 'item': 'to_emmyrc_json',
         'pattern': r'!map\.get\(key\)\.is_some_and\(\|old\| old\.is_object\(\)\)', 'repl': 'true',
         'expect': r'C32\.flatten\.(order-independent|cursor)'},
        {'name': 'arrays-overwritten', 'item': 'merge_values',
         'pattern': r'base_array\.extend\(', 'repl': 'base_array.clear(); base_array.extend(',
         'expect': r'C32\.arrays-append-without-duplicates'},
        {'name': 'arrays-no-dedup', 'item': 'merge_values',
         'pattern': r'seen\.insert\(item\.clone\(\)\)', 'repl': '(seen.insert(item.clone()), true).1',
         'expect': r'C32\.arrays-append-without-duplicates'},
        {'name': 'object-new-member-dropped', 'item': 'merge_values',
         'pattern': r'base_map\.insert\(key, overlay_value\);', 'repl': '',
         'expect': r'C32\.merge\.objects-memberwise'},
        {'name': 'scalar-earlier-wins', 'item': 'merge_values',
         'pattern': r'\*base_slot = overlay_value;', 'repl': '',
         'expect': r'C32\.merge\.later-value-wins'},
        {'name': 'flat-key-joined-backwards', 'item': 'flatten_object',
         'pattern': r'format!\("\{\}\.\{\}", prefix, k\)', 'repl': 'format!("{}.{}", k, prefix)',
         'expect': r'C32\.flat-equals-nested'},
        {'name': 'earlier-file-wins', 'item': 'load_configs_raw::tail',
         'pattern': r'merge_values\(&mut acc, item\);\s*acc', 'repl': 'let mut item = item; merge_values(&mut item, acc); item',
         'expect': r'C32\.later-file-wins'},
    ],
}
