import re
from vc import rules as R
from vc import rustlex as L

CFG = 'crates/emmylua_code_analysis/src/config/'
LOADER = CFG + 'config_loader.rs'
FLAT = CFG + 'flatten_config/mod.rs'


@R.rule('fold-loop')
def fold_loop(text, **_):
    """E.into_iter().fold(INIT, |mut A, I| { BODY })  ->
         { let mut __accum = INIT; for I in E { __accum = { let mut A = __accum; BODY }; } __accum }
    std definition of Iterator::fold ("let mut accum = init; while let Some(x) = self.next() { accum = f(accum, x); } accum"),
    with the closure call `f(accum, x)` replaced by the closure's body, its parameters `mut A` and `I` bound to the accumulator
    and to the element (`for I in E` is `IntoIterator::into_iter(E)` followed by that `next` loop). BODY is kept verbatim."""
    toks = L.code_tokens(text)
    for i, t in enumerate(toks):
        if L.tok_text(text, t) != 'fold' or L.tok_text(text, toks[i - 1]) != '.' or L.tok_text(text, toks[i + 1]) != '(':
            continue
        close = L.match_close(text, toks, i + 1)
        # receiver: IDENT . into_iter ( ) . fold
        if [L.tok_text(text, toks[j]) for j in range(i - 5, i)] != ['.', 'into_iter', '(', ')', '.'] or toks[i - 6][0] != 'ident':
            raise R.Undecided('fold-loop: receiver is not `IDENT.into_iter()`')
        recv = L.tok_text(text, toks[i - 6])
        # INIT , | mut A , I | { BODY }
        j = i + 2
        while L.tok_text(text, toks[j]) != '|':
            if L.tok_text(text, toks[j]) in ('(', '[', '{'):
                j = L.match_close(text, toks, j)
            j += 1
        if L.tok_text(text, toks[j - 1]) != ',':
            raise R.Undecided('fold-loop: no closure argument')
        init = text[toks[i + 2][1]:toks[j - 2][2]]
        head = [L.tok_text(text, toks[k]) for k in range(j, j + 6)]
        if head[0] != '|' or head[1] != 'mut' or head[3] != ',' or head[5] != '|' or L.tok_text(text, toks[j + 6]) != '{':
            raise R.Undecided('fold-loop: closure is not `|mut A, I| { .. }`')
        acc, item = head[2], head[4]
        bclose = L.match_close(text, toks, j + 6)
        if bclose + 1 != close:
            raise R.Undecided('fold-loop: text after the closure body')
        body = text[toks[j + 6][2]:toks[bclose][1]]
        new = '{ let mut __accum = %s; for %s in %s { __accum = { let mut %s = __accum;%s}; } __accum }' % (init, item, recv, acc, body)
        return text[:toks[i - 6][1]] + new + text[toks[close][2]:], 1
    return text, 0


EXTRA_RULES = [
    ('fmt-join-dot', r'format!\("\{\}\.\{\}", (\w+), (\w+)\)', r'vx_join_dot(\1, \2)',
     'format!("{}.{}", A, B) (A, B strings) -> vx_join_dot(A, B), ensures r@ == A@ + "." + B@ (std::fmt: `{}` of a str/String writes its text)'),
    ('split-dot-collect', r"(\w+)\.split\('\.'\)\.collect\(\)", r'vx_split_dot(\1)',
     "S.split('.').collect() into Vec<&str> -> vx_split_dot(S); contract = std doc of str::split for a char pattern: at least one part, "
     "no part contains the separator, the parts joined by the separator give back S"),
    ('hashmap-ref-iter', r'for \((\w+), (\w+)\) in &([\w\.]+) \{', r'for (\1, \2) in \3.iter() {',
     'for (k, v) in &M { B } (M: HashMap) -> for (k, v) in M.iter() { B }: `impl IntoIterator for &HashMap` is '
     '`fn into_iter(self) -> Iter<K, V> { self.iter() }` (hashbrown, as std)'),
    ('for-map-into-iter', r'for \((\w+), (\w+)\) in (overlay_map) \{', r'for (\1, \2) in \3.into_iter() {',
     'for (k, v) in M { B } (M: serde_json::Map by value) -> for (k, v) in M.into_iter() { B }: Rust reference, `for` evaluates '
     'IntoIterator::into_iter(M); the call is only made explicit so that the shim of Map::into_iter carries the contract'),
    ('extend-filter-loop', r'(\w+)\.extend\(\s*(\w+)\s*\.into_iter\(\)\s*\.filter\(\|(\w+)\| ([^;|]*?)\),?\s*\);',
     r'for \3 in \2 { if \4 { \1.push(\3); } }',
     'V.extend(W.into_iter().filter(|x| P)) -> for x in W { if P { V.push(x); } }: std doc of Extend for Vec (appends every yielded '
     'element in order) and of Iterator::filter (calls the predicate once per element, in order, yields those for which it is '
     'true). In the closure `x` is a `&T` and in the loop a `T`; the only use of `x` in P is the method call `x.clone()`, which '
     'auto-derefs to the same `T::clone` (the rule refuses any other P)', re.S),
    ('to-owned-clone', r'\b(k)\.to_owned\(\)', r'\1.clone()',
     'K.to_owned() (K: &String) -> K.clone(): std blanket `impl<T: Clone> ToOwned for T { fn to_owned(&self) -> T { self.clone() } }`'),
    ('drop-log', r'log::(?:info|error)!\("[^"]*"\);', 'vx_log();',
     'log::info!("literal"); / log::error!("literal"); -> vx_log(); (logging a constant message reads nothing of the verified state)'),
]

UNIT = {
    'extra_rules': EXTRA_RULES,
    'items': {
        'FlattenConfigObject': {'src': {'file': FLAT, 'kind': 'struct', 'name': 'FlattenConfigObject'},
                                'rules': [('struct-fields', {})]},
        'FlattenConfigObject::parse': {'src': {'file': FLAT, 'kind': 'fn', 'impl': 'FlattenConfigObject', 'name': 'parse'}},
        'FlattenConfigObject::to_emmyrc': {'src': {'file': FLAT, 'kind': 'fn', 'impl': 'FlattenConfigObject', 'name': 'to_emmyrc'}},
        'flatten_object': {'src': {'file': FLAT, 'kind': 'fn', 'name': 'flatten_object'},
                           'rules': ['fmt-join-dot', 'to-owned-clone'],
                           'decreases': 'jv(*val)',
                           'iter_names': {0: 'it'},
                           'loops': {0: '''invariant
                    lists_entries(it.seq().map_values(|e: (&String, &Value)| e.0@), it.seq().map_values(|e: (&String, &Value)| jv(*e.1)), map@),
                    jv(*val) == JV::Object(map@),'''},
                           },
        'to_emmyrc_json': {'src': {'file': FLAT, 'kind': 'fn', 'name': 'to_emmyrc_json'},
                           'rules': ['split-dot-collect', 'hashmap-ref-iter'],
                           'ret': 'r',
                           'ensures': 'r is Object',
                           'iter_names': {0: 'it'},
                           'loops': {0: '''invariant emmyrc is Object,''',
                                     1: '''invariant *current is Object /*@C31.flatten.no-panic*/,
                        (*final(current) is Object) ==> (e_fin is Object),'''},
                           'proof': [(r'let mut current = &mut emmyrc;', 'after', 'let ghost e_fin = *final(current);'),
                                     (r'current = slot;\s*\}\s*\}', 'after', 'proof { assert(emmyrc == e_fin); }')],
                           },
        'merge_values': {'src': {'file': LOADER, 'kind': 'fn', 'name': 'merge_values'},
                         'rules': ['for-map-into-iter', 'extend-filter-loop'],
                         'decreases': 'jv(overlay)',
                         },
        'load_configs_raw::tail': {
            'src': {'kind': 'slice', 'name': 'load_tail', 'in': {'file': LOADER, 'kind': 'fn', 'name': 'load_configs_raw'},
                    'from': r'if config_jsons\.is_empty\(\) \{', 'to': r'\}(?=\s*\}\s*\Z)',
                    'head': 'pub fn load_tail(config_jsons: Vec<Value>) -> Value', 'tail': ''},
            'rules': ['drop-log', 'fold-loop']},
    },
    'allow': [r'external_body', r'uninterp spec fn'],
    'min_obligations': 5,
    'trusted': [],
    'not_covered': [],
    'samples': [],
    'mutants': [],
}
