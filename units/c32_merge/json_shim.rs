// =====================================================================================================
// Shim of the dependency types serde_json::{Value, Map<String, Value>, Number}, hashbrown::HashMap<String, Value>
// and std::collections::HashSet<Value>: the *data type* `Value` is the real enum (same variants, same payloads);
// the containers are opaque (`external_body`) and every operation the code under proof calls carries the contract
// that the dependency documents, stated over a spec-level view. Nothing of /repo is in this file.
// =====================================================================================================

/// spec-level JSON value: what a `serde_json::Value` denotes. Objects are finite maps from key text to value
/// (serde_json::Map keeps one value per key), arrays are sequences, numbers are opaque.
pub enum JV {
    Null,
    Bool(bool),
    Number(Number),
    String(Seq<char>),
    Array(Seq<JV>),
    Object(Map<Seq<char>, JV>),
}

/// serde_json::Number (opaque; compared only for equality, `impl Eq for Number`)
#[verifier::external_body]
pub struct Number { _p: () }

/// serde_json::Map<K, V> ("Represents a JSON key/value type"; only `Map<String, Value>` has an API). Built without
/// `preserve_order`: a BTreeMap. Its view is the finite map key text -> denoted value.
#[verifier::external_body]
#[verifier::reject_recursive_types(K)]
#[verifier::accept_recursive_types(V)]
pub struct JsonMap<K, V> { _k: std::marker::PhantomData<(K, V)> }

/// serde_json::Value: `pub enum Value { Null, Bool(bool), Number(Number), String(String), Array(Vec<Value>), Object(Map<String, Value>) }`
pub enum Value {
    Null,
    Bool(bool),
    Number(Number),
    String(String),
    Array(Vec<Value>),
    Object(JsonMap<String, Value>),
}

impl View for JsonMap<String, Value> {
    type V = Map<Seq<char>, JV>;
    uninterp spec fn view(&self) -> Map<Seq<char>, JV>;
}

/// what an exec `Value` denotes
pub open spec fn jv(v: Value) -> JV
    decreases v
{
    match v {
        Value::Null => JV::Null,
        Value::Bool(b) => JV::Bool(b),
        Value::Number(n) => JV::Number(n),
        Value::String(s) => JV::String(s@),
        Value::Array(a) => JV::Array(Seq::new(a@.len(), |i: int| if 0 <= i < a@.len() { jv(a@[i]) } else { JV::Null })),
        Value::Object(m) => JV::Object(m@),
    }
}

/// the denotations of the elements of a `Vec<Value>`
pub open spec fn jvs(a: Seq<Value>) -> Seq<JV> { Seq::new(a.len(), |i: int| if 0 <= i < a.len() { jv(a[i]) } else { JV::Null }) }

/// serde_json: `#[derive(Clone)] enum Value`: a clone denotes the same JSON value
impl Clone for Value {
    #[verifier::external_body]
    fn clone(&self) -> (r: Self)
        ensures jv(r) == jv(*self)
    { unimplemented!() }
}

impl Value {
    /// serde_json: "Returns true if the `Value` is an Object."
    #[verifier::external_body]
    pub fn is_object(&self) -> (r: bool)
        ensures r == (*self is Object)
    { unimplemented!() }

    /// serde_json: "If the `Value` is an Object, returns the associated mutable Map. Returns None otherwise."
    /// (`match self { Value::Object(map) => Some(map), _ => None }`): the reference points at the payload of the variant.
    #[verifier::external_body]
    pub fn as_object_mut(&mut self) -> (r: Option<&mut JsonMap<String, Value>>)
        ensures
            match r {
                Some(m) => *old(self) matches Value::Object(m0) && *m == m0 && *final(self) == Value::Object(*final(m)),
                None => !(*old(self) is Object) && *final(self) == *old(self),
            }
    { unimplemented!() }
}

/// serde_json: `impl Default for Map<String, Value>`: "Makes a new empty Map."
impl Default for JsonMap<String, Value> {
    #[verifier::external_body]
    fn default() -> (r: Self)
        ensures r@ == Map::<Seq<char>, JV>::empty()
    { unimplemented!() }
}

/// serde_json::map::Entry / `Map::entry`: "Gets the given key's corresponding entry in the map for in-place manipulation."
/// Ghost model of the borrow the entry holds: the key, the map when the entry was made, the map when the borrow ends.
#[verifier::external_body]
pub struct JEntry<'a> { _p: std::marker::PhantomData<&'a mut Value> }
pub uninterp spec fn je_key<'a>(e: JEntry<'a>) -> Seq<char>;
pub uninterp spec fn je_old<'a>(e: JEntry<'a>) -> Map<Seq<char>, JV>;
pub uninterp spec fn je_fin<'a>(e: JEntry<'a>) -> Map<Seq<char>, JV>;

impl<'a> JEntry<'a> {
    /// serde_json: "Ensures a value is in the entry by inserting the default if empty, and returns a mutable reference to
    /// the value in the entry." The reference points at the stored value; what it holds when it expires is what the map
    /// holds under that key; every other entry is untouched.
    #[verifier::external_body]
    pub fn or_insert(self, default: Value) -> (r: &'a mut Value)
        ensures
            jv(*r) == (if je_old(self).contains_key(je_key(self)) { je_old(self)[je_key(self)] } else { jv(default) }),
            je_fin(self) == je_old(self).insert(je_key(self), jv(*final(r))),
    { unimplemented!() }
}

/// serde_json::map::Iter: "An iterator over a serde_json::Map's entries." Item = (&String, &Value)
#[verifier::external_body]
pub struct JIter<'a> { _p: std::marker::PhantomData<&'a Value> }
pub uninterp spec fn jiter_seq<'a>(i: JIter<'a>) -> Seq<(&'a String, &'a Value)>;
impl<'a> Iterator for JIter<'a> {
    type Item = (&'a String, &'a Value);
    #[verifier::external_body]
    fn next(&mut self) -> Option<(&'a String, &'a Value)> { unimplemented!() }
}
impl<'a> IteratorSpecImpl for JIter<'a> {
    open spec fn obeys_prophetic_iter_laws(&self) -> bool { true }
    open spec fn remaining(&self) -> Seq<(&'a String, &'a Value)> { jiter_seq(*self) }
    open spec fn will_return_none(&self) -> bool { true }
    open spec fn decrease(&self) -> Option<nat> { Some(jiter_seq(*self).len()) }
    open spec fn peek(&self, index: int) -> Option<(&'a String, &'a Value)> {
        if 0 <= index < jiter_seq(*self).len() { Some(jiter_seq(*self)[index]) } else { None }
    }
}

/// serde_json::map::IntoIter: "An owning iterator over a serde_json::Map's entries." Item = (String, Value)
#[verifier::external_body]
pub struct JIntoIter { _p: () }
pub uninterp spec fn jinto_seq(i: JIntoIter) -> Seq<(String, Value)>;
impl Iterator for JIntoIter {
    type Item = (String, Value);
    #[verifier::external_body]
    fn next(&mut self) -> Option<(String, Value)> { unimplemented!() }
}
impl IteratorSpecImpl for JIntoIter {
    open spec fn obeys_prophetic_iter_laws(&self) -> bool { true }
    open spec fn remaining(&self) -> Seq<(String, Value)> { jinto_seq(*self) }
    open spec fn will_return_none(&self) -> bool { true }
    open spec fn decrease(&self) -> Option<nat> { Some(jinto_seq(*self).len()) }
    open spec fn peek(&self, index: int) -> Option<(String, Value)> {
        if 0 <= index < jinto_seq(*self).len() { Some(jinto_seq(*self)[index]) } else { None }
    }
}

/// the key texts / the denoted values of a sequence of borrowed entries
pub open spec fn keys_of(s: Seq<(&String, &Value)>) -> Seq<Seq<char>> { s.map_values(|e: (&String, &Value)| e.0@) }
pub open spec fn vals_of(s: Seq<(&String, &Value)>) -> Seq<JV> { s.map_values(|e: (&String, &Value)| jv(*e.1)) }
/// ... of a sequence of owned entries
pub open spec fn okeys_of(s: Seq<(String, Value)>) -> Seq<Seq<char>> { s.map_values(|e: (String, Value)| e.0@) }
pub open spec fn ovals_of(s: Seq<(String, Value)>) -> Seq<JV> { s.map_values(|e: (String, Value)| jv(e.1)) }
/// the texts of a vector of string slices
pub open spec fn strs(v: Seq<&str>) -> Seq<Seq<char>> { v.map_values(|s: &str| s@) }

/// every key of `m` exactly once, each with the value `m` holds for it (the order — key order for the BTreeMap-backed
/// serde_json::Map, unspecified for a hash map — is deliberately left open: nothing proved here may depend on it)
pub open spec fn lists_entries(ks: Seq<Seq<char>>, vs: Seq<JV>, m: Map<Seq<char>, JV>) -> bool {
    &&& ks.len() == vs.len()
    &&& ks.no_duplicates()
    &&& forall|i: int| 0 <= i < ks.len() ==> m.contains_key(#[trigger] ks[i]) && m[ks[i]] == vs[i]
    &&& forall|k: Seq<char>| m.contains_key(k) ==> ks.contains(k)
}

impl JsonMap<String, Value> {
    /// serde_json: "Returns a reference to the value corresponding to the key. The key may be any borrowed form of the
    /// map's key type" (String: Borrow<str>, compared by content)
    #[verifier::external_body]
    pub fn get(&self, key: &str) -> (r: Option<&Value>)
        ensures
            match r {
                Some(v) => self@.contains_key(key@) && jv(*v) == self@[key@],
                None => !self@.contains_key(key@),
            }
    { unimplemented!() }

    /// serde_json: "Returns a mutable reference to the value corresponding to the key." Present key: the reference points
    /// at the stored value, what it holds when it expires is stored under that key, every other entry untouched.
    /// Absent key: None, map unchanged.
    #[verifier::external_body]
    pub fn get_mut(&mut self, key: &str) -> (r: Option<&mut Value>)
        ensures
            match r {
                Some(v) => old(self)@.contains_key(key@) && jv(*v) == old(self)@[key@]
                    && final(self)@ == old(self)@.insert(key@, jv(*final(v))),
                None => !old(self)@.contains_key(key@) && final(self)@ == old(self)@,
            }
    { unimplemented!() }

    /// serde_json: "Inserts a key-value pair into the map. If the map did not have this key present, None is returned.
    /// If the map did have this key present, the value is updated, and the old value is returned."
    #[verifier::external_body]
    pub fn insert(&mut self, k: String, v: Value) -> (r: Option<Value>)
        ensures
            final(self)@ == old(self)@.insert(k@, jv(v)),
            r is Some == old(self)@.contains_key(k@),
    { unimplemented!() }

    /// serde_json: "Gets the given key's corresponding entry in the map for in-place manipulation."
    #[verifier::external_body]
    pub fn entry(&mut self, key: String) -> (r: JEntry<'_>)
        ensures je_key(r) == key@, je_old(r) == old(self)@, je_fin(r) == final(self)@,
    { unimplemented!() }

    /// serde_json: "Gets an iterator over the entries of the map."
    #[verifier::external_body]
    pub fn iter(&self) -> (r: JIter<'_>)
        ensures
            lists_entries(keys_of(jiter_seq(r)), vals_of(jiter_seq(r)), self@),
    { unimplemented!() }

    /// serde_json: `impl IntoIterator for Map<String, Value>` (Item = (String, Value)): the entries by value
    #[verifier::external_body]
    pub fn into_iter(self) -> (r: JIntoIter)
        ensures
            lists_entries(okeys_of(jinto_seq(r)), ovals_of(jinto_seq(r)), self@),
    { unimplemented!() }
}

// ---- hashbrown::HashMap<String, Value> (the field of FlattenConfigObject) ------------------------------
/// hashbrown::HashMap<K, V>: only the instantiation <String, Value> and only new / insert / iter are used.
/// View: key text -> denoted value (String keys are compared by content).
#[verifier::external_body]
#[verifier::reject_recursive_types(K)]
#[verifier::reject_recursive_types(V)]
pub struct HashMap<K, V> { _k: std::marker::PhantomData<(K, V)> }

impl View for HashMap<String, Value> {
    type V = Map<Seq<char>, JV>;
    uninterp spec fn view(&self) -> Map<Seq<char>, JV>;
}

/// hashbrown::hash_map::Iter: "An iterator over the entries of a HashMap in arbitrary order." Item = (&String, &Value)
#[verifier::external_body]
pub struct HmIter<'a> { _p: std::marker::PhantomData<&'a Value> }
pub uninterp spec fn hmiter_seq<'a>(i: HmIter<'a>) -> Seq<(&'a String, &'a Value)>;
impl<'a> Iterator for HmIter<'a> {
    type Item = (&'a String, &'a Value);
    #[verifier::external_body]
    fn next(&mut self) -> Option<(&'a String, &'a Value)> { unimplemented!() }
}
impl<'a> IteratorSpecImpl for HmIter<'a> {
    open spec fn obeys_prophetic_iter_laws(&self) -> bool { true }
    open spec fn remaining(&self) -> Seq<(&'a String, &'a Value)> { hmiter_seq(*self) }
    open spec fn will_return_none(&self) -> bool { true }
    open spec fn decrease(&self) -> Option<nat> { Some(hmiter_seq(*self).len()) }
    open spec fn peek(&self, index: int) -> Option<(&'a String, &'a Value)> {
        if 0 <= index < hmiter_seq(*self).len() { Some(hmiter_seq(*self)[index]) } else { None }
    }
}

impl HashMap<String, Value> {
    /// hashbrown: "Creates an empty HashMap."
    #[verifier::external_body]
    pub fn new() -> (r: Self)
        ensures r@ == Map::<Seq<char>, JV>::empty()
    { unimplemented!() }

    /// hashbrown: "Inserts a key-value pair into the map. ... If the map did have this key present, the value is updated"
    #[verifier::external_body]
    pub fn insert(&mut self, k: String, v: Value) -> (r: Option<Value>)
        ensures final(self)@ == old(self)@.insert(k@, jv(v)),
    { unimplemented!() }

    /// hashbrown: "An iterator visiting all key-value pairs in arbitrary order. The iterator element type is (&'a K, &'a V)."
    #[verifier::external_body]
    pub fn iter(&self) -> (r: HmIter<'_>)
        ensures
            lists_entries(keys_of(hmiter_seq(r)), vals_of(hmiter_seq(r)), self@),
    { unimplemented!() }
}

// ---- std::collections::HashSet<Value> (the `seen` set of merge_values) ----------------------------------
/// std HashSet at the element type `Value`. serde_json derives PartialEq/Eq/Hash for Value (structural equality),
/// so two elements are "equal" for the set iff they denote the same JSON value. View: the set of denoted values.
#[verifier::external_body]
#[verifier::reject_recursive_types(T)]
pub struct HashSet<T> { _t: std::marker::PhantomData<T> }

impl View for HashSet<Value> {
    type V = Set<JV>;
    uninterp spec fn view(&self) -> Set<JV>;
}

impl HashSet<Value> {
    /// std: "Creates an empty HashSet."
    #[verifier::external_body]
    pub fn new() -> (r: Self)
        ensures r@ == Set::<JV>::empty()
    { unimplemented!() }

    /// std: "Adds a value to the set. Returns whether the value was newly inserted."
    #[verifier::external_body]
    pub fn insert(&mut self, v: Value) -> (r: bool)
        ensures final(self)@ == old(self)@.insert(jv(v)), r == !old(self)@.contains(jv(v)),
    { unimplemented!() }
}

// ---- helpers introduced by the rewrite rules of this unit (std-doc contracts) ---------------------------
/// `format!("{}.{}", a, b)` for two strings: their texts with a '.' in between (std::fmt: Display of str writes the text)
#[verifier::external_body]
pub fn vx_join_dot(a: &str, b: &str) -> (r: String)
    ensures r@ == a@ + seq!['.'] + b@
{ format!("{}.{}", a, b) }

/// `logging only`: log::info!/log::error! with a literal message read nothing of the verified state
#[verifier::external_body]
pub fn vx_log() { }

/// `s.split('.').collect::<Vec<&str>>()`. std doc of str::split: "An iterator over substrings of this string slice, separated by
/// characters matched by a pattern": at least one part, no part contains the separator, the parts joined by the separator
/// give back the string (`is_split` is defined in spec.rs; these three facts determine the parts uniquely: lemma_split_unique)
#[verifier::external_body]
pub fn vx_split_dot<'a>(s: &'a str) -> (r: Vec<&'a str>)
    ensures is_split(strs(r@), s@)
{ s.split('.').collect() }

/// `v.iter().cloned().collect::<HashSet<Value>>()`: std doc of Iterator::cloned ("creates an iterator which clones all of its
/// elements") and of `impl FromIterator for HashSet`: the set of the elements of `v`
#[verifier::external_body]
pub fn vx_cloned_set(v: &Vec<Value>) -> (r: HashSet<Value>)
    ensures r@ == jvs(v@).to_set()
{ unimplemented!() }
