// unit c27_order — C27 "text-document notifications take effect in message order" (see unit.py for the plan and the schedule model).
// Hand-written SPECIFICATION only: shims of external types, the ghost model, spec fns, lemmas. The code under proof enters through //@@ keys.
use vstd::prelude::*;
use vstd::multiset::Multiset;
use std::sync::Arc;
verus! {

// ---- shims: lsp_server message types, as data (lsp-server 0.7.9; same transcription as unit c24_dispatch) --------------------------------
/// serde_json::Value (opaque)
#[verifier::external_body]
pub struct Value { _p: () }
#[verifier::external_body]
pub struct RequestId { _p: () }
pub struct Request { pub id: RequestId, pub method: String, pub params: Value }
#[verifier::external_body]
pub struct Response { _p: () }
pub struct Notification { pub method: String, pub params: Value }
pub enum Message { Request(Request), Response(Response), Notification(Notification) }
/// serde_json::Error (opaque)
#[verifier::external_body]
pub struct SerdeError { _p: () }
#[verifier::reject_recursive_types(T)]
pub enum ExtractError<T> { MethodMismatch(T), JsonError { method: String, error: SerdeError } }

/// "serde_json::from_value::<P>(v) is Ok" and the value it yields. Uninterpreted: nothing is assumed about which JSON deserializes to what.
pub uninterp spec fn deserializes<P>(v: Value) -> bool;
pub uninterp spec fn parsed<P>(v: Value) -> P;

impl Notification {
    /// lsp_server (msg.rs): `if self.method != method { return Err(MethodMismatch(self)) }  match serde_json::from_value(self.params)
    /// { Ok(params) => Ok(params), Err(error) => Err(JsonError { method: self.method, error }) }`
    #[verifier::external_body]
    pub fn extract<P>(self, method: &str) -> (r: Result<P, ExtractError<Notification>>)
        ensures
            self.method@ != method@ ==> r is Err,
            self.method@ == method@ ==> (r is Ok <==> deserializes::<P>(self.params)),
            r matches Ok(p) ==> p == parsed::<P>(self.params),
    { unimplemented!() }
}
/// lsp_types::notification::Notification (imported as LspNotification in the source)
pub trait LspNotification { type Params; const METHOD: &'static str; }
#[verifier::external_body]
pub struct CancelParams { _p: () }
/// `Box<dyn Error + Sync + Send>`: the error value is opaque (c24's rule `c24-error-type-opaque`)
#[verifier::external_body]
pub struct BoxedError { _p: () }

// ---- shims: lsp_types parameter types of the three notifications, transcribed as data (emmy_lsp_types 0.1.0, all fields pub) ---------------
/// lsp_types::Uri (opaque; Clone yields an equal value)
#[verifier::external_body]
pub struct Uri { _p: () }
impl Clone for Uri {
    #[verifier::external_body]
    fn clone(&self) -> (r: Uri) ensures r == *self { unimplemented!() }
}
#[verifier::external_body]
pub struct Range { _p: () }
pub struct TextDocumentItem { pub uri: Uri, pub language_id: String, pub version: i32, pub text: String }
pub struct DidOpenTextDocumentParams { pub text_document: TextDocumentItem }
pub struct VersionedTextDocumentIdentifier { pub uri: Uri, pub version: i32 }
pub struct TextDocumentContentChangeEvent { pub range: Option<Range>, pub range_length: Option<u32>, pub text: String }
pub struct DidChangeTextDocumentParams { pub text_document: VersionedTextDocumentIdentifier, pub content_changes: Vec<TextDocumentContentChangeEvent> }
pub struct TextDocumentIdentifier { pub uri: Uri }
pub struct DidCloseTextDocumentParams { pub text_document: TextDocumentIdentifier }

// ---- shims: the capability types that `register_capabilities` fills in (emmy_lsp_types 0.1.0) ------------------------------------------------
/// lsp_types: `pub struct TextDocumentSyncKind(i32)` with the constants NONE = 0, FULL = 1, INCREMENTAL = 2 (macro `lsp_enum!`)
#[derive(PartialEq, Eq, Clone, Copy)]
pub struct TextDocumentSyncKind(pub i32);
impl TextDocumentSyncKind {
    pub const NONE: TextDocumentSyncKind = TextDocumentSyncKind(0);
    pub const FULL: TextDocumentSyncKind = TextDocumentSyncKind(1);
    pub const INCREMENTAL: TextDocumentSyncKind = TextDocumentSyncKind(2);
}
pub struct SaveOptions { pub include_text: Option<bool> }
pub enum TextDocumentSyncSaveOptions { Supported(bool), SaveOptions(SaveOptions) }
pub struct TextDocumentSyncOptions {
    pub open_close: Option<bool>, pub change: Option<TextDocumentSyncKind>, pub will_save: Option<bool>,
    pub will_save_wait_until: Option<bool>, pub save: Option<TextDocumentSyncSaveOptions>,
}
pub enum TextDocumentSyncCapability { Kind(TextDocumentSyncKind), Options(TextDocumentSyncOptions) }
/// lsp_types::ServerCapabilities: only the field this unit speaks about
pub struct ServerCapabilities { pub text_document_sync: Option<TextDocumentSyncCapability> }
#[verifier::external_body]
pub struct ClientCapabilities { _p: () }
pub mod lsp_types { pub use super::TextDocumentSyncOptions; }

// ---- the ghost model ------------------------------------------------------------------------------------------------------------------------------
/// one call on the analysis: `update_file_by_uri(uri, Some(text))` = (uri, Some(text)); `remove_file_by_uri(uri)` = (uri, None)
pub type Eff = (Uri, Option<Seq<char>>);

/// What the main loop and the tasks it spawns have done to the analysis.
///  `applied`  the calls made on the analysis by code that runs ON THE MAIN LOOP (awaited inline), in the order they happened
///  `deferred` the calls made by code INSIDE a spawned task: unordered, they happen at any later time, possibly not before the next message
///  `known`    the uris that have a file id in the analysis, as the main loop sees them (`get_file_id(uri).is_some()`)
///  `depth`    > 0 while the text being executed is the body of a spawned task (between the brackets of rule `async-defer-spawn`)
pub struct St { pub applied: Seq<Eff>, pub deferred: Multiset<Eff>, pub known: Set<Uri>, pub depth: nat }
impl St {
    pub open spec fn in_task(self) -> bool { self.depth > 0 }
}
/// the explicit ghost parameter `st` (rules c24-shared-state / c24-ghost-param)
pub struct Shared { pub g: Ghost<St> }

/// the call `e` has been made on the analysis, in order, and nothing was deferred
pub open spec fn now(a: St, b: St, e: Eff) -> bool {
    &&& b.applied == a.applied.push(e)
    &&& b.deferred == a.deferred
    &&& b.known == (if e.1 is Some { a.known.insert(e.0) } else { a.known.remove(e.0) })
    &&& b.depth == a.depth
}
/// the call `e` was made inside a spawned task: for the main loop NOTHING has happened yet
pub open spec fn later(a: St, b: St, e: Eff) -> bool {
    b.applied == a.applied && b.known == a.known && b.depth == a.depth && b.deferred == a.deferred.insert(e)
}
pub open spec fn effect(a: St, b: St, e: Eff) -> bool { if a.in_task() { later(a, b, e) } else { now(a, b, e) } }
/// all that is known about code that ran inside a spawned task: the main loop's log and view are as before
pub open spec fn in_task_frame(a: St, b: St) -> bool { b.applied == a.applied && b.known == a.known && b.depth == a.depth }
pub open spec fn text_view(t: Option<String>) -> Option<Seq<char>> { match t { Some(s) => Some(s@), None => None } }

/// rule `async-defer-spawn`: the brackets around the text of a spawned task
#[verifier::external_body]
pub fn vx_task_begin(st: &mut Shared)
    ensures final(st).g@ == (St { depth: old(st).g@.depth + 1, ..old(st).g@ }),
{ }
#[verifier::external_body]
pub fn vx_task_end(st: &mut Shared)
    requires old(st).g@.depth > 0,
    ensures final(st).g@ == (St { depth: (old(st).g@.depth - 1) as nat, ..old(st).g@ }),
{ }

// ---- the predicates of the real `should_process` / of the close branch (uninterpreted: facts about the workspace and the disk) ------------------
/// WorkspaceManager::is_workspace_file: the uri lies in a workspace folder / library and is not excluded (or there is no workspace folder)
pub uninterp spec fn sp_is_workspace_file(uri: Uri) -> bool;
/// uri_to_file_path: the path of a `file:` uri
pub uninterp spec fn sp_path(uri: Uri) -> Option<PathBuf>;
/// Path::exists
pub uninterp spec fn sp_on_disk(p: PathBuf) -> bool;
/// the module index has a ModuleInfo for the document: its file belongs to a workspace root or a library
pub uninterp spec fn sp_is_module_file(uri: Uri) -> bool;

/// the real `should_process` of didOpen / didChange: already known to the analysis, or a workspace file
pub open spec fn accepts(a: St, u: Uri) -> bool { a.known.contains(u) || sp_is_workspace_file(u) }
/// the real didClose, removal branches: the file is gone from the disk, or the analysis knows the document but it belongs to no workspace / library
pub open spec fn close_removes(a: St, u: Uri) -> bool {
    (sp_path(u) matches Some(p) && !sp_on_disk(p)) || (a.known.contains(u) && !sp_is_module_file(u))
}
/// read_file_with_encoding: the decoded content of the file, None when it cannot be read / decoded (the file system, uninterpreted)
pub uninterp spec fn sp_disk_text(p: PathBuf) -> Option<Seq<char>>;
/// What the real didClose does to the analysis ("a closed document is what its file holds"):
///   the file is not on disk                                   -> the document is removed
///   (else) the analysis does not know the document            -> nothing (there is nothing to forget)
///   (else) known, but it belongs to no workspace / library    -> removed
///   (else) known workspace / library file with a path         -> the analysis gets the DISK text, or the document is removed when the file
///                                                                cannot be read: (u, sp_disk_text(p)) is an update for Some, a removal for None
///   (else) known module WITHOUT a file path                   -> nothing (the module index keys modules by path; see not_covered)
pub open spec fn close_effect(a: St, u: Uri) -> Option<Eff> {
    if close_removes(a, u) { Some((u, None)) }
    else if !a.known.contains(u) { None }
    else { match sp_path(u) { Some(p) => Some((u, sp_disk_text(p))), None => None } }
}

// ---- shims: tokio RwLock, the analysis, the managers (opaque; sequential reading of the locks: `read().await` / `write().await` give access) ----
/// tokio::sync::RwLock. `read()` gives shared access to the value (the read guard derefs to `&T`), `write()` a guard through which the
/// `&mut self` methods of the value are called (DerefMut). No fairness / deadlock modelling (C28).
#[verifier::external_body]
#[verifier::reject_recursive_types(T)]
pub struct RwLock<T> { _p: core::marker::PhantomData<T> }
#[verifier::external_body]
#[verifier::reject_recursive_types(T)]
pub struct RwLockWriteGuard<T> { _p: core::marker::PhantomData<T> }
impl<T> RwLock<T> {
    #[verifier::external_body]
    pub fn read(&self) -> &T { unimplemented!() }
    #[verifier::external_body]
    pub fn write(&self) -> RwLockWriteGuard<T> { unimplemented!() }
}
/// std::mem::drop (prelude): releases a guard; no effect on the ghost state
pub fn drop<T>(_x: T) { }

#[verifier::external_body]
pub struct PathBuf { _p: () }
impl PathBuf {
    #[verifier::external_body]
    pub fn exists(&self) -> (r: bool) ensures r == sp_on_disk(*self) { unimplemented!() }
}
#[verifier::external_body]
pub fn uri_to_file_path(uri: &Uri) -> (r: Option<PathBuf>) ensures r == sp_path(*uri) { unimplemented!() }

/// emmylua_code_analysis::FileId as an opaque token that remembers the uri it was looked up for
#[verifier::external_body]
#[derive(Clone, Copy)]
pub struct FileId { _p: () }
impl FileId { pub uninterp spec fn sp_uri(self) -> Uri; }
#[verifier::external_body]
pub struct ModuleInfo { _p: () }
#[verifier::external_body]
pub struct LuaModuleIndex { _p: () }
impl LuaModuleIndex {
    #[verifier::external_body]
    pub fn get_module(&self, file_id: FileId) -> (r: Option<&ModuleInfo>) ensures r is Some <==> sp_is_module_file(file_id.sp_uri()) { unimplemented!() }
}
#[verifier::external_body]
pub struct DbIndex { _p: () }
impl DbIndex {
    #[verifier::external_body]
    pub fn get_module_index(&self) -> &LuaModuleIndex { unimplemented!() }
}
#[verifier::external_body]
pub struct LuaCompilation { _p: () }
impl LuaCompilation {
    #[verifier::external_body]
    pub fn get_db(&self) -> &DbIndex { unimplemented!() }
}
/// emmylua_code_analysis::EmmyLuaAnalysis: the field the close handler reads
pub struct EmmyLuaAnalysis { pub compilation: LuaCompilation }
impl EmmyLuaAnalysis {
    /// through the read guard. On the main loop: Some exactly for the uris the analysis knows; inside a spawned task: whatever holds then
    #[verifier::external_body]
    pub fn get_file_id(&self, uri: &Uri, st: &mut Shared) -> (r: Option<FileId>)
        ensures final(st).g@ == old(st).g@,
            !old(st).g@.in_task() ==> (r is Some <==> old(st).g@.known.contains(*uri)),
            r matches Some(f) ==> f.sp_uri() == *uri,
    { unimplemented!() }
}
impl EmmyLuaAnalysis {
    /// through the read guard: the current configuration (arbitrary)
    #[verifier::external_body]
    pub fn get_emmyrc(&self) -> Arc<Emmyrc> { unimplemented!() }
}
/// emmylua_code_analysis::read_file_with_encoding (vfs/loader.rs): `fs::read` + decoding with the configured encoding; None when the file cannot
/// be read or decoded. The RESULT is the uninterpreted disk content of the path (whatever the encoding label is)
#[verifier::external_body]
pub fn read_file_with_encoding(path: &PathBuf, encoding: &String) -> (r: Option<String>)
    ensures text_view(r) == sp_disk_text(*path),
{ unimplemented!() }
impl RwLockWriteGuard<EmmyLuaAnalysis> {
    /// rule `write-guard-deref`: `Deref::deref` of the guard — the analysis behind the lock, read-only
    #[verifier::external_body]
    pub fn vx_deref(&self) -> &EmmyLuaAnalysis { unimplemented!() }
    /// THE call the property is about: the analysis gets `text` for `uri` (vfs set_file_content + re-index). Logged in call order on the main
    /// loop, as a deferred effect inside a spawned task. (`text == None` empties the document but keeps its file id: no handler under proof
    /// does that, the shim says nothing about it.)
    #[verifier::external_body]
    pub fn update_file_by_uri(&mut self, uri: &Uri, text: Option<String>, st: &mut Shared) -> (r: Option<FileId>)
        ensures text is Some ==> effect(old(st).g@, final(st).g@, (*uri, text_view(text))),
    { unimplemented!() }
    /// removes the document from the vfs and the index (a no-op on an unknown uri, logged all the same: afterwards the analysis has no text for it)
    #[verifier::external_body]
    pub fn remove_file_by_uri(&mut self, uri: &Uri, st: &mut Shared) -> (r: Option<FileId>)
        ensures effect(old(st).g@, final(st).g@, (*uri, None)),
    { unimplemented!() }
    #[verifier::external_body]
    pub fn get_emmyrc(&self) -> Arc<Emmyrc> { unimplemented!() }
}
/// context::WorkspaceManager (opaque): the open-file overlay and the reindex timer are not part of C27
#[verifier::external_body]
pub struct WorkspaceManager { _p: () }
impl WorkspaceManager {
    #[verifier::external_body]
    pub fn is_workspace_file(&self, uri: &Uri) -> (r: bool) ensures r == sp_is_workspace_file(*uri) { unimplemented!() }
    #[verifier::external_body]
    pub fn extend_reindex_delay(&self) { }
}
impl RwLockWriteGuard<WorkspaceManager> {
    #[verifier::external_body]
    pub fn sync_open_file(&mut self, uri: Uri, text: String) { }
    #[verifier::external_body]
    pub fn close_open_file(&mut self, uri: &Uri) { }
}
/// context::FileDiagnostic (opaque): diagnostics are scheduled separately (C30)
#[verifier::external_body]
pub struct FileDiagnostic { _p: () }
impl FileDiagnostic {
    #[verifier::external_body]
    pub fn add_diagnostic_task(&self, file_id: FileId, interval: u64) { }
    #[verifier::external_body]
    pub fn clear_push_file_diagnostics(&self, uri: Uri) { }
}
#[verifier::external_body]
pub struct LspFeatures { _p: () }
impl LspFeatures {
    #[verifier::external_body]
    pub fn supports_pull_diagnostic(&self) -> bool { unimplemented!() }
}
#[verifier::external_body]
pub struct ServerContextInner { _p: () }
/// context::ServerContextSnapshot: a handle on the shared server state (accessors as in context/snapshot.rs)
#[verifier::external_body]
pub struct ServerContextSnapshot { _p: () }
impl ServerContextSnapshot {
    #[verifier::external_body]
    pub fn new(inner: Arc<ServerContextInner>) -> ServerContextSnapshot { unimplemented!() }
    #[verifier::external_body]
    pub fn analysis(&self) -> &RwLock<EmmyLuaAnalysis> { unimplemented!() }
    #[verifier::external_body]
    pub fn workspace_manager(&self) -> &RwLock<WorkspaceManager> { unimplemented!() }
    #[verifier::external_body]
    pub fn file_diagnostic(&self) -> &FileDiagnostic { unimplemented!() }
    #[verifier::external_body]
    pub fn lsp_features(&self) -> &LspFeatures { unimplemented!() }
}
impl Clone for ServerContextSnapshot {
    #[verifier::external_body]
    fn clone(&self) -> ServerContextSnapshot { unimplemented!() }
}

// ---- shims for the dispatcher and handle_message: everything that is not a text-sync notification is opaque, WITHOUT the ghost state ---------
/// `$/cancelRequest` (unit c24_dispatch has it under contract): does not touch the analysis
#[verifier::external_body]
pub fn handle_cancel(server_context: &mut ServerContext, params: CancelParams) { }
#[verifier::external_body]
pub fn on_request_handler(req: Request, server_context: &mut ServerContext) -> Result<(), BoxedError> { unimplemented!() }
#[verifier::external_body]
pub fn on_response_handler(response: Response, server_context: &mut ServerContext) -> Result<(), BoxedError> { unimplemented!() }
#[verifier::external_body]
pub struct AsyncConnection { _p: () }
impl AsyncConnection {
    #[verifier::external_body]
    pub fn handle_shutdown(&mut self, req: &Request) -> Result<bool, BoxedError> { unimplemented!() }
}
impl ServerContext {
    #[verifier::external_body]
    pub fn close(&self) { }
}
pub mod context { pub use super::ServerContext; }
/// server::ServerMessageProcessor (its fields are unit c24_dispatch's business)
#[verifier::external_body]
pub struct ServerMessageProcessor { _p: () }

//@@GENERATED notification-table

// ---- property vocabulary: a notification as the main loop sees it -------------------------------------------------------------------------------
pub enum Note {
    /// didOpen(uri, text)
    Open(Uri, Seq<char>),
    /// didChange(uri, text of the first content change) — the server advertises FULL sync
    Change(Uri, Seq<char>),
    /// didClose(uri)
    Close(Uri),
    /// anything else: another method, params that do not deserialize, a didChange without content changes
    Other,
}
pub open spec fn is_open(n: Notification) -> bool { is_on_did_open_text_document(n.method@) && deserializes::<DidOpenTextDocumentParams>(n.params) }
pub open spec fn is_change(n: Notification) -> bool { is_on_did_change_text_document(n.method@) && deserializes::<DidChangeTextDocumentParams>(n.params) }
pub open spec fn is_close(n: Notification) -> bool { is_on_did_close_document(n.method@) && deserializes::<DidCloseTextDocumentParams>(n.params) }
pub open spec fn note_of(n: Notification) -> Note {
    if is_open(n) {
        let p = parsed::<DidOpenTextDocumentParams>(n.params);
        Note::Open(p.text_document.uri, p.text_document.text@)
    } else if is_change(n) {
        let p = parsed::<DidChangeTextDocumentParams>(n.params);
        if p.content_changes@.len() > 0 { Note::Change(p.text_document.uri, p.content_changes@[0].text@) } else { Note::Other }
    } else if is_close(n) {
        Note::Close(parsed::<DidCloseTextDocumentParams>(n.params).text_document.uri)
    } else {
        Note::Other
    }
}
/// What handling `n` INLINE on the main loop does (the three handlers' contracts outside a task, as one predicate). For `Other` only the
/// dispatcher's own behaviour: the ordered log and the main loop's view are untouched (what the opaque handlers do is not covered).
pub open spec fn inline_post(a: St, b: St, n: Note) -> bool {
    match n {
        Note::Open(u, t) => if accepts(a, u) { now(a, b, (u, Some(t))) } else { b == a },
        Note::Change(u, t) => if accepts(a, u) { now(a, b, (u, Some(t))) } else { b == a },
        Note::Close(u) => match close_effect(a, u) { Some(e) => now(a, b, e), None => b == a },
        Note::Other => b.applied == a.applied && b.known == a.known,
    }
}
/// one turn of the main loop on a notification
pub open spec fn step(a: St, b: St, n: Note) -> bool { !a.in_task() && !b.in_task() && inline_post(a, b, n) }

//@@include c27_order/sequence.rs

// ---- extracted from /repo ---------------------------------------------------------------------------------------------------------------------
//@@ Emmyrc
//@@ EmmyrcDiagnostic
//@@ EmmyrcWorkspace
//@@ ServerContext
impl ServerContext {
    //@@ ServerContext::snapshot
}

//@@ on_did_open_text_document

//@@ on_did_change_text_document

//@@ on_did_close_document

//@@ on_notification_handler

impl ServerMessageProcessor {
    //@@ ServerMessageProcessor::handle_message
}

//@@ TextDocumentCapabilities::register_capabilities

} // verus!
fn main() {}
