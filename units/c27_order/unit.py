"""unit c27_order — C27 "text-document notifications take effect in message order".

  However the server schedules its tasks, once it has handled a sequence of didOpen / didChange / didClose notifications, each open
  document is analysed with the text of its LAST notification in message order; a document closed last is treated as closed; a quick
  didOpen followed by didChange never leaves the analysis on the didOpen text.

The MECHANISM is sequential: `dispatch_notification!` (handlers/notification_handler.rs) has a SYNC group — the handler is awaited inline by
the main loop, one message after the other — and an ASYNC group — the handler is handed to `tokio::spawn` and runs at some later time, in any
order. The property holds iff the three text-sync methods are in the sync group AND each handler applies its text to the analysis before it
returns. That is what this unit puts under contract:

  * `on_did_open_text_document`, `on_did_change_text_document`, `on_did_close_document` (handlers/text_document/text_document_handler.rs), whole fns
  * `on_notification_handler` = ONE `dispatch_notification!` invocation, expanded mechanically by unit c24_dispatch's rule `c24-macro-expand`
    (its unit.py / mrules.py are loaded with importlib; nothing of c24 is edited)
  * `ServerMessageProcessor::handle_message` (the piece of the message loop that calls the dispatcher), `ServerContext::snapshot`
  * `TextDocumentCapabilities::register_capabilities` (which sync kind the server advertises)
  * the sequence lemmas of sequence.rs, proved from those contracts

SCHEDULE MODEL (the trusted part, see `trusted`). `.await` on a future that was not spawned runs it to completion at that point (rules
`async-seq-fn` / `async-seq-await` of unit c36_channel). `tokio::spawn` gets the OPPOSITE reading of c24 / c36 (which run the body at the
spawn point): unit-local rule `async-defer-spawn` — nothing the spawned body does to the analysis has happened when the spawning fn returns.
Ghost state `st` (rules c24-shared-state / c24-ghost-param): `applied` = the ordered log of `update_file_by_uri(uri, Some(text))` / removal
calls made on the analysis by the main loop; `deferred` = the unordered multiset of such calls made inside spawned tasks (any later time,
any order, possibly never before the next message)."""
import glob
import importlib.util
import os
import re

from vc import extract as X
from vc import rustlex as L
from vc.assemble import REPO, VERIF
from vc.extract import Undecided
from vc.rules import rule

LS = 'crates/emmylua_ls/src/'
NH = LS + 'handlers/notification_handler.rs'
TD = LS + 'handlers/text_document/text_document_handler.rs'
TDM = LS + 'handlers/text_document/mod.rs'
CTX = LS + 'context/mod.rs'
MP = LS + 'server/message_processor.rs'
CA = 'crates/emmylua_code_analysis/src/'

# unit c24_dispatch's machinery, ONE definition: loading its unit.py registers `c24-macro-expand`, `c24-match-const-chain`, `c24-no-async-left`,
# `c24-shared-state`, `c24-ghost-param` (and, through it, unit c36_channel's `async-seq-fn` / `async-seq-await`) in the rule catalogue, reads
# the notification table (NSYNC / NASYNC) from the repository and finds the METHOD strings in the vendored lsp_types crate
_spec = importlib.util.spec_from_file_location('unit_c24_dispatch_for_c27', os.path.join(VERIF, 'units', 'c24_dispatch', 'unit.py'))
_c24 = importlib.util.module_from_spec(_spec)
_spec.loader.exec_module(_c24)

TEXT_SYNC = {   # notification type -> (the real handler, its parameter type in lsp_types)
    'DidOpenTextDocument': ('on_did_open_text_document', 'DidOpenTextDocumentParams'),
    'DidChangeTextDocument': ('on_did_change_text_document', 'DidChangeTextDocumentParams'),
    'DidCloseTextDocument': ('on_did_close_document', 'DidCloseTextDocumentParams'),
}


def _T(text, toks):
    return lambda i: L.tok_text(text, toks[i]) if 0 <= i < len(toks) else ''


# ---------------------------------------------------------------------------------------------
# rule async-defer-spawn: the conservative reading of tokio::spawn
# ---------------------------------------------------------------------------------------------
@rule('async-defer-spawn')
def async_defer_spawn(text, **_):
    """`tokio::spawn(async move { BODY });` -> `{ vx_task_begin(st); BODY vx_task_end(st); }`. tokio: spawn hands the future to the runtime and
    returns at once; the task runs at SOME later time, concurrently with the spawner and with every other task, in no particular order
    (the JoinHandle is discarded in the source, nothing waits for it). The two `external_body` shims bracket the text of the task: between them
    `st.depth > 0`, and under that flag every shim of the analysis (a) records an update / removal in the unordered ghost multiset `deferred`
    instead of the ordered log `applied` and leaves the main loop's view `known` alone — the effect has NOT happened when the spawning fn returns —,
    (b) answers every question about the CURRENT state (`get_file_id`) with an unconstrained value — the task sees whatever state exists when it
    runs. BODY stays where it is only so that the type checker and the verifier see the calls it makes; nothing that BODY computes can flow back
    (an `async move` block owns what it captures and its value is dropped with the JoinHandle). The rule refuses (Undecided) a BODY with
    `return` / `?` / `break` / `continue`: inside an async block they leave the block, in the rewritten form they would leave the fn."""
    n = 0
    while True:
        toks = L.code_tokens(text)
        T = _T(text, toks)
        hit = None
        for i in range(len(toks) - 8):
            if (T(i) == 'tokio' and T(i + 1) == ':' and T(i + 2) == ':' and T(i + 3) == 'spawn' and T(i + 4) == '('
                    and T(i + 5) == 'async' and T(i + 6) == 'move' and T(i + 7) == '{'):
                bc = L.match_close(text, toks, i + 7)
                pc = L.match_close(text, toks, i + 4)
                if pc != bc + 1 or T(pc + 1) != ';':
                    raise Undecided('async-defer-spawn: spawn is not a statement `tokio::spawn(async move { .. });`')
                for k in range(i + 8, bc):
                    if T(k) in ('return', '?', 'break', 'continue', 'async'):
                        raise Undecided('async-defer-spawn: `%s` inside the spawned block' % T(k))
                body = text[toks[i + 7][2]:toks[bc][1]]
                hit = (toks[i][1], toks[pc + 1][2], '{ vx_task_begin(st);' + body.rstrip() + '\n vx_task_end(st); }')
                break
        if not hit:
            break
        text = text[:hit[0]] + hit[2] + text[hit[1]:]
        n += 1
    if re.search(r'\btokio::spawn\b', text):
        raise Undecided('async-defer-spawn: a `tokio::spawn` of another shape remains')
    return text, n


# ---------------------------------------------------------------------------------------------
# generated: the notification table (read from the repository by c24's loader) + the METHOD strings
# ---------------------------------------------------------------------------------------------
def _params_types():
    """`type Params = X` of the three text-sync notifications, read from the vendored lsp_types crate (the template transcribes X as data)"""
    files = glob.glob(os.path.expanduser('~/.cargo/registry/src/*/emmy_lsp_types-0.1.0/src/notification.rs'))
    src = ''.join(open(f, encoding='utf-8').read() for f in sorted(files))
    for t, (_, p) in TEXT_SYNC.items():
        m = re.search(r'impl\s+Notification\s+for\s+%s\s*\{\s*type\s+Params\s*=\s*(\w+)\s*;' % t, src)
        if not m or m.group(1) != p:
            raise Undecided('lsp_types: `type Params` of %s is not %s' % (t, p))


def _first_diff(a, b):
    return next((k for k in range(min(len(a), len(b))) if a[k] != b[k]), None)


def _generated():
    _params_types()
    table = _c24.NSYNC + _c24.NASYNC
    have = {t for t, _ in table}
    missing = [t for t in TEXT_SYNC if t not in have]
    if missing:
        raise Undecided('the notification table has no entry for %s' % missing)
    for t, h in table:
        if t in TEXT_SYNC and TEXT_SYNC[t][0] != h:
            raise Undecided('%s is routed to %s, the unit has %s under contract' % (t, h, TEXT_SYNC[t][0]))
    meth = _c24._METHODS
    out = ['// ---- GENERATED by units/c27_order/unit.py from the notification table of on_notification_handler (%d sync, %d async entries) ----'
           % (len(_c24.NSYNC), len(_c24.NASYNC)),
           '// the three text-sync entries: real parameter type, REAL handler (extracted below); every other entry: opaque parameter type and',
           '// an opaque handler shim WITHOUT the ghost state (what those handlers do to the analysis is outside this unit, see not_covered)',
           'pub struct Cancel;',
           'impl LspNotification for Cancel { type Params = CancelParams; const METHOD: &\'static str = %s; }' % meth['Cancel']]
    for t, h in table:
        out.append('pub struct %s;' % t)
        if t in TEXT_SYNC:
            out.append('impl LspNotification for %s { type Params = %s; const METHOD: &\'static str = %s; }' % (t, TEXT_SYNC[t][1], meth[t]))
        else:
            out.append('#[verifier::external_body] pub struct NP_%s { _p: () }' % t)
            out.append('impl LspNotification for %s { type Params = NP_%s; const METHOD: &\'static str = %s; }' % (t, t, meth[t]))
            out.append('#[verifier::external_body] pub fn %s(context: ServerContextSnapshot, params: NP_%s) -> Option<()> { unimplemented!() }' % (h, t))
    # the METHOD strings of the three text-sync notifications differ from every other METHOD of the table (first-match-wins dispatch)
    lits = [('Cancel', meth['Cancel'])] + [(t, meth[t]) for t, _ in table]
    ens, body = [], []
    for t in TEXT_SYNC:
        out.append('pub open spec fn is_%s(m: Seq<char>) -> bool { m == %s@ }' % (TEXT_SYNC[t][0], meth[t]))
        ens.append('<%s>::METHOD@ == %s@' % (t, meth[t]))
    for t, lit in lits:
        body.append('    reveal_strlit(%s);' % lit)
    for t in TEXT_SYNC:
        a = meth[t][1:-1]
        for u, lit in lits:
            if u == t:
                continue
            b = lit[1:-1]
            if a == b:
                raise Undecided('METHOD of %s equals METHOD of %s' % (t, u))
            ens.append('<%s>::METHOD@ != <%s>::METHOD@' % (t, u))
            if len(a) != len(b):
                body.append('    assert(%s@.len() != %s@.len());' % (meth[t], lit))
            else:
                body.append('    assert(%s@[%d] != %s@[%d]);' % (meth[t], _first_diff(a, b), lit, _first_diff(a, b)))
    out.append('/// the METHOD strings (transcribed from lsp_types) of the three text-sync notifications and of every other table entry differ')
    out.append('pub proof fn lemma_methods_distinct()\n    ensures\n        ' + ',\n        '.join(ens) + ',\n{\n' + '\n'.join(body) + '\n}')
    return '\n'.join(out)


def _template():
    with open(os.path.join(os.path.dirname(os.path.abspath(__file__)), 'template.rs'), encoding='utf-8') as f:
        t = f.read()
    if t.count('//@@GENERATED notification-table') != 1:
        raise Undecided('template.rs: marker for the generated notification table lost')
    return t.replace('//@@GENERATED notification-table', _generated())


# ---------------------------------------------------------------------------------------------
# contracts
# ---------------------------------------------------------------------------------------------
SPIN = '#[verifier::spinoff_prover]'
A, B = 'old(st).g@', 'final(st).g@'

HANDLER_RULES = ['async-seq-fn', ('async-defer-spawn', {'optional': True}), 'async-seq-await', 'c24-no-async-left']

OPEN = {
    'src': {'file': TD, 'kind': 'fn', 'name': 'on_did_open_text_document'},
    'rules': HANDLER_RULES + [
        ('c24-shared-state', {'calls': (('analysis', 'get_file_id'), ('analysis', 'update_file_by_uri'))}), 'c24-ghost-param'],
    'attrs': SPIN,
    'ret': 'r',
    'ensures': '''
            // a document that is processed — it is already known to the analysis or is a workspace file (the real `should_process`) —:
            // when the handler RETURNS the analysis has been given exactly this text, once, and nothing was left to a spawned task
            !%(A)s.in_task() && accepts(%(A)s, params.text_document.uri)
                ==> now(%(A)s, %(B)s, (params.text_document.uri, Some(params.text_document.text@))) /*@C27.open.applies-text-before-returning*/,
            // a document that is filtered out never reaches the analysis
            !%(A)s.in_task() && !accepts(%(A)s, params.text_document.uri) ==> %(B)s == %(A)s /*@C27.open.filtered-document-untouched*/,
            // (an instance of the handler that runs INSIDE a spawned task: nothing it does has happened for the main loop)
            %(A)s.in_task() ==> in_task_frame(%(A)s, %(B)s)''' % {'A': A, 'B': B},
}

CHANGE = {
    'src': {'file': TD, 'kind': 'fn', 'name': 'on_did_change_text_document'},
    'rules': HANDLER_RULES + [
        ('c24-shared-state', {'calls': (('analysis', 'get_file_id'), ('analysis', 'update_file_by_uri'))}), 'c24-ghost-param'],
    'attrs': SPIN,
    'ret': 'r',
    'ensures': '''
            // the server advertises FULL document sync (C27.capabilities.full-sync-advertised): the first content change carries the whole text.
            // A processed document: on return the analysis has been given exactly that text, once, nothing was left to a spawned task
            !%(A)s.in_task() && params.content_changes@.len() > 0 && accepts(%(A)s, params.text_document.uri)
                ==> now(%(A)s, %(B)s, (params.text_document.uri, Some(params.content_changes@[0].text@))) /*@C27.change.applies-text-before-returning*/,
            !%(A)s.in_task() && params.content_changes@.len() > 0 && !accepts(%(A)s, params.text_document.uri)
                ==> %(B)s == %(A)s /*@C27.change.filtered-document-untouched*/,
            // `content_changes.first()?`: a notification WITHOUT any content change says "nothing changed" and is ignored as a whole
            !%(A)s.in_task() && params.content_changes@.len() == 0 ==> %(B)s == %(A)s && r is None /*@C27.change.empty-change-list-is-a-no-op*/,
            %(A)s.in_task() ==> in_task_frame(%(A)s, %(B)s)''' % {'A': A, 'B': B},
}

CLOSE = {
    'src': {'file': TD, 'kind': 'fn', 'name': 'on_did_close_document'},
    'rules': HANDLER_RULES + [
        'letchain-nest',
        ('c24-shared-state', {'calls': (('analysis', 'get_file_id'), ('mut_analysis', 'get_file_id'), ('mut_analysis', 'remove_file_by_uri'),
                                        ('mut_analysis', 'update_file_by_uri'))}),
        ('write-guard-deref', {'optional': True}), 'c24-ghost-param'],
    'attrs': SPIN,
    'ret': 'r',
    'ensures': '''
            // "treated as closed", as the real handler has it: a document whose file is not on disk, or that is known to the analysis without
            // belonging to a workspace / library (no ModuleInfo), is REMOVED from the analysis before the handler returns ...
            !%(A)s.in_task() && close_removes(%(A)s, params.text_document.uri)
                ==> now(%(A)s, %(B)s, (params.text_document.uri, None)) /*@C27.close.non-workspace-document-removed-before-returning*/,
            // ... a document the analysis knows, a workspace / library file on disk: the editor's text is no longer the truth — the analysis is given
            // what the FILE holds (`(uri, sp_disk_text(p))`: an update with the disk text, or a removal when the file cannot be read)
            !%(A)s.in_task() && !close_removes(%(A)s, params.text_document.uri) && %(A)s.known.contains(params.text_document.uri)
                ==> (sp_path(params.text_document.uri) matches Some(p)
                    ==> now(%(A)s, %(B)s, (params.text_document.uri, sp_disk_text(p)))) /*@C27.close.closed-document-drops-editor-text*/,
            // ... a document the analysis does not know (or a module without a file path): nothing to forget
            !%(A)s.in_task() && close_effect(%(A)s, params.text_document.uri) is None ==> %(B)s == %(A)s /*@C27.close.unknown-document-untouched*/,
            %(A)s.in_task() ==> in_task_frame(%(A)s, %(B)s)''' % {'A': A, 'B': B},
}

NOTIFY = {
    # same construction as unit c24_dispatch: host of the slice = the macro definition (hash-tracked raw text); head / tail = signature and
    # body of on_notification_handler as extracted by c24's loader — the macro is defined locally in front of its single use
    'src': {'kind': 'slice', 'name': 'on_notification_handler', 'in': {'file': NH, 'kind': 'macro_rules', 'name': '!'},
            'from': r'\Amacro_rules!\s*dispatch_notification\b', 'to': r'\}\s*\Z', 'head': _c24._NHEAD, 'tail': _c24._NBODY},
    'rules': [('c24-macro-expand', {'name': 'dispatch_notification'}), 'c24-match-const-chain',
              'async-seq-fn', ('async-defer-spawn', {'optional': True}), 'async-seq-await', 'c24-no-async-left',
              ('c24-shared-state', {'callees': tuple(h for h, _ in TEXT_SYNC.values())}),
              'c24-ghost-param', 'c24-error-type-opaque', ('c24-log-drop', {'optional': True})],
    'attrs': SPIN,
    'ret': 'r',
    'body_first': 'proof { lemma_methods_distinct(); }',
    'requires': '!old(st).g@.in_task()',
    'ensures': '''
            r is Ok, !%(B)s.in_task(),
            // each of the three text-sync notifications is handled INLINE: when the dispatcher returns — i.e. before the main loop takes the next
            // message — the state is what the handler's contract says; the handler was not handed to the deferring spawn
            is_open(notification) ==> inline_post(%(A)s, %(B)s, note_of(notification)) /*@C27.dispatch.text-sync-notifications-are-not-spawned.didOpen*/,
            is_change(notification) ==> inline_post(%(A)s, %(B)s, note_of(notification)) /*@C27.dispatch.text-sync-notifications-are-not-spawned.didChange*/,
            is_close(notification) ==> inline_post(%(A)s, %(B)s, note_of(notification)) /*@C27.dispatch.text-sync-notifications-are-not-spawned.didClose*/,
            // any other notification (another method, params that do not deserialize): the dispatcher itself does nothing to the analysis
            !is_open(notification) && !is_change(notification) && !is_close(notification)
                ==> inline_post(%(A)s, %(B)s, Note::Other) /*@C27.dispatch.other-notifications-leave-the-log-alone*/''' % {'A': A, 'B': B},
}

HANDLE_MESSAGE = {
    'src': {'file': MP, 'kind': 'fn', 'impl': 'ServerMessageProcessor', 'name': 'handle_message'},
    'rules': ['async-seq-fn', 'async-seq-await', 'c24-no-async-left',
              ('c24-shared-state', {'callees': ('on_notification_handler',)}), 'c24-ghost-param', 'c24-error-type-opaque'],
    'attrs': SPIN,
    'ret': 'r',
    'requires': '!old(st).g@.in_task()',
    'ensures': '''
            // the loop piece: a notification taken from the connection is dispatched and handled to the end before handle_message returns
            // (the main loop calls handle_message for one message after the other, in receive order: unit c24_dispatch, C24.pending.*)
            (msg matches Message::Notification(n) ==> step(%(A)s, %(B)s, note_of(n))) /*@C27.loop.notification-handled-before-the-next-message*/,
            (msg matches Message::Notification(n) ==> r is Ok),
            !(msg is Notification) ==> %(B)s == %(A)s''' % {'A': A, 'B': B},
}

CAPS = {
    'src': {'file': TDM, 'kind': 'fn', 'impl': 'RegisterCapabilities for TextDocumentCapabilities', 'name': 'register_capabilities'},
    'rules': [('c27-unnamed-param', {})],
    'ensures': '''
            // the server asks for FULL document sync and for open / close notifications: every didChange carries the whole text
            (final(server_capabilities).text_document_sync matches Some(TextDocumentSyncCapability::Options(o))
                && o.change == Some(TextDocumentSyncKind::FULL) && o.open_close == Some(true)) /*@C27.capabilities.full-sync-advertised*/''',
}

_E = {r[0]: r for r in _c24.UNIT['extra_rules']}

# shared with unit c29_reload (which imports it): a `&self` method or a field of the analysis reached THROUGH the write guard
WRITE_GUARD_DEREF = ('write-guard-deref', r'\bmut_analysis(\s*)\.(compilation\b|get_file_id\()', r'mut_analysis.vx_deref()\1.\2',
                     'G.compilation / G.get_file_id(..) on the RwLockWriteGuard G of the analysis -> G.vx_deref().compilation / G.vx_deref().get_file_id(..): '
                     'the auto-deref of the method / field access made explicit (std: Deref for RwLockWriteGuard<T> returns the &T behind the lock); '
                     'vx_deref is an opaque shim returning &EmmyLuaAnalysis, whose read-side shims (get_file_id, compilation) are the ones the read guard uses')

UNIT = {
    'items': {
        'ServerContext': {'src': {'file': CTX, 'kind': 'struct', 'name': 'ServerContext'}, 'rules': [('struct-fields', {'keep': ['inner']})]},
        'ServerContext::snapshot': {'src': {'file': CTX, 'kind': 'fn', 'impl': 'ServerContext', 'name': 'snapshot'}},
        'Emmyrc': {'src': {'file': CA + 'config/mod.rs', 'kind': 'struct', 'name': 'Emmyrc'},
                   'rules': [('struct-fields', {'keep': ['diagnostics', 'workspace']})]},
        'EmmyrcDiagnostic': {'src': {'file': CA + 'config/configs/diagnostics.rs', 'kind': 'struct', 'name': 'EmmyrcDiagnostic'},
                             'rules': [('struct-fields', {'keep': ['diagnostic_interval']})]},
        'EmmyrcWorkspace': {'src': {'file': CA + 'config/configs/workspace.rs', 'kind': 'struct', 'name': 'EmmyrcWorkspace'},
                            'rules': [('struct-fields', {'keep': ['encoding', 'enable_reindex']})]},
        'on_did_open_text_document': OPEN,
        'on_did_change_text_document': CHANGE,
        'on_did_close_document': CLOSE,
        'on_notification_handler': NOTIFY,
        'ServerMessageProcessor::handle_message': HANDLE_MESSAGE,
        'TextDocumentCapabilities::register_capabilities': CAPS,
    },
    'extra_rules': [
        _E['c24-error-type-opaque'], _E['c24-log-drop'], WRITE_GUARD_DEREF,
        ('c27-unnamed-param', r'\(server_capabilities: &mut ServerCapabilities, _: &ClientCapabilities\)',
         '(server_capabilities: &mut ServerCapabilities, _client_capabilities: &ClientCapabilities)',
         'the unused parameter `_` gets a name (a wildcard parameter pattern binds nothing; naming it changes nothing)'),
    ],
    'allow': [r'external_body', r'uninterp'],
    'min_obligations': 32,
    'trusted': [
        'THE SCHEDULE MODEL. (1) `.await` on a future that was NOT spawned runs it to completion at that point (rules async-seq-fn / async-seq-await, '
        'unit c36_channel\'s): the main loop does not take the next message before the awaited handler has returned — this is what "sync group" means. '
        '(2) rule async-defer-spawn (this unit): `tokio::spawn(async move { BODY })` — NOTHING BODY does to the analysis has happened when the spawning '
        'fn returns; its calls are recorded in the unordered ghost multiset `deferred` (any later time, any order, possibly never before the next '
        'message), and what BODY reads of the current state is unconstrained. This is the conservative reading (c24 / c36 run BODY at the spawn point, '
        'which cannot tell the sync group from the async group). (3) predicate `chain` of the sequence lemmas: between two turns of the main loop NOTHING '
        'ELSE appends to the ordered log `applied` or changes `known` — i.e. no spawned task updates the analysis for a document of the sequence while '
        'the sequence is handled (true once `deferred` gains nothing from the three methods, which the dispatch clauses prove; the other writers of the '
        'analysis — reload / reindex, didChangeWatchedFiles, didRenameFiles, configuration changes — are C29 and not covered)',
        'ghost state `st` (c24\'s rules c24-shared-state / c24-ghost-param): `applied` / `deferred` / `known` / `depth` are written only by the shims of '
        'EmmyLuaAnalysis::{update_file_by_uri, remove_file_by_uri} (one log entry per call, in call order) and by the two brackets of async-defer-spawn; '
        '`get_file_id(uri).is_some()` on the main loop == `known.contains(uri)`; update makes the uri known, removal forgets it (vfs file_id / remove_file: '
        'unit c22_vfs / c10 territory). "The document is analysed with text t" == the last entry of `applied` about its uri is (uri, Some(t)) '
        '(Vfs::set_file_content stores the text and the index is rebuilt from it: not re-proved here)',
        'tokio::sync::RwLock as access only: `read().await` gives `&T`, `write().await` a guard through which the `&mut self` methods are called; no '
        'fairness, no deadlock modelling (C28); std::mem::drop releases a guard and does nothing else',
        'uninterpreted facts, constant while the sequence is handled: sp_is_workspace_file(uri) (WorkspaceManager::is_workspace_file: workspace folders, '
        'libraries, ignore globs), sp_path(uri) (uri_to_file_path), sp_on_disk(path) (Path::exists: the file system), sp_disk_text(path) (read_file_with_encoding: '
        'the decoded content of the file, None when unreadable), sp_is_module_file(uri) (the module '
        'index has a ModuleInfo for the document: its path lies under a workspace root or library). A configuration / workspace-folder change or a file '
        'created / deleted on disk in the middle of the sequence is not modelled',
        'FileId is an opaque token that remembers the uri it was looked up for (sp_uri); LuaModuleIndex::get_module(file_id) is Some iff sp_is_module_file of that uri',
        'lsp_server 0.7.9 `Notification::extract` (Ok iff the method matches and the params deserialize; the value is `parsed::<P>(params)`), '
        '`deserializes` / `parsed` uninterpreted (nothing is assumed about serde); lsp_types (emmy_lsp_types 0.1.0) parameter structs of the three '
        'notifications and the TextDocumentSync* capability types transcribed as data; the METHOD strings and `type Params` are read from the vendored '
        'crate at load time (Undecided when they differ from the transcription)',
        'macro expansion: unit c24_dispatch\'s rule c24-macro-expand (mrules.py) implements macro_rules transcription for the single-rule, one-level-repetition '
        'shape of dispatch_notification!; it is not rustc\'s expander. Cross-check: replay/c27 (cargo crate, the real server over stdio) observes the same behaviour on the compiled server',
        'opaque shims without contract and WITHOUT the ghost state: WorkspaceManager::{sync_open_file, close_open_file, extend_reindex_delay}, '
        'FileDiagnostic::{add_diagnostic_task, clear_push_file_diagnostics}, LspFeatures::supports_pull_diagnostic (arbitrary bool), get_emmyrc (arbitrary '
        'configuration), ServerContextSnapshot accessors, the six other notification handlers, handle_cancel, on_request_handler, on_response_handler, '
        'handle_shutdown, ServerContext::close — assumed not to update the analysis before they return (request tasks only read it)',
        'vstd: String / str equality and `clone`, Vec::first (slice), Option::{unwrap_or, is_some, is_none}, `?` on Option, Arc deref, reveal_strlit on the METHOD literals',
    ],
    'not_covered': [
        'reload / reindex racing with notifications (C29): reload_workspace re-applies the open-file overlay kept by sync_open_file / close_open_file; no clause '
        'depends on sync_open_file here, so dropping it is invisible to this unit',
        'debounced diagnostics (C30): add_diagnostic_task / clear_push_file_diagnostics are opaque; which text a diagnostic run sees is not claimed',
        'lock fairness and deadlock freedom (C28); the real tokio scheduling of the ASYNC group (only: "not before the spawner returns, in no order")',
        'the other writers of the analysis: didChangeWatchedFiles, didRenameFiles, didChangeConfiguration, didSave (reindex) — opaque, spawned',
        'a didChange with SEVERAL content changes: LSP applies them in order, so under FULL sync the LAST one is the document; the handler analyses the '
        'FIRST (`content_changes.first()`). Clients send exactly one full-text change under FULL sync, so the contract speaks about element 0; '
        'OBSERVATION, not claimed either way',
        'documents that are filtered out (`should_process` false: unknown to the analysis and not a workspace file) are never analysed, by design of the '
        'handler; the sequence clause is stated for processed documents (unconditionally for workspace files)',
        'didClose of a document that is known to the analysis, has a ModuleInfo but NO file path (sp_path None): the handler leaves it untouched '
        '(C27.close.unknown-document-untouched covers it as a no-op); the module index keys modules by path, so no such document is expected — not proved',
        'that the re-read at didClose sees the content the client last SAVED (file-system timing), and the encoding label handed to read_file_with_encoding '
        '(the result is the uninterpreted sp_disk_text(path)); C29 "every closed file reflects its on-disk content" beyond this one handler',
        'messages queued during initialization (process_pending_messages) and the order in which the main loop takes messages: unit c24_dispatch (C24.pending.*)',
        'Vfs::set_file_content / remove_file and the index update themselves (units c22_vfs, c09, c10)',
    ],
    'samples': [
        'on_did_open_text_document(ctx, {uri, text}) on the main loop, uri known or a workspace file: applied\' == applied ++ [(uri, Some(text))], deferred\' == deferred, known\' == known + {uri}; otherwise st\' == st',
        'on_did_change_text_document(ctx, {uri, content_changes}) : |content_changes| > 0 and processed -> applied\' == applied ++ [(uri, Some(content_changes[0].text))]; |content_changes| == 0 -> st\' == st, returns None',
        'on_did_close_document(ctx, {uri}) : (path(uri) = Some(p) and p not on disk) or (uri known and no ModuleInfo) -> applied\' == applied ++ [(uri, None)], known\' == known - {uri}; '
        'else uri known with path p -> applied\' == applied ++ [(uri, disk_text(p))] (an update with the file\'s text, a removal when it cannot be read); else st\' == st',
        'on_notification_handler(n): Ok; method == "textDocument/didOpen" | "textDocument/didChange" | "textDocument/didClose" with deserializable params -> inline_post(st, st\', note_of(n)) '
        '[FAILED before /repo d31e85b for didOpen and didClose: both sat in the `async:` group, their update landed in `deferred`]',
        'handle_message(Notification(n)): step(st, st\', note_of(n)) — the notification has been handled to the end when handle_message returns',
        'lemma_last_notification_wins(states, notes, u, j): chain && notes[j] is the last note about u && it is a processed didOpen / didChange with text t ==> last_for(final.applied, u) == Some(Some(t))',
        'lemma_open_then_change: didOpen(u, t1) processed at turn i, didChange(u, t2) at turn j > i the last note about u, no didClose(u) between ==> last_for(final.applied, u) == Some(Some(t2))',
        'register_capabilities: text_document_sync == Some(Options { change: Some(FULL), open_close: Some(true), .. })',
    ],
    'findings': [
        'FIXED by /repo commit d31e85b (= proposed_fix_text_sync_inline.diff). Before it C27.dispatch.text-sync-notifications-are-not-spawned.didOpen / .didClose FAILED: '
        'DidOpenTextDocument and DidCloseTextDocument were in the `async:` group of dispatch_notification! (handlers/notification_handler.rs), DidChangeTextDocument in '
        'the `sync:` group. Message sequence: didOpen(u, t1); didChange(u, t2) back to back — the didOpen task is spawned, the didChange is handled inline and applies t2, '
        'then the didOpen task applies t1: the analysis stays on t1 while the client\'s document is t2. Replay: replay/c27 (`replay open-change`), FOUND on the tree with '
        'the fix reverted, 0 of 12 on the repaired tree',
    ],
    'mutants': [
        # (`<method>-moved-to-the-async-group`, one per text-sync entry that sits in the sync group of the current tree, are appended below)
        {'name': 'change-update-inside-a-spawned-task', 'item': 'on_did_change_text_document',
         'pattern': r'let file_id = analysis\.update_file_by_uri\(&uri, Some\(text\)\);',
         'repl': 'let file_id: Option<FileId> = None; { let context = context.clone(); let uri = uri.clone(); '
                 'tokio::spawn(async move { let mut analysis = context.analysis().write().await; analysis.update_file_by_uri(&uri, Some(text)); }); }',
         'expect': r'C27\.change\.applies-text-before-returning'},
        {'name': 'open-returns-before-the-update-when-pull-diagnostics', 'item': 'on_did_open_text_document',
         'pattern': r'(if !should_process \{\s*return None;\s*\})',
         'repl': r'\1 if context.lsp_features().supports_pull_diagnostic() { return Some(()); }',
         'expect': r'C27\.open\.applies-text-before-returning'},
        {'name': 'change-filter-forgets-known-documents', 'item': 'on_did_change_text_document',
         'pattern': r'if old_file_id\.is_some\(\) \{', 'repl': 'if old_file_id.is_some() && false {',
         'expect': r'C27\.change\.applies-text-before-returning'},
        {'name': 'open-applies-the-text-twice', 'item': 'on_did_open_text_document',
         'pattern': r'(let file_id = analysis\.update_file_by_uri\(&uri, Some\(text\)\);)',
         'repl': r'analysis.update_file_by_uri(&uri, Some(text.clone())); \1',
         'expect': r'C27\.open\.applies-text-before-returning'},
        {'name': 'close-keeps-a-document-that-is-not-on-disk', 'item': 'on_did_close_document',
         'pattern': r'mut_analysis\.remove_file_by_uri\(uri\);', 'repl': '',
         'expect': r'C27\.close\.non-workspace-document-removed-before-returning'},
        {'name': 'close-keeps-the-editor-text', 'item': 'on_did_close_document',
         'pattern': r'\} else if let Some\(path\) = uri_to_file_path\(uri\) \{.*?\n    \}\n(\s*Some\(\(\)\)\s*\}\s*)$', 'repl': r'}\n\1',
         'expect': r'C27\.close\.closed-document-drops-editor-text'},
        {'name': 'close-keeps-the-editor-text-when-the-file-is-unreadable', 'item': 'on_did_close_document',
         'pattern': r'None => \{\s*mut_analysis\.remove_file_by_uri\(uri\);\s*\}', 'repl': 'None => {}',
         'expect': r'C27\.close\.closed-document-drops-editor-text'},
        {'name': 'loop-drops-the-notification', 'item': 'ServerMessageProcessor::handle_message',
         'pattern': r'(on_notification_handler\(notify, server_context\)\.await\?;)', 'repl': r'if false { \1 }',
         'expect': r'C27\.loop\.notification-handled-before-the-next-message'},
        {'name': 'incremental-sync-advertised', 'item': 'TextDocumentCapabilities::register_capabilities',
         'pattern': r'TextDocumentSyncKind::FULL', 'repl': 'TextDocumentSyncKind::INCREMENTAL',
         'expect': r'C27\.capabilities\.full-sync-advertised'},
    ],
}
# the seeded / historical defect reduced to its core: a text-sync entry of the `sync:` group is moved to the `async:` group. On the tree before
# commit d31e85b DidOpenTextDocument and DidCloseTextDocument sat there without any edit (the .didOpen / .didClose clauses failed on the unchanged tree).
for _t, _short in (('DidOpenTextDocument', 'didOpen'), ('DidChangeTextDocument', 'didChange'), ('DidCloseTextDocument', 'didClose')):
    if _t in {t for t, _ in _c24.NSYNC}:
        _entry = r'%s => %s,' % (_t, TEXT_SYNC[_t][0])
        UNIT['mutants'].insert(0, {
            'name': '%s-moved-to-the-async-group' % _short, 'item': 'on_notification_handler',
            'pattern': r'(sync: \{[^}]*?)' + _entry + r'([^}]*\}\s*async: \{)', 'repl': r'\1\2 ' + _entry,
            'expect': r'C27\.dispatch\.text-sync-notifications-are-not-spawned\.%s' % _short})
UNIT['template_text'] = _template()
