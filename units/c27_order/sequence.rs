// ---- the sequence lemmas: proved from the contracts (predicate `step` = what handle_message guarantees for one notification) -------------------
/// the document a note is about
pub open spec fn about(n: Note) -> Option<Uri> {
    match n { Note::Open(u, _) => Some(u), Note::Change(u, _) => Some(u), Note::Close(u) => Some(u), Note::Other => None }
}
pub open spec fn turn(states: Seq<St>, notes: Seq<Note>, i: int) -> bool { step(states[i], states[i + 1], notes[i]) }
/// The main loop handled notes[0], notes[1], .. in this (message) order, starting in states[0]; states[i + 1] is the state when the i-th turn
/// returns. THE SCHEDULE MODEL: between two turns nothing else appends to the ordered log (see `trusted`).
pub open spec fn chain(states: Seq<St>, notes: Seq<Note>) -> bool {
    states.len() == notes.len() + 1 && forall|i: int| 0 <= i < notes.len() ==> #[trigger] turn(states, notes, i)
}
/// What the analysis holds for `u` after the calls of `log`: None = no call about u, Some(None) = removed, Some(Some(t)) = analysed with text t
pub open spec fn last_for(log: Seq<Eff>, u: Uri) -> Option<Option<Seq<char>>>
    decreases log.len()
{
    if log.len() == 0 { None } else if log.last().0 == u { Some(log.last().1) } else { last_for(log.drop_last(), u) }
}
pub open spec fn no_later_note_about(notes: Seq<Note>, u: Uri, j: int) -> bool {
    forall|k: int| j < k < notes.len() ==> about(#[trigger] notes[k]) != Some(u)
}

pub proof fn lemma_last_for_push(log: Seq<Eff>, e: Eff, u: Uri)
    ensures last_for(log.push(e), u) == (if e.0 == u { Some(e.1) } else { last_for(log, u) }),
{
    assert(log.push(e).drop_last() =~= log);
    assert(log.push(e).last() == e);
}

/// a turn about ANOTHER document (or about none) changes neither what the analysis holds for `u` nor whether it knows `u`
pub proof fn lemma_turn_about_another(a: St, b: St, n: Note, u: Uri)
    requires step(a, b, n), about(n) != Some(u),
    ensures last_for(b.applied, u) == last_for(a.applied, u), b.known.contains(u) == a.known.contains(u),
{
    match n {
        Note::Open(v, t) => { lemma_last_for_push(a.applied, (v, Some(t)), u); }
        Note::Change(v, t) => { lemma_last_for_push(a.applied, (v, Some(t)), u); }
        Note::Close(v) => { match close_effect(a, v) { Some(e) => { lemma_last_for_push(a.applied, e, u); } None => {} } }
        Note::Other => {}
    }
}

/// the turns j .. end are about other documents: what the analysis holds for `u` at the end is what it held after turn j - 1
pub proof fn lemma_untouched_suffix(states: Seq<St>, notes: Seq<Note>, u: Uri, j: int)
    requires chain(states, notes), 0 <= j <= notes.len(), no_later_note_about(notes, u, j - 1),
    ensures last_for(states.last().applied, u) == last_for(states[j].applied, u), states.last().known.contains(u) == states[j].known.contains(u),
    decreases notes.len() - j
{
    if j < notes.len() {
        assert(turn(states, notes, j));
        lemma_turn_about_another(states[j], states[j + 1], notes[j], u);
        lemma_untouched_suffix(states, notes, u, j + 1);
    }
}

/// C27, the sequence clause. After the main loop has handled n_0 .. n_{k-1} in message order, let n_j be the LAST didOpen / didChange / didClose
/// about `u`. Then the last call the analysis received about `u` is the one of n_j:
pub proof fn lemma_last_notification_wins(states: Seq<St>, notes: Seq<Note>, u: Uri, j: int)
    requires chain(states, notes), 0 <= j < notes.len(), about(notes[j]) == Some(u), no_later_note_about(notes, u, j),
    ensures
        // a didOpen / didChange of a processed document (known to the analysis or a workspace file, the handlers' `should_process`): its text
        notes[j] matches Note::Open(_, t) ==> accepts(states[j], u) ==> last_for(states.last().applied, u) == Some(Some(t)) /*@C27.sequence.last-notification-wins*/,
        notes[j] matches Note::Change(_, t) ==> accepts(states[j], u) ==> last_for(states.last().applied, u) == Some(Some(t)) /*@C27.sequence.last-notification-wins*/,
        // ... and the analysis knows the document
        (notes[j] is Open || notes[j] is Change) && accepts(states[j], u) ==> states.last().known.contains(u),
        // a didClose of a document that is not on disk / belongs to no workspace: removed, the analysis does not know it any more
        (notes[j] is Close && close_removes(states[j], u)) ==> last_for(states.last().applied, u) == Some(None::<Seq<char>>)
            && !states.last().known.contains(u) /*@C27.sequence.document-closed-last-is-closed*/,
        // a didClose of a document the analysis knows, a workspace / library file on disk: the analysis holds what the FILE holds (or nothing,
        // when the file cannot be read) — never the editor's text
        (notes[j] is Close && !close_removes(states[j], u) && states[j].known.contains(u)) ==> (sp_path(u) matches Some(p)
            ==> last_for(states.last().applied, u) == Some(sp_disk_text(p))) /*@C27.sequence.closed-document-reflects-disk*/,
        // a didClose of a document the analysis does not know (its file is on disk): nothing to forget, nothing changes
        (notes[j] is Close && close_effect(states[j], u) is None) ==> last_for(states.last().applied, u) == last_for(states[j].applied, u),
{
    assert(turn(states, notes, j));
    let (a, b) = (states[j], states[j + 1]);
    match notes[j] {
        Note::Open(v, t) => { lemma_last_for_push(a.applied, (v, Some(t)), u); }
        Note::Change(v, t) => { lemma_last_for_push(a.applied, (v, Some(t)), u); }
        Note::Close(v) => { match close_effect(a, v) { Some(e) => { lemma_last_for_push(a.applied, e, u); } None => {} } }
        Note::Other => {}
    }
    lemma_untouched_suffix(states, notes, u, j + 1);
}

/// a document the analysis knows stays known until a didClose about it
pub proof fn lemma_known_until_closed(states: Seq<St>, notes: Seq<Note>, u: Uri, i: int, j: int)
    requires chain(states, notes), 0 <= i <= j <= notes.len(), states[i].known.contains(u),
        forall|k: int| i <= k < j ==> #[trigger] notes[k] != Note::Close(u),
    ensures states[j].known.contains(u),
    decreases j - i
{
    if i < j {
        lemma_known_until_closed(states, notes, u, i, j - 1);
        assert(turn(states, notes, j - 1));
        if about(notes[j - 1]) != Some(u) { lemma_turn_about_another(states[j - 1], states[j], notes[j - 1], u); }
    }
}

/// "A quick didOpen followed by didChange never leaves the analysis on the didOpen text": didOpen(u, t1) of a processed document at turn i, the
/// last notification about u is a didChange(u, t2) at turn j > i, no didClose(u) between them — the analysis ends with t2 (the didChange is
/// processed because the didOpen has ALREADY made the document known when its turn returns)
pub proof fn lemma_open_then_change(states: Seq<St>, notes: Seq<Note>, u: Uri, i: int, j: int, t1: Seq<char>, t2: Seq<char>)
    requires chain(states, notes), 0 <= i < j < notes.len(),
        notes[i] == Note::Open(u, t1), accepts(states[i], u), notes[j] == Note::Change(u, t2),
        forall|k: int| i < k < j ==> #[trigger] notes[k] != Note::Close(u), no_later_note_about(notes, u, j),
    ensures last_for(states.last().applied, u) == Some(Some(t2)) /*@C27.sequence.open-then-change-ends-with-the-change-text*/,
{
    assert(turn(states, notes, i));
    assert(states[i + 1].known.contains(u));
    lemma_known_until_closed(states, notes, u, i + 1, j);
    lemma_last_notification_wins(states, notes, u, j);
}

/// a workspace file is processed whatever the analysis knows: for it the sequence clause holds unconditionally
pub proof fn lemma_workspace_file_last_text_wins(states: Seq<St>, notes: Seq<Note>, u: Uri, j: int, t: Seq<char>)
    requires chain(states, notes), 0 <= j < notes.len(), sp_is_workspace_file(u), no_later_note_about(notes, u, j),
        notes[j] == Note::Open(u, t) || notes[j] == Note::Change(u, t),
    ensures last_for(states.last().applied, u) == Some(Some(t)) /*@C27.sequence.last-notification-wins.workspace-file*/,
{
    lemma_last_notification_wins(states, notes, u, j);
}

/// none of the three kinds of turn leaves anything to a spawned task
pub proof fn lemma_nothing_deferred(states: Seq<St>, notes: Seq<Note>, i: int)
    requires chain(states, notes), 0 <= i < notes.len(), about(notes[i]) is Some,
    ensures states[i + 1].deferred == states[i].deferred /*@C27.sequence.nothing-left-to-spawned-tasks*/,
{
    assert(turn(states, notes, i));
}

/// the hypotheses of the sequence lemmas are not contradictory: a one-turn chain exists for a processed didOpen
pub proof fn lemma_chain_inhabited(s0: St, u: Uri, t: Seq<char>)
    requires !s0.in_task(), accepts(s0, u),
    ensures exists|states: Seq<St>| chain(states, seq![Note::Open(u, t)]) && states[0] == s0
        && last_for(states.last().applied, u) == Some(Some(t)),
{
    let s1 = St { applied: s0.applied.push((u, Some(t))), deferred: s0.deferred, known: s0.known.insert(u), depth: s0.depth };
    let states = seq![s0, s1];
    let notes = seq![Note::Open(u, t)];
    assert(turn(states, notes, 0));
    assert(chain(states, notes));
    lemma_last_for_push(s0.applied, (u, Some(t)), u);
}

/// the log and the main loop's view agree: a document for which the analysis was last given a text is known
pub open spec fn consistent(s: St) -> bool {
    forall|u: Uri| (#[trigger] last_for(s.applied, u) matches Some(Some(_))) ==> s.known.contains(u)
}
pub proof fn lemma_turn_keeps_consistent(a: St, b: St, n: Note)
    requires step(a, b, n), consistent(a),
    ensures consistent(b),
{
    assert forall|u: Uri| (#[trigger] last_for(b.applied, u) matches Some(Some(_))) implies b.known.contains(u) by {
        if about(n) != Some(u) {
            lemma_turn_about_another(a, b, n, u);
        } else {
            match n {
                Note::Open(v, t) => { lemma_last_for_push(a.applied, (v, Some(t)), u); }
                Note::Change(v, t) => { lemma_last_for_push(a.applied, (v, Some(t)), u); }
                Note::Close(v) => { match close_effect(a, v) { Some(e) => { lemma_last_for_push(a.applied, e, u); } None => {} } }
                Note::Other => {}
            }
        }
    }
}
pub proof fn lemma_consistent_prefix(states: Seq<St>, notes: Seq<Note>, j: int)
    requires chain(states, notes), consistent(states[0]), 0 <= j <= notes.len(),
    ensures consistent(states[j]),
    decreases j
{
    if j > 0 {
        lemma_consistent_prefix(states, notes, j - 1);
        assert(turn(states, notes, j - 1));
        lemma_turn_keeps_consistent(states[j - 1], states[j], notes[j - 1]);
    }
}

/// "never the editor's text": when the last notification about a document WITH A FILE PATH is a didClose, the analysis ends with the disk text of
/// its file or without any text for it — whatever didOpen / didChange texts came before (started from a consistent state)
pub proof fn lemma_closed_document_drops_editor_text(states: Seq<St>, notes: Seq<Note>, u: Uri, j: int, p: PathBuf)
    requires chain(states, notes), consistent(states[0]), 0 <= j < notes.len(), notes[j] == Note::Close(u), no_later_note_about(notes, u, j),
        sp_path(u) == Some(p),
    ensures
        last_for(states.last().applied, u) == Some(sp_disk_text(p)) || !(last_for(states.last().applied, u) matches Some(Some(_))) /*@C27.sequence.closed-document-drops-editor-text*/,
{
    lemma_last_notification_wins(states, notes, u, j);
    lemma_consistent_prefix(states, notes, j);
    if close_effect(states[j], u) is None {
        // not removed, and the only None branch left for a document with a path: the analysis does not know it, so (consistent) it holds no text
        assert(!states[j].known.contains(u));
        assert(!(last_for(states[j].applied, u) matches Some(Some(_))));
    }
}
