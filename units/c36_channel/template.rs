// unit c36_channel — C36 "exit status and reports match the diagnostics": the task / channel bookkeeping.
//   * slice of `run_check` (emmylua_check/src/lib.rs): file selection, one task + one message per file, the completion count
//   * `output_result` (emmylua_check/src/output/mod.rs), whole fn: the receive loop, the per-file body, finish, exit code
//   * `LuaModuleIndex::get_main_workspace_file_ids` (emmylua_code_analysis): which files are checked
// The async text is verified in its SEQUENTIAL SCHEDULE (rule family `async-seq`, see unit.py): what is proved is WHICH
// messages are sent and consumed, not when.
#![feature(allocator_api)]
use vstd::prelude::*;
use std::alloc::Allocator;
use std::collections::HashMap;
use std::sync::Arc;
verus! {

// ---- real data types --------------------------------------------------------------------------
//@@ FileId
//@@ WorkspaceId
impl WorkspaceId {
    //@@ WorkspaceId::MAIN
}
//@@ ModuleInfo
//@@ LuaModuleIndex

// ---- shims: lsp_types (same text as unit c36_exit) -----------------------------------------------
/// lsp_types::DiagnosticSeverity: a transparent i32 newtype with associated consts ERROR=1 … HINT=4,
/// derive(PartialOrd) compares the integers.
#[derive(Clone, Copy, PartialEq, Eq, Debug)]
pub struct DiagnosticSeverity(pub i32);
impl DiagnosticSeverity {
    pub const ERROR: DiagnosticSeverity = DiagnosticSeverity(1);
    pub const WARNING: DiagnosticSeverity = DiagnosticSeverity(2);
    pub const INFORMATION: DiagnosticSeverity = DiagnosticSeverity(3);
    pub const HINT: DiagnosticSeverity = DiagnosticSeverity(4);
}
impl vstd::std_specs::cmp::PartialOrdSpecImpl for DiagnosticSeverity {
    open spec fn obeys_partial_cmp_spec() -> bool { true }
    open spec fn partial_cmp_spec(&self, other: &DiagnosticSeverity) -> Option<core::cmp::Ordering> {
        if self.0 < other.0 { Some(core::cmp::Ordering::Less) }
        else if self.0 == other.0 { Some(core::cmp::Ordering::Equal) }
        else { Some(core::cmp::Ordering::Greater) }
    }
}
impl PartialOrd for DiagnosticSeverity {
    fn partial_cmp(&self, other: &DiagnosticSeverity) -> Option<core::cmp::Ordering> {
        if self.0 < other.0 { Some(core::cmp::Ordering::Less) }
        else if self.0 == other.0 { Some(core::cmp::Ordering::Equal) }
        else { Some(core::cmp::Ordering::Greater) }
    }
}
pub mod lsp_types {
    pub use super::DiagnosticSeverity;
}
#[derive(Debug)]
pub struct Diagnostic { pub severity: Option<DiagnosticSeverity>, pub id: u64 }

/// one channel message: a file and what `diagnose_file` returned for it
pub type Msg = (FileId, Option<Vec<Diagnostic>>);

// ---- std contract (trusted, same text as unit c36_exit): Vec::retain keeps exactly the elements for which the predicate holds, in order
pub open spec fn filter_by<T>(s: Seq<T>, keep: Seq<bool>) -> Seq<T>
    decreases s.len()
{
    if s.len() == 0 || keep.len() != s.len() { Seq::empty() }
    else if keep.last() { filter_by(s.drop_last(), keep.drop_last()).push(s.last()) }
    else { filter_by(s.drop_last(), keep.drop_last()) }
}

pub assume_specification<T, A: Allocator, F: FnMut(&T) -> bool>[ Vec::<T, A>::retain ](v: &mut Vec<T, A>, f: F)
    requires
        forall|i: int| 0 <= i < old(v)@.len() ==> call_requires(f, (&#[trigger] old(v)@[i],)),
    ensures
        exists|keep: Seq<bool>| keep.len() == old(v)@.len()
            && (forall|i: int| 0 <= i < keep.len() ==> call_ensures(f, (&old(v)@[i],), #[trigger] keep[i]))
            && final(v)@ == filter_by(old(v)@, keep);

// ---- property vocabulary (first five: same text as unit c36_exit) ------------------------------
/// `--severity` keeps a diagnostic iff it has a severity at or above the threshold (numerically <=)
pub open spec fn threshold(f: DiagnosticSeverityFilter) -> int {
    match f {
        DiagnosticSeverityFilter::Error => 1,
        DiagnosticSeverityFilter::Warn => 2,
        DiagnosticSeverityFilter::Info => 3,
        DiagnosticSeverityFilter::Hint => 4,
    }
}
pub open spec fn passes(filter: Option<DiagnosticSeverityFilter>, d: Diagnostic) -> bool {
    match filter {
        None => true,
        Some(f) => (d.severity matches Some(s) && s.0 <= threshold(f)),
    }
}
/// "is an error, or a warning under --warnings-as-errors"
pub open spec fn is_err(d: Diagnostic, wae: bool) -> bool {
    (d.severity matches Some(s) && s.0 == 1) || (wae && (d.severity matches Some(s) && s.0 == 2))
}
pub open spec fn any_err(ds: Seq<Diagnostic>, wae: bool) -> bool {
    exists|i: int| 0 <= i < ds.len() && is_err(#[trigger] ds[i], wae)
}
/// order-preserving sub-sequence of `all` holding exactly the elements that pass the filter
pub open spec fn is_filtered(all: Seq<Diagnostic>, filter: Option<DiagnosticSeverityFilter>, out: Seq<Diagnostic>) -> bool {
    exists|keep: Seq<bool>| keep.len() == all.len()
        && (forall|i: int| 0 <= i < keep.len() ==> #[trigger] keep[i] == passes(filter, all[i]))
        && out == filter_by(all, keep)
}
/// the same as a function: THE filtered list ("the diagnostics after the severity filter")
pub open spec fn filtered(all: Seq<Diagnostic>, filter: Option<DiagnosticSeverityFilter>) -> Seq<Diagnostic> {
    filter_by(all, Seq::new(all.len(), |i: int| passes(filter, all[i])))
}
/// what the report must contain for a sequence of channel messages: for every message that carries diagnostics, one entry
/// under the message's own file id with exactly the filtered diagnostics, in message order; nothing else
pub open spec fn reports(msgs: Seq<Msg>, filter: Option<DiagnosticSeverityFilter>) -> Seq<(FileId, Seq<Diagnostic>)>
    decreases msgs.len()
{
    if msgs.len() == 0 { Seq::empty() }
    else {
        match msgs.last().1 {
            Some(ds) => reports(msgs.drop_last(), filter).push((msgs.last().0, filtered(ds@, filter))),
            None => reports(msgs.drop_last(), filter),
        }
    }
}
/// "a reported diagnostic, after the severity filter, is an error, or a warning under --warnings-as-errors"
pub open spec fn any_reported_err(msgs: Seq<Msg>, filter: Option<DiagnosticSeverityFilter>, wae: bool) -> bool {
    exists|i: int| 0 <= i < msgs.len() && msg_has_err(#[trigger] msgs[i], filter, wae)
}
pub open spec fn msg_has_err(m: Msg, filter: Option<DiagnosticSeverityFilter>, wae: bool) -> bool {
    m.1 matches Some(ds) && any_err(filtered(ds@, filter), wae)
}
/// number of diagnostics carried by the messages (bounds the usize tallies)
pub open spec fn total_diags(msgs: Seq<Msg>) -> nat
    decreases msgs.len()
{
    if msgs.len() == 0 { 0 }
    else {
        total_diags(msgs.drop_last()) + (match msgs.last().1 { Some(ds) => ds@.len(), None => 0 })
    }
}

// ---- the channel, sequential model (rule family `async-seq`) ---------------------------------------
/// The state shared by the `Sender`s and the `Receiver` of ONE `tokio::sync::mpsc::channel`, made an explicit parameter by
/// rule `async-seq-chan`: `sent` = every message ever sent, in send order; `read` = how many of them the receiver has
/// received; `live` = number of `Sender` handles not yet dropped. The capacity is not modelled (a full channel only delays a
/// sender; delays are outside the sequential schedule).
pub struct Chan<T> { pub id: Ghost<int>, pub sent: Ghost<Seq<T>>, pub read: Ghost<nat>, pub live: Ghost<nat> }
impl<T> Chan<T> {
    pub open spec fn wf(&self) -> bool { self.read@ <= self.sent@.len() }
    /// the messages not yet received
    pub open spec fn unread(&self) -> Seq<T> { self.sent@.skip(self.read@ as int) }
}
#[verifier::external_body]
#[verifier::reject_recursive_types(T)]
pub struct Sender<T> { _p: core::marker::PhantomData<T> }
#[verifier::external_body]
#[verifier::reject_recursive_types(T)]
pub struct Receiver<T> { _p: core::marker::PhantomData<T> }
#[verifier::external_body]
#[verifier::reject_recursive_types(T)]
#[derive(Debug)]
pub struct SendError<T> { _p: core::marker::PhantomData<T> }
impl<T> Sender<T> {
    /// which channel this handle belongs to
    pub uninterp spec fn chan(&self) -> int;
    /// tokio: "Sends a value, waiting until there is capacity. A successful send occurs when it is determined that the other
    /// end of the channel has not hung up already." In the sequential schedule the receiver is alive whenever a task runs
    /// (it is dropped only when `output_result` returns, after every task), so the send succeeds and appends to the log.
    #[verifier::external_body]
    pub fn send(&self, value: T, ch: &mut Chan<T>) -> (r: Result<(), SendError<T>>)
        requires self.chan() == old(ch).id@, old(ch).live@ >= 1,
        ensures r is Ok, final(ch).sent@ == old(ch).sent@.push(value),
            final(ch).id == old(ch).id, final(ch).read == old(ch).read, final(ch).live == old(ch).live,
    { unimplemented!() }
    /// `Clone for Sender`: one more live handle of the same channel
    #[verifier::external_body]
    pub fn clone(&self, ch: &mut Chan<T>) -> (r: Sender<T>)
        requires self.chan() == old(ch).id@,
        ensures r.chan() == self.chan(), final(ch).live@ == old(ch).live@ + 1,
            final(ch).id == old(ch).id, final(ch).sent == old(ch).sent, final(ch).read == old(ch).read,
    { unimplemented!() }
}
impl<T> Receiver<T> {
    pub uninterp spec fn chan(&self) -> int;
    /// tokio: "Receives the next value for this receiver. This method returns None if the channel has been closed and there
    /// are no remaining messages in the channel's buffer. [...] The channel is closed when all senders have been dropped."
    /// Messages are received in the order they were sent, each once. With the queue empty and a sender alive the real `recv`
    /// waits; in the sequential schedule every task has already run, so it would wait forever: that is the precondition.
    #[verifier::external_body]
    pub fn recv(&mut self, ch: &mut Chan<T>) -> (r: Option<T>)
        requires old(self).chan() == old(ch).id@, old(ch).wf(),
            old(ch).read@ < old(ch).sent@.len() || old(ch).live@ == 0 /*@C36.channel.recv-cannot-wait-forever*/,
        ensures final(self).chan() == old(self).chan(),
            final(ch).id == old(ch).id, final(ch).sent == old(ch).sent, final(ch).live == old(ch).live,
            match r {
                Some(m) => old(ch).read@ < old(ch).sent@.len() && m == old(ch).sent@[old(ch).read@ as int]
                    && final(ch).read@ == old(ch).read@ + 1,
                None => old(ch).read@ == old(ch).sent@.len() && old(ch).live@ == 0 && final(ch).read == old(ch).read,
            },
    { unimplemented!() }
}
/// `tokio::sync::mpsc::channel(buffer)`: "Creates a bounded mpsc channel [...] Panics if the buffer capacity is 0."
/// A fresh channel: nothing sent, nothing received, one sender handle.
#[verifier::external_body]
pub fn channel<T>(buffer: usize, ch: &mut Chan<T>) -> (r: (Sender<T>, Receiver<T>))
    requires buffer > 0,
    ensures r.0.chan() == final(ch).id@, r.1.chan() == final(ch).id@,
        final(ch).sent@ == Seq::<T>::empty(), final(ch).read@ == 0, final(ch).live@ == 1,
{ unimplemented!() }
/// `drop(sender)`: one live handle less (shadows `core::mem::drop`, which rule `async-seq-chan` only rewrites for senders)
#[verifier::external_body]
pub fn drop<T>(s: Sender<T>, ch: &mut Chan<T>)
    requires s.chan() == old(ch).id@, old(ch).live@ >= 1,
    ensures final(ch).live@ == old(ch).live@ - 1,
        final(ch).id == old(ch).id, final(ch).sent == old(ch).sent, final(ch).read == old(ch).read,
{ }
pub mod tokio { pub mod sync { pub mod mpsc {
    pub use super::super::super::{channel, Sender, Receiver};
} } }

// ---- shims: everything else the two fns touch -------------------------------------------------------
#[verifier::external_body]
pub struct PathBuf { _p: () }
impl Clone for PathBuf {
    #[verifier::external_body]
    fn clone(&self) -> PathBuf { unimplemented!() }
}
#[verifier::external_body]
pub struct DbIndex { _p: () }
impl DbIndex {
    pub uninterp spec fn module_index(&self) -> LuaModuleIndex;
    #[verifier::external_body]
    pub fn get_module_index(&self) -> (r: &LuaModuleIndex)
        ensures *r == self.module_index(),
    { unimplemented!() }
}
#[verifier::external_body]
pub struct LuaCompilation { _p: () }
impl LuaCompilation {
    pub uninterp spec fn db(&self) -> DbIndex;
    #[verifier::external_body]
    pub fn get_db(&self) -> (r: &DbIndex)
        ensures *r == self.db(),
    { unimplemented!() }
}
//@@ EmmyLuaAnalysis
#[verifier::external_body]
pub struct CancellationToken { _p: () }
impl CancellationToken {
    #[verifier::external_body]
    pub fn new() -> CancellationToken { unimplemented!() }
}
/// `EmmyLuaAnalysis::diagnose_file` is modelled as a FUNCTION of the analysis and the file id (with a fresh, never cancelled
/// token): the message payload can then be named. Nothing is assumed about its value.
pub uninterp spec fn sp_diagnose(a: &EmmyLuaAnalysis, f: FileId) -> Option<Vec<Diagnostic>>;
impl EmmyLuaAnalysis {
    #[verifier::external_body]
    pub fn diagnose_file(&self, file_id: FileId, cancel_token: CancellationToken) -> (r: Option<Vec<Diagnostic>>)
        ensures r == sp_diagnose(self, file_id),
    { unimplemented!() }
}
pub open spec fn index_of(a: &EmmyLuaAnalysis) -> LuaModuleIndex { a.compilation.db().module_index() }

#[verifier::external_body]
pub struct TerminalDisplay { _p: () }
impl TerminalDisplay {
    #[verifier::external_body]
    pub fn new(workspace: PathBuf) -> TerminalDisplay { unimplemented!() }
    #[verifier::external_body]
    pub fn print_summary(&self, total_errors: usize, total_warnings: usize, total_info: usize, total_hints: usize) { }
}

pub open spec fn keys_ok() -> bool {
    vstd::std_specs::hash::obeys_key_model::<FileId>()
}

// ---- file selection vocabulary -------------------------------------------------------------------
/// `ids` lists exactly the files of the module index that belong to the main workspace, each once (order unspecified)
pub open spec fn is_main_ids(m: Map<FileId, ModuleInfo>, ids: Seq<FileId>) -> bool {
    &&& ids.no_duplicates()
    &&& forall|f: FileId| #[trigger] ids.contains(f) <==> (m.contains_key(f) && m[f].workspace_id == WorkspaceId::MAIN)
}
/// one message per id, in order: the id and what `diagnose_file` returns for it
pub open spec fn messages_for(a: &EmmyLuaAnalysis, ids: Seq<FileId>) -> Seq<Msg> {
    Seq::new(ids.len(), |i: int| (ids[i], sp_diagnose(a, ids[i])))
}

//@@include c36_exit/lemmas.rs
//@@include c36_channel/lemmas.rs

// ---- extracted from /repo ---------------------------------------------------------------------------
impl LuaModuleIndex {
    //@@ LuaModuleIndex::get_main_workspace_file_ids
}

//@@ OutputFormat
//@@ OutputDestination
//@@ CmdArgs
//@@ DiagnosticSeverityFilter

impl vstd::std_specs::convert::FromSpecImpl<DiagnosticSeverityFilter> for DiagnosticSeverity {
    open spec fn obeys_from_spec() -> bool { true }
    open spec fn from_spec(v: DiagnosticSeverityFilter) -> DiagnosticSeverity { DiagnosticSeverity(threshold(v) as i32) }
}
impl From<DiagnosticSeverityFilter> for DiagnosticSeverity {
    //@@ DiagnosticSeverityFilter::into_severity
}
impl DiagnosticSeverityFilter {
    //@@ DiagnosticSeverityFilter::allows
}

//@@ DiagnosticReceiver
//@@ OutputWriter

/// the three implementations behind `Box<dyn OutputWriter>`: constructors return a writer that has been handed nothing;
/// `write` / `finish` obey the trait contract (ghost log). What each does with a `write` call is unit c36_writers.
pub mod json_output_writer {
    use super::*;
    pub struct JsonOutputWriter { pub l: Ghost<Seq<(FileId, Seq<Diagnostic>)>> }
    impl JsonOutputWriter {
        #[verifier::external_body]
        pub fn new(output: OutputDestination) -> (r: Self) ensures r.l@ == Seq::<(FileId, Seq<Diagnostic>)>::empty() { unimplemented!() }
    }
    impl OutputWriter for JsonOutputWriter {
        open spec fn log(&self) -> Seq<(FileId, Seq<Diagnostic>)> { self.l@ }
        #[verifier::external_body]
        fn write(&mut self, db: &DbIndex, file_id: FileId, diagnostics: Vec<Diagnostic>) { }
        #[verifier::external_body]
        fn finish(&mut self) { }
    }
}
pub mod text_output_writer {
    use super::*;
    pub struct TextOutputWriter { pub l: Ghost<Seq<(FileId, Seq<Diagnostic>)>> }
    impl TextOutputWriter {
        #[verifier::external_body]
        pub fn new(workspace: PathBuf) -> (r: Self) ensures r.l@ == Seq::<(FileId, Seq<Diagnostic>)>::empty() { unimplemented!() }
    }
    impl OutputWriter for TextOutputWriter {
        open spec fn log(&self) -> Seq<(FileId, Seq<Diagnostic>)> { self.l@ }
        #[verifier::external_body]
        fn write(&mut self, db: &DbIndex, file_id: FileId, diagnostics: Vec<Diagnostic>) { }
        #[verifier::external_body]
        fn finish(&mut self) { }
    }
}
pub mod sarif_output_writer {
    use super::*;
    pub struct SarifOutputWriter { pub l: Ghost<Seq<(FileId, Seq<Diagnostic>)>> }
    impl SarifOutputWriter {
        #[verifier::external_body]
        pub fn new(output: OutputDestination) -> (r: Self) ensures r.l@ == Seq::<(FileId, Seq<Diagnostic>)>::empty() { unimplemented!() }
    }
    impl OutputWriter for SarifOutputWriter {
        open spec fn log(&self) -> Seq<(FileId, Seq<Diagnostic>)> { self.l@ }
        #[verifier::external_body]
        fn write(&mut self, db: &DbIndex, file_id: FileId, diagnostics: Vec<Diagnostic>) { }
        #[verifier::external_body]
        fn finish(&mut self) { }
    }
}

//@@ output_result

//@@ run_check::channel

/// `Box<dyn Error + Sync + Send>`: the error value `run_check` returns is opaque (rule `c36c-error-value-opaque`)
#[verifier::external_body]
pub struct BoxedError { _p: () }
#[verifier::external_body]
pub fn vx_boxed_error() -> BoxedError { unimplemented!() }
//@@ run_check::exit

} // verus!
fn main() {}
