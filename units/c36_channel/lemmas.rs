// ---- lemmas of unit c36_channel (all with bodies) ------------------------------------------------------
pub proof fn lemma_is_filtered(all: Seq<Diagnostic>, filter: Option<DiagnosticSeverityFilter>, out: Seq<Diagnostic>)
    requires is_filtered(all, filter, out),
    ensures out == filtered(all, filter), out.len() <= all.len(),
{
    let keep = choose|keep: Seq<bool>| keep.len() == all.len()
        && (forall|i: int| 0 <= i < keep.len() ==> #[trigger] keep[i] == passes(filter, all[i]))
        && out == filter_by(all, keep);
    assert(keep =~= Seq::new(all.len(), |i: int| passes(filter, all[i])));
    lemma_filter_by_len(all, keep);
}

pub proof fn lemma_take_step<T>(s: Seq<T>, k: int)
    requires 0 <= k < s.len(),
    ensures s.take(k + 1).drop_last() == s.take(k), s.take(k + 1).last() == s[k], s.take(k + 1).len() == k + 1,
{
    assert(s.take(k + 1).drop_last() =~= s.take(k));
}

pub proof fn lemma_total_diags_take(msgs: Seq<Msg>, k: int)
    requires 0 <= k < msgs.len(),
    ensures total_diags(msgs.take(k + 1)) == total_diags(msgs.take(k)) + (match msgs[k].1 { Some(ds) => ds@.len(), None => 0 }),
{
    lemma_take_step(msgs, k);
}

pub proof fn lemma_total_diags_mono(msgs: Seq<Msg>, j: int)
    requires 0 <= j <= msgs.len(),
    ensures total_diags(msgs.take(j)) <= total_diags(msgs),
    decreases msgs.len() - j,
{
    if j == msgs.len() {
        assert(msgs.take(j) =~= msgs);
    } else {
        lemma_total_diags_take(msgs, j);
        lemma_total_diags_mono(msgs, j + 1);
    }
}

pub proof fn lemma_reports_step_some(msgs: Seq<Msg>, k: int, filter: Option<DiagnosticSeverityFilter>)
    requires 0 <= k < msgs.len(), msgs[k].1 is Some,
    ensures reports(msgs.take(k + 1), filter) == reports(msgs.take(k), filter).push((msgs[k].0, filtered(msgs[k].1->0@, filter))),
{
    lemma_take_step(msgs, k);
}

pub proof fn lemma_reports_step_none(msgs: Seq<Msg>, k: int, filter: Option<DiagnosticSeverityFilter>)
    requires 0 <= k < msgs.len(), msgs[k].1 is None,
    ensures reports(msgs.take(k + 1), filter) == reports(msgs.take(k), filter),
{
    lemma_take_step(msgs, k);
}

pub proof fn lemma_err_step(msgs: Seq<Msg>, k: int, filter: Option<DiagnosticSeverityFilter>, wae: bool)
    requires 0 <= k < msgs.len(),
    ensures any_reported_err(msgs.take(k + 1), filter, wae) == (any_reported_err(msgs.take(k), filter, wae) || msg_has_err(msgs[k], filter, wae)),
{
    let a = msgs.take(k);
    let b = msgs.take(k + 1);
    if any_reported_err(a, filter, wae) {
        let i = choose|i: int| 0 <= i < a.len() && msg_has_err(#[trigger] a[i], filter, wae);
        assert(b[i] == a[i]);
    }
    if msg_has_err(msgs[k], filter, wae) {
        assert(b[k] == msgs[k]);
    }
    if any_reported_err(b, filter, wae) {
        let i = choose|i: int| 0 <= i < b.len() && msg_has_err(#[trigger] b[i], filter, wae);
        if i < k { assert(a[i] == b[i]); } else { assert(b[i] == msgs[k]); }
    }
}

pub proof fn lemma_messages_step(a: &EmmyLuaAnalysis, ids: Seq<FileId>, i: int)
    requires 0 <= i < ids.len(),
    ensures messages_for(a, ids.take(i + 1)) == messages_for(a, ids.take(i)).push((ids[i], sp_diagnose(a, ids[i]))),
{
    assert(messages_for(a, ids.take(i + 1)) =~= messages_for(a, ids.take(i)).push((ids[i], sp_diagnose(a, ids[i]))));
}

// ---- file selection ---------------------------------------------------------------------------------
/// what the loop of `get_main_workspace_file_ids` collects from the values it has visited, in visiting order
pub open spec fn main_of(vals: Seq<ModuleInfo>) -> Seq<FileId>
    decreases vals.len()
{
    if vals.len() == 0 { Seq::empty() }
    else if vals.last().workspace_id == WorkspaceId::MAIN { main_of(vals.drop_last()).push(vals.last().file_id) }
    else { main_of(vals.drop_last()) }
}

pub open spec fn from_main(vals: Seq<ModuleInfo>, f: FileId) -> bool {
    exists|p: int| 0 <= p < vals.len() && (#[trigger] vals[p]).file_id == f && vals[p].workspace_id == WorkspaceId::MAIN
}

pub open spec fn distinct_ids(vals: Seq<ModuleInfo>) -> bool {
    forall|p: int, q: int| 0 <= p < q < vals.len() ==> (#[trigger] vals[p]).file_id != (#[trigger] vals[q]).file_id
}

pub proof fn lemma_main_of_step(vals: Seq<ModuleInfo>, k: int)
    requires 0 <= k < vals.len(),
    ensures main_of(vals.take(k + 1)) == (if vals[k].workspace_id == WorkspaceId::MAIN { main_of(vals.take(k)).push(vals[k].file_id) } else { main_of(vals.take(k)) }),
{
    lemma_take_step(vals, k);
}

pub proof fn lemma_main_of(vals: Seq<ModuleInfo>)
    ensures
        forall|f: FileId| #[trigger] main_of(vals).contains(f) <==> from_main(vals, f),
        distinct_ids(vals) ==> main_of(vals).no_duplicates(),
    decreases vals.len(),
{
    let mv = main_of(vals);
    if vals.len() == 0 {
        assert forall|f: FileId| #[trigger] mv.contains(f) <==> from_main(vals, f) by {}
    } else {
        let pre = vals.drop_last();
        let l = vals.last();
        let n = pre.len() as int;
        let mp = main_of(pre);
        let is_m = l.workspace_id == WorkspaceId::MAIN;
        lemma_main_of(pre);
        assert forall|f: FileId| #[trigger] mv.contains(f) <==> from_main(vals, f) by {
            if mv.contains(f) {
                let j = choose|j: int| 0 <= j < mv.len() && mv[j] == f;
                if is_m && j == mp.len() {
                    assert(vals[n].file_id == f);
                } else {
                    assert(mp[j] == f);
                    assert(mp.contains(f));
                    let p = choose|p: int| 0 <= p < pre.len() && (#[trigger] pre[p]).file_id == f && pre[p].workspace_id == WorkspaceId::MAIN;
                    assert(vals[p] == pre[p]);
                }
            }
            if from_main(vals, f) {
                let p = choose|p: int| 0 <= p < vals.len() && (#[trigger] vals[p]).file_id == f && vals[p].workspace_id == WorkspaceId::MAIN;
                if p == n {
                    assert(mv[mp.len() as int] == f);
                } else {
                    assert(pre[p] == vals[p]);
                    assert(from_main(pre, f));
                    assert(mp.contains(f));
                    let j = choose|j: int| 0 <= j < mp.len() && mp[j] == f;
                    assert(mv[j] == f);
                }
            }
        }
        if distinct_ids(vals) {
            assert(distinct_ids(pre)) by {
                assert forall|p: int, q: int| 0 <= p < q < pre.len() implies (#[trigger] pre[p]).file_id != (#[trigger] pre[q]).file_id by {
                    assert(pre[p] == vals[p] && pre[q] == vals[q]);
                }
            }
            if is_m {
                if mp.contains(l.file_id) {
                    let p = choose|p: int| 0 <= p < pre.len() && (#[trigger] pre[p]).file_id == l.file_id && pre[p].workspace_id == WorkspaceId::MAIN;
                    assert(vals[p] == pre[p]);
                    assert(vals[p].file_id != vals[n].file_id);
                }
                assert forall|i: int, j: int| 0 <= i < mv.len() && 0 <= j < mv.len() && i != j implies mv[i] != mv[j] by {
                    if i < mp.len() { assert(mp.contains(mp[i])); }
                    if j < mp.len() { assert(mp.contains(mp[j])); }
                }
            }
        }
    }
}

/// HashMap::values yields every value once (vstd: as many values as keys, the same set of values). With every ModuleInfo
/// stored under its own id, collecting the ids of the main-workspace values gives exactly the main-workspace keys, each once.
pub proof fn lemma_main_ids(m: Map<FileId, ModuleInfo>, vals: Seq<ModuleInfo>)
    requires
        forall|f: FileId| #[trigger] m.contains_key(f) ==> m[f].file_id == f,
        vals.to_set() == m.values(), vals.len() == m.dom().len(),
    ensures is_main_ids(m, main_of(vals)),
{
    let fids = vals.map_values(|v: ModuleInfo| v.file_id);
    assert forall|f: FileId| fids.to_set().contains(f) <==> m.dom().contains(f) by {
        if fids.to_set().contains(f) {
            let i = choose|i: int| 0 <= i < fids.len() && fids[i] == f;
            assert(vals.to_set().contains(vals[i]));
            assert(m.values().contains(vals[i]));
            let k = choose|k: FileId| m.contains_key(k) && m[k] == vals[i];
            assert(k == f);
        }
        if m.dom().contains(f) {
            assert(m.values().contains(m[f]));
            assert(vals.to_set().contains(m[f]));
            let i = choose|i: int| 0 <= i < vals.len() && vals[i] == m[f];
            assert(fids[i] == f);
        }
    }
    assert(fids.to_set() =~= m.dom());
    fids.lemma_no_dup_set_cardinality();
    assert(distinct_ids(vals)) by {
        assert forall|p: int, q: int| 0 <= p < q < vals.len() implies (#[trigger] vals[p]).file_id != (#[trigger] vals[q]).file_id by {
            assert(fids[p] == vals[p].file_id && fids[q] == vals[q].file_id);
        }
    }
    lemma_main_of(vals);
    let r = main_of(vals);
    assert forall|f: FileId| #[trigger] r.contains(f) <==> (m.contains_key(f) && m[f].workspace_id == WorkspaceId::MAIN) by {
        if r.contains(f) {
            let p = choose|p: int| 0 <= p < vals.len() && (#[trigger] vals[p]).file_id == f && vals[p].workspace_id == WorkspaceId::MAIN;
            assert(vals.to_set().contains(vals[p]));
            assert(m.values().contains(vals[p]));
            let k = choose|k: FileId| m.contains_key(k) && m[k] == vals[p];
            assert(k == f);
        }
        if m.contains_key(f) && m[f].workspace_id == WorkspaceId::MAIN {
            assert(m.values().contains(m[f]));
            assert(vals.to_set().contains(m[f]));
            let i = choose|i: int| 0 <= i < vals.len() && vals[i] == m[f];
            assert(from_main(vals, f));
        }
    }
}

pub proof fn lemma_main_ids_empty(m: Map<FileId, ModuleInfo>)
    ensures m.dom().len() == 0 ==> is_main_ids(m, Seq::<FileId>::empty()),
{
    if m.dom().len() == 0 {
        m.dom().lemma_len0_is_empty();
        assert forall|f: FileId| #[trigger] Seq::<FileId>::empty().contains(f) <==> (m.contains_key(f) && m[f].workspace_id == WorkspaceId::MAIN) by {
            assert(!m.dom().contains(f));
        }
    }
}

/// `lemma_main_ids` at the last iteration of the loop (stated as an implication so that the call site needs no branch)
pub proof fn lemma_main_ids_last(m: Map<FileId, ModuleInfo>, vals: Seq<ModuleInfo>, k: int)
    requires
        forall|f: FileId| #[trigger] m.contains_key(f) ==> m[f].file_id == f,
        vals.to_set() == m.values(), vals.len() == m.dom().len(), 0 <= k < vals.len(),
    ensures k + 1 == vals.len() ==> is_main_ids(m, main_of(vals.take(k + 1))),
{
    if k + 1 == vals.len() {
        assert(vals.take(k + 1) =~= vals);
        lemma_main_ids(m, vals);
    }
}
