// ---- lemmas of unit c36_channel (all with bodies) ------------------------------------------------------
pub proof fn lemma_is_filtered(all: Seq<Diagnostic>, filter: Option<DiagnosticSeverityFilter>, out: Seq<Diagnostic>)
    requires is_filtered(all, filter, out),
    ensures out == filtered(all, filter), out.len() <= all.len(),
{
    let keep = choose|keep: Seq<bool>| keep.len() == all.len()
        && (forall|i: int| 0 <= i < keep.len() ==> #[trigger] keep[i] == passes(filter, all[i]))
        && out == filter_by(all, keep);
    assert(keep =~= Seq::new(all.len(), |i: int| passes(filter, all[i])));
    lemma_filter_by_len(all, keep);
}

pub proof fn lemma_take_step<T>(s: Seq<T>, k: int)
    requires 0 <= k < s.len(),
    ensures s.take(k + 1).drop_last() == s.take(k), s.take(k + 1).last() == s[k], s.take(k + 1).len() == k + 1,
{
    assert(s.take(k + 1).drop_last() =~= s.take(k));
}

pub proof fn lemma_total_diags_take(msgs: Seq<Msg>, k: int)
    requires 0 <= k < msgs.len(),
    ensures total_diags(msgs.take(k + 1)) == total_diags(msgs.take(k)) + (match msgs[k].1 { Some(ds) => ds@.len(), None => 0 }),
{
    lemma_take_step(msgs, k);
}

pub proof fn lemma_total_diags_mono(msgs: Seq<Msg>, j: int)
    requires 0 <= j <= msgs.len(),
    ensures total_diags(msgs.take(j)) <= total_diags(msgs),
    decreases msgs.len() - j,
{
    if j == msgs.len() {
        assert(msgs.take(j) =~= msgs);
    } else {
        lemma_total_diags_take(msgs, j);
        lemma_total_diags_mono(msgs, j + 1);
    }
}

pub proof fn lemma_reports_step_some(msgs: Seq<Msg>, k: int, filter: Option<DiagnosticSeverityFilter>)
    requires 0 <= k < msgs.len(), msgs[k].1 is Some,
    ensures reports(msgs.take(k + 1), filter) == reports(msgs.take(k), filter).push((msgs[k].0, filtered(msgs[k].1->0@, filter))),
{
    lemma_take_step(msgs, k);
}

pub proof fn lemma_reports_step_none(msgs: Seq<Msg>, k: int, filter: Option<DiagnosticSeverityFilter>)
    requires 0 <= k < msgs.len(), msgs[k].1 is None,
    ensures reports(msgs.take(k + 1), filter) == reports(msgs.take(k), filter),
{
    lemma_take_step(msgs, k);
}

pub proof fn lemma_err_step(msgs: Seq<Msg>, k: int, filter: Option<DiagnosticSeverityFilter>, wae: bool)
    requires 0 <= k < msgs.len(),
    ensures any_reported_err(msgs.take(k + 1), filter, wae) == (any_reported_err(msgs.take(k), filter, wae) || msg_has_err(msgs[k], filter, wae)),
{
    let a = msgs.take(k);
    let b = msgs.take(k + 1);
    if any_reported_err(a, filter, wae) {
        let i = choose|i: int| 0 <= i < a.len() && msg_has_err(#[trigger] a[i], filter, wae);
        assert(b[i] == a[i]);
    }
    if msg_has_err(msgs[k], filter, wae) {
        assert(b[k] == msgs[k]);
    }
    if any_reported_err(b, filter, wae) {
        let i = choose|i: int| 0 <= i < b.len() && msg_has_err(#[trigger] b[i], filter, wae);
        if i < k { assert(a[i] == b[i]); } else { assert(b[i] == msgs[k]); }
    }
}

pub proof fn lemma_messages_step(a: &EmmyLuaAnalysis, ids: Seq<FileId>, i: int)
    requires 0 <= i < ids.len(),
    ensures messages_for(a, ids.take(i + 1)) == messages_for(a, ids.take(i)).push((ids[i], sp_diagnose(a, ids[i]))),
{
    assert(messages_for(a, ids.take(i + 1)) =~= messages_for(a, ids.take(i)).push((ids[i], sp_diagnose(a, ids[i]))));
}
