"""unit c36_channel — the task / channel bookkeeping of `emmylua_check` (C36): `run_check` spawns one task per main-workspace
file, every task sends one `(file_id, diagnostics)` message, `output_result` consumes them, counting up to `total_count`.

Verus verifies sequential code. The rule family `async-seq` (below) turns the async text into its *sequential schedule*:
every spawned task runs its body to completion at the point where it is spawned, `.await` is a plain call, and the channel's
shared state becomes an explicit ghost parameter `ch`. What is proved is therefore WHICH messages are sent and consumed, not when."""
import re

from vc import rustlex as L
from vc.extract import Undecided
from vc.rules import rule

CHECK = 'crates/emmylua_check/src/'
OUT = CHECK + 'output/mod.rs'
ARGS = CHECK + 'cmd_args.rs'
LIB = CHECK + 'lib.rs'
CA = 'crates/emmylua_code_analysis/src/'
MOD = CA + 'db_index/module/'


def _T(text, toks):
    return lambda i: L.tok_text(text, toks[i]) if 0 <= i < len(toks) else ''


# ---------------------------------------------------------------------------------------------
# rule family `async-seq`
# ---------------------------------------------------------------------------------------------
@rule('async-seq-fn')
def async_seq_fn(text, **_):
    """async-seq (a1): `async fn f(..) -> T` -> `fn f(..) -> T`. An async fn is a fn returning a future whose only observable
    behaviour, once awaited to completion, is that of its body; in the sequential schedule the body runs at the call."""
    return re.subn(r'\basync\s+fn\b', 'fn', text)


@rule('async-seq-await')
def async_seq_await(text, **_):
    """async-seq (a2): `E.await` -> `E`. Awaiting a future runs it to completion and yields its output; in the sequential
    schedule (no other task is interleaved at a suspension point) that is the plain call."""
    toks = L.code_tokens(text)
    T = _T(text, toks)
    cuts = []
    for i in range(1, len(toks)):
        if toks[i][0] == 'ident' and T(i) == 'await' and T(i - 1) == '.':
            # also swallow the white space in front of `.await` (rustfmt puts it on its own line)
            a = toks[i - 1][1]
            while a > 0 and text[a - 1] in ' \t\n':
                a -= 1
            cuts.append((a, toks[i][2]))
    for a, b in reversed(cuts):
        text = text[:a] + text[b:]
    return text, len(cuts)


@rule('async-seq-spawn')
def async_seq_spawn(text, owned_senders=(), **_):
    """async-seq (b): `tokio::spawn(async move { BODY });` -> `{ BODY drop(S, ch); }` for the moved-in sender(s) S: the task's
    body runs to completion, exactly once, at the point where it is spawned (the JoinHandle is discarded in the source, so
    nothing else of the task is observable). `async move` moves the captured variables into the task, which drops them when
    its future completes: for the captured channel sender that drop is observable (it closes the channel when it is the last)
    and is therefore written out. NOT modelled: scheduling and interleaving, a task that panics or never runs (runtime
    shutdown), back-pressure of the bounded channel."""
    n = 0
    while True:
        toks = L.code_tokens(text)
        T = _T(text, toks)
        hit = None
        for i in range(len(toks) - 8):
            if (T(i) == 'tokio' and T(i + 1) == ':' and T(i + 2) == ':' and T(i + 3) == 'spawn' and T(i + 4) == '('
                    and T(i + 5) == 'async' and T(i + 6) == 'move' and T(i + 7) == '{'):
                bc = L.match_close(text, toks, i + 7)
                pc = L.match_close(text, toks, i + 4)
                if pc != bc + 1 or T(pc + 1) != ';':
                    raise Undecided('async-seq-spawn: spawn is not a statement `tokio::spawn(async move { .. });`')
                body = text[toks[i + 7][2]:toks[bc][1]]
                used = {T(k) for k in range(i + 8, bc) if toks[k][0] == 'ident'}
                for s in owned_senders:
                    if s not in used:
                        raise Undecided('async-seq-spawn: the task body does not capture `%s`' % s)
                drops = ''.join('drop(%s, ch); ' % s for s in owned_senders)
                hit = (toks[i][1], toks[pc + 1][2], '{' + body.rstrip() + '\n            ' + drops + '\n        }')
                break
        if not hit:
            break
        text = text[:hit[0]] + hit[2] + text[hit[1]:]
        n += 1
    if re.search(r'\basync\b', text):
        raise Undecided('async-seq-spawn: an `async` block remains')
    return text, n


@rule('async-seq-chan')
def async_seq_chan(text, senders=('sender',), receivers=('receiver',), callees=(), **_):
    """async-seq (c), state-passing form of the shared channel: the state that `Sender`s and the `Receiver` of one
    `tokio::sync::mpsc` channel share (the queue, the number of live senders) becomes the explicit parameter `ch`:
    `mpsc::channel(N)` -> `mpsc::channel(N, ch)` (initialises it), `S.send(V)` -> `S.send(V, ch)`, `S.clone()` -> `S.clone(ch)`,
    `drop(S)` -> `drop(S, ch)` for the sender variables S, `R.recv()` -> `R.recv(ch)` for the receiver variables R, and `ch` is
    appended to the calls of the listed callees that take the receiver. Nothing else is touched."""
    n = 0
    done = set()
    while True:
        toks = L.code_tokens(text)
        T = _T(text, toks)
        hit = None
        for i in range(len(toks) - 2):
            if toks[i][0] != 'ident' or T(i + 1) != '(':
                continue
            c = L.match_close(text, toks, i + 1)
            if T(c - 1) == 'ch':
                continue
            name = T(i)
            is_method = T(i - 1) == '.'
            recv_var = T(i - 2) if is_method else None
            ok = False
            if name == 'channel' and T(i - 1) == ':' and T(i - 3) == 'mpsc':
                ok = True
            elif is_method and name in ('send', 'clone') and recv_var in senders:
                ok = True
            elif is_method and name == 'recv' and recv_var in receivers:
                ok = True
            elif not is_method and name == 'drop' and T(i + 2) in senders and c == i + 3:
                ok = True
            elif not is_method and name in callees and T(i - 1) != 'fn':
                ok = True
            if not ok:
                continue
            empty = (c == i + 2)
            if T(c - 1) == ',':
                hit = (toks[c - 1][2], toks[c][1], ' ch')           # multi-line call with a trailing comma
            else:
                hit = (toks[c][1], toks[c][1], 'ch' if empty else ', ch')
            break
        if not hit:
            break
        text = text[:hit[0]] + hit[2] + text[hit[1]:]
        n += 1
    return text, n


# ---------------------------------------------------------------------------------------------
# contracts
# ---------------------------------------------------------------------------------------------
MSG = '(FileId, Option<Vec<Diagnostic>>)'

OUTPUT_RESULT = {
    'src': {'file': OUT, 'kind': 'fn', 'name': 'output_result'},
    'rules': ['async-seq-fn', ('async-seq-await', {'count': 1}), ('async-seq-chan', {'count': 1}),
              'c36c-chan-param', 'c36-closure-contract'],
    'attrs': '#[verifier::spinoff_prover]\n#[verifier::loop_isolation(false)]',
    'ret': 'r',
    'requires': '''
            old(ch).wf(), receiver.chan() == old(ch).id@,
            // the completion count the caller hands over is the number of messages that are (will be) in the channel
            total_count == old(ch).unread().len() /*@C36.channel.total-matches-messages*/,
            // every sender handle is gone: the original was dropped, every task has finished and dropped its clone
            // (otherwise `recv` on the empty channel of a workspace without files would wait forever)
            old(ch).live@ == 0 /*@C36.channel.closed-after-last-task*/,
            // input assumption (as in unit c36_exit): the four usize tallies cannot overflow
            total_diags(old(ch).unread()) <= usize::MAX''',
    'ensures': '''
            // every message of the channel was received, each once, in order; none appeared or vanished
            final(ch).sent@ == old(ch).sent@ && final(ch).read@ == final(ch).sent@.len() /*@C36.channel.every-message-consumed*/,
            // exit status: non-zero exactly when a REPORTED diagnostic (after the filter) of some message is an error,
            // or a warning under --warnings-as-errors
            (r != 0) == any_reported_err(old(ch).unread(), severity_filter, warnings_as_errors) /*@C36.exit.nonzero-iff-reported-error*/''',
    'body_first': 'let ghost sent0 = ch.sent@; let ghost read0 = ch.read@; let ghost msgs = ch.unread();',
    'iter_names': {1: 'it'},
    'loops': {
        0: '''invariant
                ch.wf(), ch.sent@ == sent0, receiver.chan() == ch.id@, read0 <= ch.read@, msgs == sent0.skip(read0 as int), ch.live@ == 0,
                total_count == msgs.len(), total_diags(msgs) <= usize::MAX,
                count == ch.read@ - read0 /*@C36.channel.count-counts-consumed*/,
                // what the writer was handed so far: the filtered diagnostics of every consumed message, once, in order, under its file
                writer.log() == reports(msgs.take(count as int), severity_filter) /*@C36.report.every-consumed-message-once.inv*/,
                has_error == any_reported_err(msgs.take(count as int), severity_filter, warnings_as_errors) /*@C36.exit.flag.inv*/,
                error_count <= total_diags(msgs.take(count as int)), warning_count <= total_diags(msgs.take(count as int)),
                info_count <= total_diags(msgs.take(count as int)), hint_count <= total_diags(msgs.take(count as int)),
            ensures
                ch.read@ == ch.sent@.len() /*@C36.channel.every-message-consumed.loop-exit*/,
            decreases ch.sent@.len() - ch.read@''',
        1: '''invariant
                has_error == (he0 || exists|i: int| 0 <= i < it.index@ && is_err(#[trigger] diagnostics@[i], warnings_as_errors)) /*@C36.exit.flag.inner-inv*/,
                error_count <= c0.0 + it.index@, warning_count <= c0.1 + it.index@,
                info_count <= c0.2 + it.index@, hint_count <= c0.3 + it.index@,''',
    },
    'proof': [
        (r'(?<![\w])count \+= 1;', 'before', '''
                let ghost k = (ch.read@ - read0 - 1) as int;
                proof {
                    assert(msgs[k] == sent0[read0 + k]);
                    assert(msgs[k] == (file_id, diagnostics));
                    lemma_take_step(msgs, k);
                    lemma_total_diags_take(msgs, k);
                    lemma_total_diags_mono(msgs, k + 1);
                }'''),
        (r'if let Some\(severity_filter\) = severity_filter \{', 'before', '''
                let ghost all = diagnostics@;'''),
        (r'diagnostics\.retain\(\|diagnostic[^;]*\);\s*\}', 'after', '''
                proof {
                    if severity_filter is None {
                        lemma_filter_by_all_true(all, Seq::new(all.len(), |i: int| true));
                        assert(is_filtered(all, severity_filter, diagnostics@));
                    } else {
                        assert(exists|keep: Seq<bool>| keep.len() == all.len()
                            && (forall|i: int| 0 <= i < keep.len() ==> #[trigger] keep[i] == passes(severity_filter, all[i]))
                            && diagnostics@ == filter_by(all, keep));
                    }
                    lemma_is_filtered(all, severity_filter, diagnostics@);
                }
                let ghost he0 = has_error; let ghost c0 = (error_count, warning_count, info_count, hint_count);'''),
        (r'writer\.write\(db, file_id, diagnostics\);', 'after', '''
                proof {
                    lemma_reports_step_some(msgs, k, severity_filter);
                    lemma_err_step(msgs, k, severity_filter, warnings_as_errors);
                }'''),
        (r'if count == total_count \{', 'before', '''
                proof {
                    if msgs[k].1 is None {
                        lemma_reports_step_none(msgs, k, severity_filter);
                        lemma_err_step(msgs, k, severity_filter, warnings_as_errors);
                    }
                }'''),
        (r'writer\.finish\(\);', 'before', '''
                proof {
                    assert(msgs.take(count as int) =~= msgs);
                    // the report: when the writer is finished it has been handed, for every message of the channel that carries
                    // diagnostics, exactly the filtered diagnostics, once, in channel order, under the message's own file id
                    assert(writer.log() == reports(msgs, severity_filter)) /*@C36.report.every-message-once*/;
                }'''),
    ],
}

RUN_CHECK = {
    'src': {'kind': 'slice', 'name': 'run_check_channel', 'in': {'file': LIB, 'kind': 'fn', 'name': 'run_check'},
            'from': r'let db = analysis\.compilation\.get_db\(\);\s*let need_check_files = ',
            'to': r'cmd_args\.severity,\s*\)\s*\.await;',
            'head': 'pub fn run_check_channel(analysis: EmmyLuaAnalysis, main_path: PathBuf, cmd_args: CmdArgs, ch: &mut Chan<%s>) -> i32' % MSG,
            'tail': 'exit_code'},
    'rules': [('async-seq-await', {'count': 2}), ('async-seq-spawn', {'owned_senders': ('sender',), 'count': 1}),
              ('async-seq-chan', {'callees': ('output_result',), 'count': 5})],
    'attrs': '#[verifier::spinoff_prover]\n#[verifier::loop_isolation(false)]',
    'ret': 'r',
    'requires': '''
            keys_ok(),
            // index invariant (part of unit c10_module's `module_wf`): every ModuleInfo is stored under its own file id
            forall|f: FileId| #[trigger] index_of(&analysis).file_module_map@.contains_key(f) ==> index_of(&analysis).file_module_map@[f].file_id == f,
            // input assumption: the usize tallies cannot overflow
            forall|ids: Seq<FileId>| #[trigger] is_main_ids(index_of(&analysis).file_module_map@, ids) ==> total_diags(messages_for(&analysis, ids)) <= usize::MAX''',
    'ensures': '''
            // exactly one message per main-workspace file id, carrying that id and diagnose_file's result for it
            exists|ids: Seq<FileId>| is_main_ids(index_of(&analysis).file_module_map@, ids)
                && final(ch).sent@ == messages_for(&analysis, ids) /*@C36.channel.one-message-per-main-file*/,
            final(ch).read@ == final(ch).sent@.len() /*@C36.channel.every-message-consumed*/,
            (r != 0) == any_reported_err(final(ch).sent@, cmd_args.severity, cmd_args.warnings_as_errors) /*@C36.exit.nonzero-iff-reported-error*/''',
    'iter_names': {0: 'it'},
    'loops': {0: '''invariant
                ch.wf(), ch.read@ == 0, sender.chan() == ch.id@, receiver.chan() == ch.id@, ch.live@ == 1,
                it.elements == need_check_files@,
                ch.sent@ == messages_for(&*analysis, need_check_files@.take(it.index@ as int)) /*@C36.channel.one-message-per-main-file.inv*/,'''},
    'proof': [
        (r'let sender = sender\.clone\(ch\);', 'before', '''
                proof { lemma_messages_step(&*analysis, need_check_files@, it.index@ as int); }'''),
        (r'let exit_code = output_result\(', 'before', '''
                proof {
                    assert(need_check_files@.take(need_check_files@.len() as int) =~= need_check_files@);
                    assert(ch.unread() =~= ch.sent@);
                    assert(is_main_ids(index_of(&*analysis).file_module_map@, need_check_files@));
                }'''),
    ],
}

MAIN_IDS = {
    'src': {'file': MOD + 'mod.rs', 'kind': 'fn', 'impl': 'LuaModuleIndex', 'name': 'get_main_workspace_file_ids'},
    'attrs': '#[verifier::spinoff_prover]\n#[verifier::loop_isolation(false)]',
    'ret': 'r',
    'requires': '''
            keys_ok(),
            // index invariant (part of unit c10_module's `module_wf`): every ModuleInfo is stored under its own file id
            forall|f: FileId| #[trigger] self.file_module_map@.contains_key(f) ==> self.file_module_map@[f].file_id == f''',
    'ensures': '''
            // exactly the files of `file_module_map` whose workspace is the main workspace, each once (order unspecified)
            is_main_ids(self.file_module_map@, r@) /*@C36.files.exactly-main-workspace*/''',
}

UNIT = {
    'items': {
        'FileId': {'src': {'file': CA + 'vfs/file_id.rs', 'kind': 'struct', 'name': 'FileId', 'drop_attrs': False},
                   'attrs': '#[derive(Structural)]'},
        'WorkspaceId': {'src': {'file': MOD + 'workspace.rs', 'kind': 'struct', 'name': 'WorkspaceId', 'drop_attrs': False},
                        'attrs': '#[derive(Structural)]'},
        'WorkspaceId::MAIN': {'src': {'file': MOD + 'workspace.rs', 'kind': 'const', 'impl': 'WorkspaceId', 'name': 'MAIN'},
                              'rules': ['c36c-const-semicolon']},
        'ModuleInfo': {'src': {'file': MOD + 'module_info.rs', 'kind': 'struct', 'name': 'ModuleInfo'},
                       'rules': [('struct-fields', {'keep': ['file_id', 'workspace_id']})]},
        'LuaModuleIndex': {'src': {'file': MOD + 'mod.rs', 'kind': 'struct', 'name': 'LuaModuleIndex'},
                           'rules': [('struct-fields', {'keep': ['file_module_map']})]},
        'LuaModuleIndex::get_main_workspace_file_ids': MAIN_IDS,
        'EmmyLuaAnalysis': {'src': {'file': CA + 'lib.rs', 'kind': 'struct', 'name': 'EmmyLuaAnalysis'},
                            'rules': [('struct-fields', {'keep': ['compilation']})]},
        'CmdArgs': {'src': {'file': ARGS, 'kind': 'struct', 'name': 'CmdArgs'},
                    'rules': [('struct-fields', {'keep': ['output_format', 'output', 'warnings_as_errors', 'severity']})]},
        'OutputFormat': {'src': {'file': ARGS, 'kind': 'enum', 'name': 'OutputFormat'}, 'attrs': '#[derive(Clone, PartialEq)]'},
        'OutputDestination': {'src': {'file': ARGS, 'kind': 'enum', 'name': 'OutputDestination'}},
        'DiagnosticSeverityFilter': {'src': {'file': ARGS, 'kind': 'enum', 'name': 'DiagnosticSeverityFilter'},
                                     'attrs': '#[derive(Clone, Copy)]'},
        'DiagnosticSeverityFilter::into_severity': {
            'src': {'file': ARGS, 'kind': 'fn', 'impl': 'From for DiagnosticSeverity', 'name': 'from'}, 'pub': False},
        'DiagnosticSeverityFilter::allows': {
            'src': {'file': ARGS, 'kind': 'fn', 'impl': 'DiagnosticSeverityFilter', 'name': 'allows'},
            'ret': 'r',
            'ensures': 'r == (severity matches Some(s) && s.0 <= threshold(self)) /*@C36.filter.allows*/'},
        'DiagnosticReceiver': {'src': {'file': OUT, 'kind': 'type', 'name': 'DiagnosticReceiver'}},
        'OutputWriter': {'src': {'file': OUT, 'kind': 'trait', 'name': 'OutputWriter'},
                         'rules': ['c36c-writer-trait-contract'], 'pub': False},
        'output_result': OUTPUT_RESULT,
        'run_check::channel': RUN_CHECK,
    },
    'extra_rules': [
        ('c36c-const-semicolon', r'\}\s*$', '};',
         'extractor artefact: a `const X: T = T { .. };` item is cut at the closing brace of its initialiser; the terminating `;` is restored'),
        ('c36-closure-contract', r'\|diagnostic\| severity_filter\.allows\(diagnostic\.severity\)',
         '|diagnostic: &Diagnostic| -> (b: bool) ensures b == passes(Some(severity_filter), *diagnostic) { severity_filter.allows(diagnostic.severity) }',
         'contract overlay on a closure (same rule as unit c36_exit): parameter type, named result and `ensures` are added, the body '
         'expression is kept verbatim and Verus checks the ensures against it'),
        ('c36c-chan-param', r'mut receiver: DiagnosticReceiver,', 'mut receiver: DiagnosticReceiver, ch: &mut Chan<%s>,' % MSG,
         'async-seq (c), callee side: the fn that takes the Receiver also takes the explicit channel state `ch`'),
        ('c36c-writer-trait-contract',
         r'trait OutputWriter \{\s*fn write\(&mut self, db: &DbIndex, file_id: FileId, diagnostics: Vec<Diagnostic>\);\s*fn finish\(&mut self\);\s*\}',
         '''pub trait OutputWriter {
    /// ghost log of the `write` calls (what the three implementations do with a call is proved in unit c36_writers)
    spec fn log(&self) -> Seq<(FileId, Seq<Diagnostic>)>;
    fn write(&mut self, db: &DbIndex, file_id: FileId, diagnostics: Vec<Diagnostic>)
        ensures final(self).log() == old(self).log().push((file_id, diagnostics@));
    fn finish(&mut self)
        ensures final(self).log() == old(self).log();
}''',
         'contract overlay on the trait declaration: the two method signatures are the repository\'s (the rule matches them literally), '
         'a ghost `log` of the write calls and the `ensures` that define it are added'),
    ],
    'allow': [r'external_body', r'uninterp',
              r'assume_specification<T, A: Allocator, F: FnMut\(&T\) -> bool>\[ Vec::<T, A>::retain \]'],
    'min_obligations': 10,
    'trusted': [],
    'not_covered': [],
    'samples': [],
    'mutants': [],
}
